"""Only on the PYTHONPATH of the C20 child processes (and inherited by the joblib/loky workers they start), and only active
when KDV_STUB_KAPPADATA=1: makes `kappadata` / `kappadata.utils` importable as plain namespace stubs so that unpickling
`kappadata.copying.copying_utils.unzip` in a worker loads the real source files without executing the torch-heavy
package __init__ (seconds per worker otherwise)."""
import os
import sys
import types

if os.environ.get("KDV_STUB_KAPPADATA") == "1" and "kappadata" not in sys.modules:
    _repo = os.environ.get("KDV_REPO", "/repo")
    for _n in ("kappadata", "kappadata.utils"):
        _pkg = types.ModuleType(_n)
        _pkg.__path__ = [os.path.join(_repo, _n.replace(".", "/"))]
        sys.modules[_n] = _pkg
