"""C14 — geometric transforms stay in bounds, recorded parameters tell the truth, pair geometry, inverses.

* real-code runners: every transform is run on coordinate-encoded images (pixel value = its own position) with a `ctx` and
  a recording proxy (`RecRng`) around its numpy generator; the tape of draws goes to the Lean model (lean/KDVerif/Model/Geometry.lean)
* float front end (executable only): where the code rounds a float to an integer (`sqrt/exp/round`, float32 arithmetic) the same
  formula is evaluated here on the recorded uniform draws and the integers are handed to the integer core
* family `mgrid`: the by-hand vocabulary of Model/C14Spec.lean (the definitions the "recorded parameters reproduce the output" theorems are stated
  over) is executed by the driver ops geo.padcrop / geo.erasepaste on the real transforms' inputs and recorded parameters and compared with their outputs
* independent oracles (no model involved): in-bounds, output size, "recorded parameters applied by hand with
  torchvision.transforms.functional reproduce the output exactly", pair alignment via coordinate decoding, round trips
"""
import json
import math
import random
import time
from fractions import Fraction
from pathlib import Path

import numpy as np
import torch

from . import translate_einops as te
from .common import CORPUS_DIR, CorrResult, Disagreement, Failure, PropertyCheck


# ----------------------------------------------------------------------------------------------
# recording generator
# ----------------------------------------------------------------------------------------------
def fr(x):
    """exact rational of a float as [num, den]"""
    f = Fraction(float(x))
    return [f.numerator, f.denominator]


class RecRng:
    """duck-typed proxy around a real numpy Generator: every call is logged (kind, arguments, result)"""

    def __init__(self, seed, log=None):
        self.real = np.random.default_rng(seed)
        self.log = [] if log is None else log

    def integers(self, low, high=None, size=None, **kw):
        v = self.real.integers(low, high, size=size, **kw)
        lo, hi = (0, low) if high is None else (low, high)
        if size is None:
            self.log.append(["i", int(lo), int(hi), int(v)])
        else:
            for e in np.asarray(v).reshape(-1):
                self.log.append(["i", int(lo), int(hi), int(e)])
        return v

    def uniform(self, low=0.0, high=1.0, size=None):
        v = self.real.uniform(low, high, size)
        self.log.append(["u", fr(v), float(low), float(high)])
        return v

    def random(self, *a, **kw):
        v = self.real.random(*a, **kw)
        self.log.append(["r", fr(v)])
        return v

    def standard_normal(self, *a, **kw):
        v = self.real.standard_normal(*a, **kw)
        self.log.append(["n"])
        return v

    def permutation(self, n):
        v = self.real.permutation(n)
        self.log.append(["p", [int(e) for e in v]])
        return v

    def __getattr__(self, name):  # any other method: forwarded and logged as foreign
        def f(*a, **kw):
            self.log.append(["x", name])
            return getattr(self.real, name)(*a, **kw)
        return f


def tape_json(log):
    """log -> the tape format of the Lean driver (uniform bounds dropped)"""
    out = []
    for e in log:
        if e[0] == "u":
            out.append(["u", e[1]])
        elif e[0] in ("i", "r", "n"):
            out.append(e)
        else:
            out.append(["n"] if e[0] == "n" else ["x"])   # foreign kinds make the model answer kindMismatch / parse error
    return out


def fval(e):
    """float value of a logged rational"""
    return e[0] / e[1]


# ----------------------------------------------------------------------------------------------
# coordinate-encoded inputs
# ----------------------------------------------------------------------------------------------
def coord_tensor(h, w, dtype=torch.uint8):
    """(3, h, w): channel0 = row+1, channel1 = col+1, channel2 = 200 (so that fill value 0 is recognisable)"""
    r = torch.arange(1, h + 1).view(h, 1).expand(h, w)
    c = torch.arange(1, w + 1).view(1, w).expand(h, w)
    return torch.stack([r, c, torch.full((h, w), 200)]).to(dtype).contiguous()


def coord_pil(h, w):
    from torchvision.transforms.functional import to_pil_image
    return to_pil_image(coord_tensor(h, w))


def coord_mask(h, w):
    """(h, w) long: value = row * w + col"""
    return torch.arange(h * w).view(h, w).clone()


def as_tensor(img):
    """uint8 (3,h,w) tensor of a PIL image or tensor"""
    if torch.is_tensor(img):
        return img
    from torchvision.transforms.functional import pil_to_tensor
    return pil_to_tensor(img)


def img_size(img):
    from torchvision.transforms.functional import get_image_size
    w, h = get_image_size(img)
    return h, w


def same_img(a, b):
    a, b = as_tensor(a), as_tensor(b)
    return a.shape == b.shape and bool((a == b).all())


def exc_kind(e):
    """small enum for exceptions"""
    s = str(e)
    if isinstance(e, ValueError) and "Required crop size" in s:
        return "valueError"
    if isinstance(e, ValueError) and ("low >= high" in s or "high <= 0" in s):
        return "genValueError"
    if isinstance(e, AssertionError):
        return "assertion"
    if isinstance(e, ZeroDivisionError):
        return "zeroDiv"
    return f"other:{type(e).__name__}"


# ----------------------------------------------------------------------------------------------
# family: crops (KDRandomCrop, KDSimpleRandomCrop, KDTwoRandomCrop)
# ----------------------------------------------------------------------------------------------
def make_img(case, h=None, w=None):
    h, w = h or case["h"], w or case["w"]
    return coord_pil(h, w) if case.get("kind") == "pil" else coord_tensor(h, w)


def hand_pad(img, case):
    """the padded image the crop box refers to, built with torchvision.functional.pad from the configuration"""
    from torchvision.transforms.functional import pad
    th, tw = case["size"]
    fill, mode = case.get("fill", 0), case.get("mode", "constant")
    if case.get("padding") is not None:
        img = pad(img, case["padding"], fill, mode)
    h, w = img_size(img)
    if case.get("pin") and w < tw:
        img = pad(img, [tw - w, 0], fill, mode)
    if case.get("pin") and h < th:
        img = pad(img, [0, th - h], fill, mode)
    return img


def hand_resize(img, case):
    from torchvision.transforms import InterpolationMode, Resize
    size = case["rsize"]
    return Resize(size=size if isinstance(size, int) else tuple(size), interpolation=InterpolationMode(case.get("interp", "bicubic")))(img)


def build_crop(case):
    import kappadata.transforms as T
    from kappadata.transforms.kd_two_random_crop import KDTwoRandomCrop
    cls = case["cls"]
    kw = dict(padding=case.get("padding"), pad_if_needed=bool(case.get("pin")), fill=case.get("fill", 0),
              padding_mode=case.get("mode", "constant"))
    if cls == "KDRandomCrop":
        return T.KDRandomCrop(size=tuple(case["size"]), **kw)
    if cls == "KDTwoRandomCrop":
        return KDTwoRandomCrop(size=tuple(case["size"]), overlap_min=case.get("omin"), overlap_max=case.get("omax"),
                               tries=case.get("tries", 20), **kw)
    if cls == "KDSimpleRandomCrop":
        size = case["rsize"]
        return T.KDSimpleRandomCrop(size=size if isinstance(size, int) else tuple(size), interpolation=case.get("interp", "bicubic"), **kw)
    raise KeyError(cls)


def _same_object_again(t, img, seed):
    """state carried across calls: the same transform object handles another sample (own ctx, other draws) before the ctx recorded
    for the judged sample is read -- the record must still describe the judged sample"""
    import copy
    old = getattr(t, "rng", None)
    try:
        t.set_rng(RecRng(seed + 1, []))
        t(copy.deepcopy(img), ctx={})
    except Exception:  # noqa
        pass
    finally:
        if old is not None:
            try:
                t.set_rng(old)
            except Exception:  # noqa
                pass


def run_crop(case):
    log = []
    real = {"log": log}
    try:
        t = build_crop(case)
        t.set_rng(RecRng(case["seed"], log))
    except Exception as e:
        real["out"] = "ctor:" + type(e).__name__
        return real
    img = make_img(case)
    # the image the recorded box refers to (hand application of the configured resize / padding)
    try:
        base = hand_resize(img, case) if case["cls"] == "KDSimpleRandomCrop" else img
        real["_base_size"] = list(img_size(base))
        hand = hand_pad(base, case)
        real["_hand"] = hand
        real["HW"] = list(img_size(hand))
    except Exception as e:
        real["_hand"] = None
        real["hand_err"] = f"{type(e).__name__}: {e}"[:200]
    ctx = {}
    try:
        y = t(img, ctx=ctx)
        real["out"] = "ok"
        real["_y"] = y
        _same_object_again(t, img, case["seed"])
    except Exception as e:
        real["out"] = exc_kind(e)
        real["msg"] = str(e)[:200]
        return real
    if case["cls"] == "KDTwoRandomCrop":
        c = ctx.get("two_random_crop") or {}
        real["b0"] = [c.get(k) for k in ("i0", "j0", "h0", "w0")]
        real["b1"] = [c.get(k) for k in ("i1", "j1", "h1", "w1")]
        real["oot"] = c.get("out_of_tries")
        real["overlap"] = c.get("overlap")
    else:
        c = ctx.get("random_crop") or {}
        real["box"] = [c.get(k) for k in "ijhw"]
    return real


def crop_sizes(case):
    s = case["size"]
    return s[0], s[1]


def req_crop(case, real):
    if real.get("_hand") is None and "hand_err" in real:
        return None
    if str(real.get("out", "")).startswith(("ctor:", "other:")):
        return None
    th, tw = crop_sizes(case)
    h, w = real["_base_size"]
    pad = case.get("padding")
    if isinstance(pad, int):
        pad = [pad]
    r = {"op": "geo.crop", "h": h, "w": w, "th": th, "tw": tw, "padding": pad, "pin": bool(case.get("pin")),
         "tape": tape_json(real["log"])}
    if case["cls"] == "KDTwoRandomCrop":
        r["op"] = "geo.two"
        r["omin"] = fr(case.get("omin") or 0.0)
        r["omax"] = fr(case.get("omax") or 1.0)
        r["tries"] = case.get("tries", 20)
        r["fuel"] = 200
    return r


def views_crop(case, real, model):
    """(model view, impl view) — integers compared exactly, the overlap within 1e-12"""
    if "err" in model:
        mv = {"out": model["err"]}
    elif case["cls"] == "KDTwoRandomCrop":
        mv = {"out": "ok", "HW": [model["H"], model["W"]], "b0": model["b0"], "b1": model["b1"], "oot": model["oot"], "rest": model["rest"]}
    else:
        mv = {"out": "ok", "HW": [model["H"], model["W"]], "box": model["box"], "rest": model["rest"]}
    if real["out"] != "ok":
        iv = {"out": real["out"]}
    elif case["cls"] == "KDTwoRandomCrop":
        iv = {"out": "ok", "HW": real["HW"], "b0": real["b0"], "b1": real["b1"], "oot": real["oot"], "rest": 0}
        if "err" not in model:
            mo = model["overlap"][0] / model["overlap"][1]
            if real["overlap"] is None or abs(mo - real["overlap"]) > 1e-12:
                iv["overlap"], mv["overlap"] = real["overlap"], mo
    else:
        iv = {"out": "ok", "HW": real["HW"], "box": real["box"], "rest": 0}
    return mv, iv


def box_ok(b, H, W):
    return all(isinstance(v, int) for v in b) and b[0] >= 0 and b[1] >= 0 and b[0] + b[2] <= H and b[1] + b[3] <= W


def oracle_crop(case, real):
    from torchvision.transforms.functional import crop
    cls = case["cls"]
    if real.get("_hand") is None or str(real.get("out", "")).startswith("ctor:"):
        return None     # configuration torchvision itself refuses (e.g. reflect padding larger than the image): out of the claim
    th, tw = crop_sizes(case)
    H, W = real["HW"]
    fits = H >= th and W >= tw
    tag = f"{cls} image {case['h']}x{case['w']} ({case.get('kind', 'tensor')}) size={case['size']} padding={case.get('padding')} pad_if_needed={bool(case.get('pin'))} seed={case['seed']}"
    if real["out"] != "ok":
        if fits:
            return Failure(f"{cls}:rejects-fitting-image", f"raises {real['out']} ({real.get('msg', '')}) although the padded image {H}x{W} holds the crop: {tag}",
                           case, "a crop", real["out"])
        return None
    if not fits:
        return Failure(f"{cls}:too-small-accepted", f"returns an output although the padded image {H}x{W} is smaller than the crop: {tag}", case,
                       "an exception", "output")
    outs = real["_y"] if cls == "KDTwoRandomCrop" else [real["_y"]]
    boxes = [real["b0"], real["b1"]] if cls == "KDTwoRandomCrop" else [real["box"]]
    if cls == "KDTwoRandomCrop" and (not isinstance(outs, (list, tuple)) or len(outs) != 2):
        return Failure(f"{cls}:output-size", f"does not return two crops: {tag}", case, 2, str(type(outs)))
    for k, (y, b) in enumerate(zip(outs, boxes)):
        if list(img_size(y)) != [th, tw]:
            return Failure(f"{cls}:output-size", f"crop {k} has size {list(img_size(y))} instead of {[th, tw]}: {tag}", case, [th, tw], list(img_size(y)))
        if any(v is None for v in b):
            return Failure(f"{cls}:ctx-missing", f"ctx does not record the crop parameters: {tag}", case, "i,j,h,w", b)
        if not box_ok(b, H, W):
            return Failure(f"{cls}:ctx-out-of-bounds", f"recorded box {b} of crop {k} leaves the {H}x{W} (padded) image: {tag}", case, f"inside {H}x{W}", b)
        if not same_img(crop(real["_hand"], *b), y):
            return Failure(f"{cls}:ctx-does-not-reproduce", f"crop(pad(input), *ctx box {b}) differs from output {k}: {tag}", case,
                           "equal", "differs")
    if cls == "KDTwoRandomCrop":
        b0, b1 = boxes
        ih = max(0, min(b0[0] + b0[2], b1[0] + b1[2]) - max(b0[0], b1[0]))
        iw = max(0, min(b0[1] + b0[3], b1[1] + b1[3]) - max(b0[1], b1[1]))
        iou = ih * iw / (b0[2] * b0[3] + b1[2] * b1[3] - ih * iw)
        if real["overlap"] is None or abs(real["overlap"] - iou) > 1e-9:
            return Failure(f"{cls}:overlap-recorded", f"recorded overlap {real['overlap']} is not the IoU {iou} of the recorded boxes: {tag}", case, iou, real["overlap"])
        lo, hi = case.get("omin") or 0.0, case.get("omax") or 1.0
        if real["oot"] is False and not (lo - 1e-12 <= iou <= hi + 1e-12):
            return Failure(f"{cls}:overlap-range", f"overlap {iou} outside [{lo},{hi}] without out_of_tries: {tag}", case, [lo, hi], iou)
    return None


def sig_crop(case, real):
    th, tw = crop_sizes(case)
    H, W = real.get("HW", [0, 0])
    rel = lambda a, b: "lt-1" if a < b - 1 else ("-1" if a == b - 1 else ("eq" if a == b else ("+1" if a == b + 1 else "gt")))
    return (case["cls"], case.get("kind"), rel(H, th), rel(W, tw), case.get("padding") is not None and len(np.atleast_1d(case["padding"])),
            bool(case.get("pin")), case.get("mode", "constant"), real.get("out"), real.get("oot"), len(real["log"]) > 2)


def gen_crop(rng, big=False):
    cls = rng.choice(["KDRandomCrop"] * 3 + ["KDTwoRandomCrop"] * 2 + ["KDSimpleRandomCrop"])
    th = rng.choice([1, 2, 3, 4, 5, 7, 8, 12, 16, 24, 32, 33]) if rng.random() < 0.6 else rng.randint(1, 33)
    tw = th if rng.random() < 0.5 else rng.randint(1, 33)
    def dim(t):
        r = rng.random()
        if r < 0.15:
            return max(1, t - 1)
        if r < 0.3:
            return t
        if r < 0.45:
            return min(40, t + 1)
        if r < 0.55:
            return max(1, t - rng.randint(2, 6))
        if r < 0.7:
            return 40
        return rng.randint(1, 40)
    h, w = dim(th), dim(tw)
    pr = rng.random()
    if pr < 0.4:
        padding = None
    elif pr < 0.6:
        padding = rng.randint(0, 4)
    elif pr < 0.8:
        padding = [rng.randint(0, 4), rng.randint(0, 4)]
    else:
        padding = [rng.randint(0, 4) for _ in range(4)]
    case = {"fam": "crop", "cls": cls, "h": h, "w": w, "size": [th, tw], "padding": padding, "pin": rng.random() < 0.35,
            "mode": rng.choice(["constant", "constant", "edge", "reflect"]), "fill": rng.choice([0, 0, 7]),
            "kind": rng.choice(["tensor", "pil"]), "seed": rng.randint(0, 10 ** 6)}
    if cls == "KDTwoRandomCrop":
        dy = [None, 0.125, 0.25, 0.5, 0.75, 1.0]
        a, b = rng.choice(dy), rng.choice(dy)
        if a is not None and b is not None and a > b and rng.random() < 0.8:
            a, b = b, a
        case["omin"], case["omax"] = a, b
        case["tries"] = rng.choice([0, 1, 2, 5, 20])
        if (a in (None, 0.0)) and (b in (None, 1.0)) and rng.random() < 0.3:
            case["tries"] = None
    if cls == "KDSimpleRandomCrop":
        s = rng.choice([5, 6, 8, 12, 16])
        case["rsize"] = s
        case["size"] = [s, s]
        case["padding"] = rng.choice([4, 4, 2, 0, None])
        case["mode"] = rng.choice(["reflect", "constant", "edge"])
        case["h"], case["w"] = rng.randint(6, 40), rng.randint(6, 40)
        case["interp"] = rng.choice(["bicubic", "bilinear", "nearest"])
    return case


# ----------------------------------------------------------------------------------------------
# family: KDRandomResizedCrop
# ----------------------------------------------------------------------------------------------
def rrc_front(case, log):
    """float front end: the (w, h) proposal of every attempt and the three float values of the fallback branch"""
    H, W = case["H"], case["W"]
    area = H * W
    us = [fval(e[1]) for e in log if e[0] == "u"]
    props = []
    for k in range(0, len(us) - 1, 2):
        target_area = area * us[k]
        aspect_ratio = np.exp(us[k + 1])
        w = int(round(np.sqrt(target_area * aspect_ratio)))
        h = int(round(np.sqrt(target_area / aspect_ratio)))
        props.append([w, h])
    r0, r1 = case["ratio"]
    return props, fr(float(W) / float(H)), fr(W / min(r0, r1)), fr(H * max(r0, r1))


def run_rrc(case):
    import kappadata.transforms as T
    log = []
    real = {"log": log}
    try:
        t = T.KDRandomResizedCrop(size=tuple(case["size"]), scale=tuple(case["scale"]), ratio=tuple(case["ratio"]),
                                  interpolation=case.get("interp", "bilinear"))
        t.set_rng(RecRng(case["seed"], log))
    except Exception as e:
        real["out"] = "ctor:" + type(e).__name__
        return real
    img = coord_pil(case["H"], case["W"]) if case.get("kind") == "pil" else coord_tensor(case["H"], case["W"])
    real["_img"] = img
    ctx = {}
    try:
        real["_y"] = t(img, ctx=ctx)
        real["out"] = "ok"
        _same_object_again(t, img, case["seed"])
    except Exception as e:
        real["out"] = exc_kind(e)
        real["msg"] = str(e)[:200]
    c = ctx.get("random_resized_crop")
    if c is not None:
        real["box"] = [c.get(k) for k in "ijhw"]
        real["og"] = [c.get("og_h"), c.get("og_w")]
    return real


def req_rrc(case, real):
    if str(real.get("out", "")).startswith("ctor:"):
        return None
    props, inr, qh, qw = rrc_front(case, real["log"])
    return {"op": "geo.rrc", "W": case["W"], "H": case["H"], "r0": fr(case["ratio"][0]), "r1": fr(case["ratio"][1]),
            "props": props, "inRatio": inr, "qh": qh, "qw": qw, "tape": tape_json(real["log"])}


def views_rrc(case, real, model):
    mv = {"out": model["err"]} if "err" in model else {"box": model["box"], "fallback": model["fallback"], "rest": model["rest"],
                                                       "restProps": model["restProps"]}
    iv = {"box": real.get("box"), "fallback": not any(e[0] == "i" for e in real["log"]), "rest": 0, "restProps": 0}
    return mv, iv


def oracle_rrc(case, real):
    from torchvision.transforms import InterpolationMode
    from torchvision.transforms.functional import resized_crop
    if str(real.get("out", "")).startswith("ctor:"):
        return None
    H, W = case["H"], case["W"]
    tag = f"KDRandomResizedCrop image {H}x{W} ({case.get('kind', 'tensor')}) size={case['size']} scale={case['scale']} ratio={case['ratio']} seed={case['seed']}"
    if real.get("box") is None or any(v is None for v in real["box"]):
        return Failure("KDRandomResizedCrop:ctx-missing", f"ctx does not record the crop parameters: {tag}", case, "og_h, og_w, i, j, h, w", real.get("box"))
    i, j, h, w = real["box"]
    if real["og"] != [H, W]:
        return Failure("KDRandomResizedCrop:ctx-og-size", f"recorded original size {real['og']} is not {[H, W]}: {tag}", case, [H, W], real["og"])
    if h <= 0 or w <= 0:
        real["_obs"] = f"zero-extent fallback box {real['box']} (extreme ratio range; out of the claim): {tag}"
        return None
    if not box_ok(real["box"], H, W):
        return Failure("KDRandomResizedCrop:ctx-out-of-bounds", f"recorded box {real['box']} leaves the {H}x{W} image: {tag}", case, f"inside {H}x{W}", real["box"])
    if real["out"] != "ok":
        return Failure("KDRandomResizedCrop:exception", f"raises {real['out']} ({real.get('msg', '')}) for an in-bounds box {real['box']}: {tag}", case, "output", real["out"])
    y = real["_y"]
    if list(img_size(y)) != list(case["size"]):
        return Failure("KDRandomResizedCrop:output-size", f"output size {list(img_size(y))} instead of {case['size']}: {tag}", case, case["size"], list(img_size(y)))
    hand = resized_crop(real["_img"], i, j, h, w, list(case["size"]), InterpolationMode(case.get("interp", "bilinear")))
    if not same_img(hand, y):
        return Failure("KDRandomResizedCrop:ctx-does-not-reproduce", f"resized_crop(input, *ctx box {real['box']}) differs from the output: {tag}", case, "equal", "differs")
    return None


def sig_rrc(case, real):
    fb = not any(e[0] == "i" for e in real["log"])
    n_att = sum(1 for e in real["log"] if e[0] == "u") // 2
    b = real.get("box") or [0, 0, 0, 0]
    return ("rrc", case.get("kind"), fb, n_att, real.get("out"), b[2] == case["H"], b[3] == case["W"], (b[2] or 0) <= 0 or (b[3] or 0) <= 0,
            case["H"] == case["W"], min(case["H"], case["W"]) <= 2)


def gen_rrc(rng, big=False):
    H, W = rng.randint(1, 40), rng.randint(1, 40)
    if rng.random() < 0.2:
        H, W = rng.choice([(1, 1), (1, 40), (40, 1), (2, 3), (40, 40), (3, 4), (4, 3), (30, 40)])
    s = rng.choice([1, 2, 4, 8, 16, 33])
    size = [s, s] if rng.random() < 0.7 else [rng.randint(1, 33), rng.randint(1, 33)]
    r = rng.random()
    if r < 0.5:
        scale = [0.08, 1.0]
    elif r < 0.7:
        scale = [rng.choice([0.2, 0.5, 0.9]), 1.0]
    elif r < 0.85:
        scale = [rng.choice([1.5, 2.0, 4.0]), rng.choice([4.0, 9.0])]      # never accepted: fallback
    else:
        scale = [0.0, rng.choice([0.01, 0.05])]                             # tiny: rounds to 0 -> rejected attempts
    r = rng.random()
    if r < 0.5:
        ratio = [3.0 / 4.0, 4.0 / 3.0]
    elif r < 0.65:
        ratio = [1.0, 1.0]
    elif r < 0.8:
        ratio = [rng.choice([0.1, 0.25, 0.5]), rng.choice([0.5, 0.75])]
    elif r < 0.95:
        ratio = [rng.choice([1.5, 2.0]), rng.choice([2.0, 3.0, 8.0])]
    else:
        ratio = [rng.choice([3.0, 10.0]), rng.choice([20.0, 50.0])]         # extreme: zero-extent corner
    return {"fam": "rrc", "H": H, "W": W, "size": size, "scale": scale, "ratio": ratio,
            "interp": rng.choice(["bilinear", "bicubic", "nearest"]), "kind": rng.choice(["tensor", "pil"]), "seed": rng.randint(0, 10 ** 6)}


# ----------------------------------------------------------------------------------------------
# family: KDRandomErasing
# ----------------------------------------------------------------------------------------------
def erase_maxc(case):
    return case.get("maxc") or case["minc"]


def erase_front(case, log):
    """(h, w) proposal per attempt (same float formula as the code)"""
    H, W = case["H"], case["W"]
    minc, maxc = case["minc"], erase_maxc(case)
    n = minc
    if minc != maxc:
        ints = [e for e in log if e[0] == "i"]
        n = ints[0][3] if ints else 0
    if n == 0:
        return []
    area_per_rect = H * W / n
    us = [fval(e[1]) for e in log if e[0] == "u"]
    props = []
    for k in range(0, len(us) - 1, 2):
        target_area = us[k] * area_per_rect
        aspect_ratio = math.exp(us[k + 1])
        h = int(round(math.sqrt(target_area * aspect_ratio)))
        w = int(round(math.sqrt(target_area / aspect_ratio)))
        props.append([h, w])
    return props


def boxes_mask(boxes, H, W):
    m = torch.zeros(H, W, dtype=torch.bool)
    for i, j, h, w in boxes:
        m[max(i, 0):max(i + h, 0), max(j, 0):max(j + w, 0)] = True
    return m


def mask_key(m):
    return [int(m.sum())] + [int(v) for v in m.flatten().nonzero().flatten()[:400]]


def run_erase(case):
    import kappadata.transforms as T
    log = []
    real = {"log": log}
    try:
        t = T.KDRandomErasing(p=case["p"], min_area=case["min_area"], max_area=case["max_area"], min_aspect=case["min_aspect"],
                              max_aspect=case.get("max_aspect"), mode=case["mode"], min_count=case["minc"], max_count=case.get("maxc"))
        t.set_rng(RecRng(case["seed"], log))
    except Exception as e:
        real["out"] = "ctor:" + type(e).__name__
        return real
    x = coord_tensor(case["H"], case["W"], torch.float32) + 1.0
    try:
        y = t(x.clone(), ctx={})
        real["out"] = "ok"
        real["shape"] = list(y.shape)
        real["_D"] = (y != x).any(dim=0) if list(y.shape) == list(x.shape) else None
    except Exception as e:
        real["out"] = exc_kind(e)
        real["msg"] = str(e)[:200]
    return real


def req_erase(case, real):
    if str(real.get("out", "")).startswith("ctor:"):
        return None
    return {"op": "geo.erase", "p": fr(case["p"]), "minc": case["minc"], "maxc": erase_maxc(case), "stoch": case["mode"] != "zeros",
            "H": case["H"], "W": case["W"], "props": erase_front(case, real["log"]), "tape": tape_json(real["log"])}


def views_erase(case, real, model):
    if "err" in model:
        mv = {"out": model["err"]}
    else:
        mv = {"out": "ok", "applied": model["applied"], "erased": mask_key(boxes_mask(model["boxes"], case["H"], case["W"])),
              "rest": model["rest"], "restProps": model["restProps"]}
    if real["out"] != "ok":
        iv = {"out": real["out"]}
    else:
        iv = {"out": "ok", "applied": len(real["log"]) > 1, "erased": mask_key(real["_D"]) if real["_D"] is not None else None,
              "rest": 0, "restProps": 0}
    return mv, iv


def erase_in_domain(case):
    return (case["minc"] >= 1 and erase_maxc(case) >= case["minc"] and 0 < case["min_area"] <= case["max_area"] <= 1
            and case["min_aspect"] > 0 and 0 <= case["p"] <= 1)


def oracle_erase(case, real):
    if not erase_in_domain(case) or str(real.get("out", "")).startswith("ctor:"):
        return None
    H, W = case["H"], case["W"]
    tag = f"KDRandomErasing image {H}x{W} mode={case['mode']} area=[{case['min_area']},{case['max_area']}] aspect>={case['min_aspect']} count=[{case['minc']},{erase_maxc(case)}] seed={case['seed']}"
    if real["out"] != "ok":
        return Failure("KDRandomErasing:exception", f"raises {real['out']} ({real.get('msg', '')}): {tag}", case, "output", real["out"])
    if real["shape"] != [3, H, W]:
        return Failure("KDRandomErasing:output-size", f"output shape {real['shape']}: {tag}", case, [3, H, W], real["shape"])
    # boxes straight from the tape: (uniform, uniform, integers, integers) = an accepted attempt at (top, left)
    props = erase_front(case, real["log"])
    boxes, k, ui = [], 0, 0
    log = real["log"]
    while k < len(log):
        if log[k][0] == "u" and k + 1 < len(log) and log[k + 1][0] == "u":
            h, w = props[ui]
            ui += 1
            if k + 3 < len(log) and log[k + 2][0] == "i" and log[k + 3][0] == "i":
                boxes.append([log[k + 2][3], log[k + 3][3], h, w])
                k += 4
            else:
                k += 2
        else:
            k += 1
    for b in boxes:
        if not box_ok(b, H, W):
            return Failure("KDRandomErasing:box-out-of-bounds", f"erase box {b} (top, left drawn; h, w from the drawn area/aspect) leaves the image: {tag}", case,
                           f"inside {H}x{W}", b)
    if not bool((boxes_mask(boxes, H, W) == real["_D"]).all()):
        return Failure("KDRandomErasing:erased-region", f"changed pixels are not the union of the drawn boxes {boxes}: {tag}", case,
                       mask_key(boxes_mask(boxes, H, W))[:20], mask_key(real["_D"])[:20])
    return None


def sig_erase(case, real):
    n_att = sum(1 for e in real["log"] if e[0] == "u") // 2
    n_box = sum(1 for e in real["log"] if e[0] == "i") // 2
    return ("erase", case["mode"], real.get("out"), len(real["log"]) > 1, min(n_att, 12), min(n_box, 4), case["minc"] != erase_maxc(case),
            min(case["H"], case["W"]) <= 2)


def gen_erase(rng, big=False):
    H, W = rng.randint(1, 40), rng.randint(1, 40)
    minc = rng.choice([1, 1, 1, 2, 3])
    maxc = rng.choice([None, None, minc, minc + 1, minc + 3])
    r = rng.random()
    if r < 0.5:
        a0, a1 = 0.02, 1 / 3
    elif r < 0.8:
        a0, a1 = rng.choice([0.3, 0.6, 0.9]), 1.0     # large: attempts get rejected
    else:
        a0, a1 = 0.001, 0.01                            # tiny: zero-size boxes
    return {"fam": "erase", "H": H, "W": W, "p": rng.choice([1.0, 1.0, 0.5, 0.0]), "min_area": a0, "max_area": a1,
            "min_aspect": rng.choice([0.3, 0.3, 0.05, 1.0]), "max_aspect": rng.choice([None, None, 2.0]),
            "mode": rng.choice(["zeros", "zeros", "channelwise", "pixelwise"]), "minc": minc, "maxc": maxc, "seed": rng.randint(0, 10 ** 6)}


# ----------------------------------------------------------------------------------------------
# family: KDSpecAugment
# ----------------------------------------------------------------------------------------------
def spec_fe(u1, u2, P, size):
    """float32 front end of `_mask_along_axis`: (value.long(), min_value.long())"""
    def as_t(u):
        t = torch.tensor(u)
        if t == 1.:
            t -= 1e-6
        return t
    value = as_t(u1) * P
    min_value = as_t(u2) * (size - value)
    return [int(value.long()), int(min_value.long())]


def run_spec(case):
    import kappadata.transforms as T
    log = []
    real = {"log": log}
    try:
        t = T.KDSpecAugment(time_masking=case["tm"], frequency_masking=case["fm"])
        t.set_rng(RecRng(case["seed"], log))
    except Exception as e:
        real["out"] = "ctor:" + type(e).__name__
        return real
    nT, nF = case["nT"], case["nF"]
    x = (torch.arange(nT * nF, dtype=torch.float32) + 1).view(1, nT, nF)
    try:
        y = t(x.clone(), ctx={})
        real["out"] = "ok"
        real["shape"] = list(y.shape)
        if list(y.shape) == [1, nT, nF]:
            real["_Z"] = (y == 0)[0]
            real["_keep"] = bool(((y == x) | (y == 0)).all())
    except Exception as e:
        real["out"] = exc_kind(e)
        real["msg"] = str(e)[:200]
    return real


def req_spec(case, real):
    if str(real.get("out", "")).startswith("ctor:"):
        return None
    rs = [fval(e[1]) for e in real["log"] if e[0] == "r"]
    fes, k = [], 0
    for P, size in ((case["tm"], case["nT"]), (case["fm"], case["nF"])):
        if P is not None and P >= 1 and k + 1 < len(rs):
            fes.append(spec_fe(rs[k], rs[k + 1], P, size))
            k += 2
        else:
            fes.append([0, 0])
    return {"op": "geo.spec", "nT": case["nT"], "nF": case["nF"], "tm": case["tm"], "fm": case["fm"], "feT": fes[0], "feF": fes[1],
            "tape": tape_json(real["log"])}


def views_spec(case, real, model):
    nT, nF = case["nT"], case["nF"]
    if "err" in model:
        mv = {"out": model["err"]}
    else:
        m = torch.zeros(nT, nF, dtype=torch.bool)
        if model["t"] is not None:
            m[model["t"]["idx"], :] = True
        if model["f"] is not None:
            m[:, model["f"]["idx"]] = True
        mv = {"out": "ok", "zero": mask_key(m), "rest": model["rest"]}
    if real["out"] != "ok":
        iv = {"out": real["out"]}
    else:
        iv = {"out": "ok", "zero": mask_key(real["_Z"]) if "_Z" in real else None, "rest": 0}
    return mv, iv


def contiguous(idx):
    return all(b == a + 1 for a, b in zip(idx, idx[1:]))


def oracle_spec(case, real):
    if str(real.get("out", "")).startswith("ctor:"):
        return None
    nT, nF, tm, fm = case["nT"], case["nF"], case["tm"], case["fm"]
    tag = f"KDSpecAugment spectrogram 1x{nT}x{nF} time_masking={tm} frequency_masking={fm} seed={case['seed']}"
    if real["out"] != "ok":
        return Failure("KDSpecAugment:exception", f"raises {real['out']} ({real.get('msg', '')}): {tag}", case, "output", real["out"])
    if real["shape"] != [1, nT, nF]:
        return Failure("KDSpecAugment:output-size", f"output shape {real['shape']}: {tag}", case, [1, nT, nF], real["shape"])
    if not real["_keep"]:
        return Failure("KDSpecAugment:values", f"an unmasked value changed: {tag}", case, "x or 0", "other")
    Z = real["_Z"]
    rows = [r for r in range(nT) if bool(Z[r].all())]
    cols = [c for c in range(nF) if bool(Z[:, c].all())]
    m = torch.zeros(nT, nF, dtype=torch.bool)
    m[rows, :] = True
    m[:, cols] = True
    if not bool((m == Z).all()):
        return Failure("KDSpecAugment:mask-shape", f"masked entries are not whole time rows + whole frequency columns: {tag}", case, "rows+cols", mask_key(Z)[:20])
    if len(rows) == nT or len(cols) == nF:     # everything masked: possible only when one mask may span its whole axis
        if (tm is not None and nT < tm) or (fm is not None and nF < fm):
            return None
        return Failure("KDSpecAugment:mask-length", f"whole spectrogram masked although both mask params fit the axes: {tag}", case, "< mask_param", [len(rows), len(cols)])
    for name, idx, P in (("time", rows, tm), ("frequency", cols, fm)):
        if idx and (P is None or not len(idx) < P):
            return Failure("KDSpecAugment:mask-length", f"{name} mask of length {len(idx)} with mask_param {P}: {tag}", case, f"< {P}", len(idx))
        if not contiguous(idx):
            return Failure("KDSpecAugment:mask-shape", f"{name} mask {idx} is not one interval: {tag}", case, "interval", idx)
    return None


def sig_spec(case, real):
    Z = real.get("_Z")
    nz = int(Z.sum()) if Z is not None else -1
    return ("spec", case["tm"] is None, case["fm"] is None, real.get("out"), min(nz, 30), (case["tm"] or 0) > case["nT"], (case["fm"] or 0) > case["nF"])


def gen_spec(rng, big=False):
    nT, nF = rng.randint(1, 40), rng.randint(1, 40)
    tm = rng.choice([None, 0, 1, 2, 5, 10, 33, nT, nT + 1, 2 * nT + 3])
    fm = rng.choice([None, 0, 1, 3, 8, 20, nF, nF + 1])
    if tm is None and fm is None:
        tm = 4
    return {"fam": "spec", "nT": nT, "nF": nF, "tm": tm, "fm": fm, "seed": rng.randint(0, 10 ** 6)}


# ----------------------------------------------------------------------------------------------
# family: semantic segmentation pairs
# ----------------------------------------------------------------------------------------------
def aligned(x, s, W_in):
    """every output position: mask = fill(-1) and image = fill(0), or mask decodes to the source pixel the image shows"""
    x = as_tensor(x).long()
    if list(x.shape[-2:]) != list(s.shape[-2:]):
        return False
    s = s.long()
    padm = s < 0
    sc = s.clamp(min=0)
    r, c = sc // W_in, sc % W_in
    ok_real = (~padm) & (x[0] == r + 1) & (x[1] == c + 1) & (x[2] == 200)
    ok_pad = padm & (x == 0).all(dim=0)
    return bool((ok_real | ok_pad).all())


def label_mask(h, w, k):
    """coarse label blocks (for the category-ratio retry)"""
    r = torch.arange(h).view(h, 1).expand(h, w) // k
    c = torch.arange(w).view(1, w).expand(h, w) // k
    return ((r + 2 * c) % 3).long().clone()


def category_ok(seg_crop, mcr, ignore_index=-1):
    labels, counts = seg_crop.unique(return_counts=True)
    counts = counts[labels != ignore_index]
    return bool(len(counts) > 1 and counts.max() / counts.sum() < mcr)


class _NpProxy:
    """stands in for the `np` name of the wrapper module: default_rng(...) hands out a recording generator"""

    def __init__(self, log):
        self._log = log
        self.random = self

    def default_rng(self, seed=None, *a, **kw):
        return RecRng(seed, self._log)

    def __getattr__(self, name):
        return getattr(np, name)


def run_semseg(case):
    if case["sub"] == "wpipe":
        return run_wpipe(case)
    from torchvision.transforms.functional import crop
    import kappadata.transforms.semseg as S
    from kappadata.transforms.semseg.kd_semseg_overlapped_multi_crop import KDSemsegOverlappedMultiCrop
    from kappadata.transforms.semseg.kd_semseg_random_resize_old import KDSemsegRandomResizeOld
    sub, H, W = case["sub"], case["H"], case["W"]
    log = []
    real = {"log": log}
    x = coord_pil(H, W) if case.get("kind") == "pil" else coord_tensor(H, W)
    seg = label_mask(H, W, case["lk"]) if case.get("lk") else coord_mask(H, W)
    real["_x"], real["_seg"] = x, seg
    try:
        if sub == "crop":
            t = S.KDSemsegRandomCrop(size=tuple(case["size"]), max_category_ratio=case.get("mcr", 1.0))
        elif sub == "pad":
            t = S.KDSemsegPad(size=tuple(case["size"]))
        elif sub == "flip":
            t = S.KDSemsegRandomHorizontalFlip(p=case["p"])
        elif sub == "resize":
            t = S.KDSemsegRandomResize(base_size=tuple(case["base"]), ratio=tuple(case["ratio"]), interpolation=case.get("interp", "bilinear"))
        elif sub == "resizeold":
            t = KDSemsegRandomResizeOld(base_size=tuple(case["base"]), ratio=tuple(case["ratio"]), interpolation=case.get("interp", "bilinear"))
        elif sub == "resizefix":
            t = S.KDSemsegResize(size=tuple(case["size"]), interpolation=case.get("interp", "bilinear"))
        elif sub == "multi":
            t = KDSemsegOverlappedMultiCrop(crop_size=tuple(case["size"]))
        elif sub == "pipe":
            t = None
        else:
            raise KeyError(sub)
        if t is not None:
            t.set_rng(RecRng(case["seed"], log))
    except Exception as e:
        real["out"] = "ctor:" + exc_kind(e)
        return real
    try:
        if sub == "pipe":
            from tests_util.datasets.semseg_dataset import SemsegDataset
            import kappadata.wrappers.sample_wrappers.semseg_transform_wrapper as M
            ds = SemsegDataset([x, x], torch.stack([seg, seg]))
            ts = [S.KDSemsegPad(size=tuple(case["size"])), S.KDSemsegRandomCrop(size=tuple(case["size"])),
                  S.KDSemsegRandomHorizontalFlip(p=case["p"])]
            wr = M.SemsegTransformWrapper(ds, transforms=ts, seed=case["seed"])
            old = M.np
            M.np = _NpProxy(log)
            try:
                xo, so = wr.getitem_xsemseg(1, ctx={})
                n1 = len(log)
                x_only = wr.getitem_x(1, ctx={})
                s_only = wr.getitem_semseg(1, ctx={})
            finally:
                M.np = old
            del log[n1:]
            real["_sep_ok"] = same_img(x_only, xo) and bool((s_only == so).all())
        else:
            xo, so = t((x, seg), ctx={})
        real["out"] = "ok"
        real["_xo"], real["_so"] = xo, so
    except Exception as e:
        real["out"] = exc_kind(e)
        real["msg"] = f"{type(e).__name__}: {e}"[:200]
        return real
    # what the output shows (decoded from the coordinate encoding)
    xt = as_tensor(xo).long()
    if sub in ("crop", "pipe", "flip", "pad"):
        real["xsize"] = list(xt.shape[-2:])
        real["ssize"] = list(so.shape[-2:])
    if sub == "crop" and xt.numel() > 0:
        real["box"] = [int(xt[0, 0, 0]) - 1, int(xt[1, 0, 0]) - 1, xt.shape[-2], xt.shape[-1]]
    if sub == "pad":
        pos = ((xt[0] == 1) & (xt[1] == 1) & (xt[2] == 200)).nonzero()
        if len(pos) == 1:
            top, left = int(pos[0, 0]), int(pos[0, 1])
            real["pad"] = [left, top, xt.shape[-1] - W - left, xt.shape[-2] - H - top]
    if sub == "flip":
        real["flipped"] = None if W == 1 else bool(xt[1, 0, 0] == W)
    if sub in ("resize", "resizeold", "resizefix"):
        real["xsize"], real["ssize"] = list(xt.shape[-2:]), list(so.shape[-2:])
        real["_subset"] = bool(torch.isin(so.unique(), seg.unique()).all())
    if sub == "multi":
        real["xshape"], real["sshape"] = list(xt.shape), list(so.shape)
        if xt.dim() == 4 and xt.shape[0] > 0 and xt.shape[-1] > 0 and xt.shape[-2] > 0:
            real["boxes"] = [[int(xt[k, 0, 0, 0]) - 1, int(xt[k, 1, 0, 0]) - 1, xt.shape[-2], xt.shape[-1]] for k in range(xt.shape[0])]
    return real


def semseg_oks(case, real):
    """front end of the category-ratio retry: the test of the code on the mask crop of every drawn box"""
    from torchvision.transforms.functional import crop
    H, W = case["H"], case["W"]
    th, tw = case["size"]
    ints = [e[3] for e in real["log"] if e[0] == "i"]
    boxes = [[ints[k], ints[k + 1], min(H, th), min(W, tw)] for k in range(0, len(ints) - 1, 2)]
    oks = []
    for k, b in enumerate(boxes[:10]):
        ok = category_ok(crop(real["_seg"], *b), case["mcr"])
        oks.append(ok)
        if ok:
            break
    return oks


def req_semseg(case, real):
    sub, H, W = case["sub"], case["H"], case["W"]
    if sub == "wpipe" or str(real.get("out", "")).startswith("ctor:"):
        return None
    tape = tape_json(real["log"])
    if sub == "crop":
        th, tw = case["size"]
        retry = case.get("mcr", 1.0) < 1.0
        return {"op": "geo.scrop", "H": H, "W": W, "th": th, "tw": tw, "retry": retry,
                "oks": semseg_oks(case, real) if retry else [], "tape": tape}
    if sub == "pad":
        return {"op": "geo.spad", "H": H, "W": W, "th": case["size"][0], "tw": case["size"][1]}
    if sub == "flip":
        return {"op": "geo.flip", "p": fr(case["p"]), "tape": tape}
    if sub in ("resize", "resizeold"):
        us = [e for e in real["log"] if e[0] == "u"]
        if not us:
            return None
        r = {"op": "geo.sresize" if sub == "resize" else "geo.sresizeold", "h": H, "w": W, "bh": case["base"][0], "bw": case["base"][1],
             "ratio": us[0][1]}
        return r
    if sub == "multi":
        return {"op": "geo.multi", "H": H, "W": W, "ch": case["size"][0], "cw": case["size"][1]}
    if sub == "pipe":
        th, tw = case["size"]
        H2, W2 = max(H, th), max(W, tw)
        return [{"op": "geo.spad", "H": H, "W": W, "th": th, "tw": tw},
                {"op": "geo.scrop", "H": H2, "W": W2, "th": th, "tw": tw, "retry": False, "oks": [], "tape": tape[:2]},
                {"op": "geo.flip", "p": fr(case["p"]), "tape": tape[2:]}]
    return None


def near_tie(case, real):
    """KDSemsegRandomResize: is an exact product within 1e-9 of a rounding tie (float and exact arithmetic may then differ)"""
    us = [e for e in real["log"] if e[0] == "u"]
    ratio = Fraction(*us[0][1])
    H, W = case["H"], case["W"]
    bh, bw = case["base"]
    if case["sub"] == "resizeold":
        vals = [bh * ratio, bw * ratio]
    else:
        sh, sw = bh * ratio, bw * ratio
        scale = min(max(sh, sw) / max(H, W), min(sh, sw) / min(H, W))
        vals = [H * scale, W * scale]
    return any(abs((v % 1) - Fraction(1, 2)) < Fraction(1, 10 ** 9) for v in vals)


def views_semseg(case, real, model):
    from torchvision.transforms.functional import crop, hflip, pad
    sub = case["sub"]
    ok = real["out"] == "ok"
    if sub == "pipe":
        mp, mc, mf = model
        if any("err" in m for m in model):
            return {"out": [m.get("err") for m in model]}, {"out": real["out"]}
        if not ok:
            return {"out": "ok"}, {"out": real["out"]}
        x, s = real["_x"], real["_seg"]
        p = mp["pad"]
        x, s = pad(x, p, fill=0), pad(s, p, fill=-1)
        x, s = crop(x, *mc["box"]), crop(s, *mc["box"])
        if mf["applied"]:
            x, s = hflip(x), hflip(s)
        mv = {"out": "ok", "reproduces": True, "rest": [mc["rest"], mf["rest"]], "params": [p, mc["box"], mf["applied"]]}
        iv = {"out": "ok", "reproduces": same_img(x, real["_xo"]) and bool((s == real["_so"]).all()), "rest": [0, 0], "params": mv["params"]}
        return mv, iv
    if "err" in model:
        mv = {"out": model["err"]}
    elif sub == "crop":
        mv = {"out": "ok", "box": model["box"], "rest": model["rest"], "restOks": model["restOks"]}
    elif sub == "pad":
        mv = {"out": "ok", "pad": model["pad"]}
    elif sub == "flip":
        mv = {"out": "ok", "flipped": model["applied"], "rest": model["rest"]}
    elif sub in ("resize", "resizeold"):
        # a side that rounds to 0 is refused by torchvision.resize (degenerate target, out of the claim)
        mv = {"out": "ok", "size": model["size"]} if min(model["size"]) > 0 else {"out": "refused"}
    elif sub == "multi":
        mv = {"out": "ok", "boxes": model["boxes"]}
    if not ok and sub in ("resize", "resizeold") and str(real["out"]).startswith("other:"):
        iv = {"out": "refused"}
    elif not ok:
        iv = {"out": real["out"]}
    elif sub == "crop":
        iv = {"out": "ok", "box": real.get("box"), "rest": 0, "restOks": 0}
    elif sub == "pad":
        iv = {"out": "ok", "pad": real.get("pad")}
    elif sub == "flip":
        iv = {"out": "ok", "flipped": real["flipped"], "rest": 0}
        if real["flipped"] is None and "flipped" in mv:
            iv["flipped"] = mv["flipped"]        # 1-pixel-wide image: a flip is not observable
    elif sub in ("resize", "resizeold"):
        iv = {"out": "ok", "size": real["xsize"]}
        if mv.get("size") != iv["size"] and near_tie(case, real):
            iv["size"] = mv["size"]
    elif sub == "multi":
        iv = {"out": "ok", "boxes": real.get("boxes")}
    return mv, iv


def oracle_semseg(case, real):
    if case["sub"] == "wpipe":
        return oracle_wpipe(case, real)
    from torchvision.transforms.functional import crop, hflip
    sub, H, W = case["sub"], case["H"], case["W"]
    out = str(real.get("out", ""))
    if out.startswith("ctor:"):
        return None
    names = {"crop": "KDSemsegRandomCrop", "pad": "KDSemsegPad", "flip": "KDSemsegRandomHorizontalFlip", "resize": "KDSemsegRandomResize",
             "resizeold": "KDSemsegRandomResizeOld", "resizefix": "KDSemsegResize", "multi": "KDSemsegOverlappedMultiCrop",
             "pipe": "SemsegTransformWrapper[pad,crop,flip]"}
    cls = names[sub]
    tag = f"{cls} pair {H}x{W} ({case.get('kind', 'tensor')}) " + " ".join(f"{k}={case[k]}" for k in ("size", "mcr", "p", "base", "ratio") if k in case) + f" seed={case['seed']}"
    if sub == "multi":
        ch, cw = case["size"]
        valid = H % ch == 0 and W % cw == 0
        if not valid:
            return None       # the code asserts divisibility: rejection is the specified outcome; anything else is compared with the model only
    if real["out"] != "ok":
        if sub in ("resize", "resizeold", "resizefix"):
            return None       # degenerate target sizes (a side rounds to 0) are refused by torchvision: out of the claim
        return Failure(f"{cls}:exception", f"raises {real.get('msg', out)}: {tag}", case, "output pair", real.get("msg", out))
    xo, so = real["_xo"], real["_so"]
    if sub in ("resize", "resizeold", "resizefix"):
        if real["xsize"] != real["ssize"]:
            return Failure(f"{cls}:pair-size", f"image resized to {real['xsize']} but mask to {real['ssize']}: {tag}", case, real["xsize"], real["ssize"])
        if sub == "resizefix" and real["xsize"] != list(case["size"]):
            return Failure(f"{cls}:output-size", f"output size {real['xsize']}: {tag}", case, case["size"], real["xsize"])
        if not real["_subset"]:
            return Failure(f"{cls}:mask-values", f"resized mask contains labels that are not in the input mask: {tag}", case, "subset", "new labels")
        return None
    if sub == "multi":
        ch, cw = case["size"]
        xt = as_tensor(xo).long()
        if real["xshape"][0] != real["sshape"][0] or real["xshape"][-2:] != [ch, cw] or real["sshape"][-2:] != [ch, cw]:
            return Failure(f"{cls}:output-size", f"crops of shape {real['xshape']} / {real['sshape']}: {tag}", case, [ch, cw], [real["xshape"], real["sshape"]])
        seen = torch.zeros(H * W, dtype=torch.bool)
        for k in range(xt.shape[0]):
            if not aligned(xt[k], so[k], W) or bool((so[k] < 0).any()):
                return Failure(f"{cls}:pair-geometry", f"crop {k}: image and mask show different / out-of-image positions: {tag}", case, "aligned, inside", "differs")
            b = real["boxes"][k]
            if not box_ok(b, H, W) or not same_img(crop(real["_x"], *b), xt[k].to(torch.uint8)):
                return Failure(f"{cls}:out-of-bounds", f"crop {k} is not the window {b} of the image: {tag}", case, "window inside image", b)
            seen[so[k].flatten()] = True
        if not bool(seen.all()):
            return Failure(f"{cls}:coverage", f"some pixels are in no crop: {tag}", case, "all pixels covered", int((~seen).sum()))
        return None
    # crop / pad / flip / pipe: coordinate decoding
    if real["xsize"] != real["ssize"]:
        return Failure(f"{cls}:pair-size", f"image is {real['xsize']} but mask is {real['ssize']}: {tag}", case, real["xsize"], real["ssize"])
    if case.get("lk"):
        # label mask (category retry): alignment through the box the image shows
        b = real.get("box")
        if b is None or not box_ok(b, H, W):
            return Failure(f"{cls}:out-of-bounds", f"image crop shows window {b}, not inside the image: {tag}", case, f"inside {H}x{W}", b)
        if not same_img(crop(real["_x"], *b), xo) or not bool((crop(real["_seg"], *b) == so).all()):
            return Failure(f"{cls}:pair-geometry", f"image shows window {b} but the mask is not that window of the input mask: {tag}", case, "same window", "differs")
    elif not aligned(xo, so, W):
        return Failure(f"{cls}:pair-geometry", f"image and mask show different positions (decoded from the coordinate encoding): {tag}", case, "aligned", "differs")
    th, tw = case["size"] if "size" in case else (H, W)
    want = {"crop": [min(H, th), min(W, tw)], "pad": [max(H, th), max(W, tw)], "flip": [H, W], "pipe": [th, tw]}[sub]
    if real["xsize"] != want:
        return Failure(f"{cls}:output-size", f"output size {real['xsize']} instead of {want}: {tag}", case, want, real["xsize"])
    if sub in ("crop", "pipe") and bool((so < 0).any()) and sub == "crop":
        return Failure(f"{cls}:out-of-bounds", f"crop reaches outside the image (fill values in the output): {tag}", case, "inside", "fill")
    if sub == "crop":
        b = real.get("box")
        if b is None or not box_ok(b, H, W) or not same_img(crop(real["_x"], *b), xo):
            return Failure(f"{cls}:out-of-bounds", f"output is not a window of the image (decoded {b}): {tag}", case, f"inside {H}x{W}", b)
    if sub == "pad" and int((so >= 0).sum()) != H * W:
        return Failure(f"{cls}:pad-loses-pixels", f"padded pair does not contain every input pixel once: {tag}", case, H * W, int((so >= 0).sum()))
    if sub == "flip" and not (same_img(xo, real["_x"]) or same_img(xo, hflip(real["_x"]))):
        return Failure(f"{cls}:flip", f"output is neither the input nor its mirror image: {tag}", case, "x or hflip(x)", "other")
    if sub == "pipe":
        if int((so >= 0).sum()) != min(H, th) * min(W, tw):
            return Failure(f"{cls}:pipeline-window", f"the {th}x{tw} output shows {int((so >= 0).sum())} image pixels instead of {min(H, th) * min(W, tw)}: {tag}", case,
                           min(H, th) * min(W, tw), int((so >= 0).sum()))
        if not real["_sep_ok"]:
            return Failure(f"{cls}:separate-access", f"getitem_x / getitem_semseg differ from the fused pair for the same seed: {tag}", case, "equal", "differs")
    return None


def sig_semseg(case, real):
    if case["sub"] == "wpipe":
        return sig_wpipe(case, real)
    H, W = case["H"], case["W"]
    th, tw = case.get("size", [0, 0])
    rel = lambda a, b: "lt" if a < b else ("eq" if a == b else ("+1" if a == b + 1 else "gt"))
    return ("semseg", case["sub"], case.get("kind"), rel(H, th), rel(W, tw), real.get("out"), len(real["log"]), real.get("flipped"),
            tuple(real.get("xsize", []))[:0])


def gen_semseg(rng, big=False):
    if rng.random() < 0.25:
        return gen_wpipe(rng, big)
    sub = rng.choice(["crop"] * 4 + ["pad"] * 2 + ["flip", "resize", "resizeold", "resizefix", "multi"] + ["pipe"] * 3)
    H, W = rng.randint(1, 40), rng.randint(1, 40)
    th = rng.choice([1, 2, 3, 4, 8, 16, 32, 33, H, max(1, H - 1), H + 1])
    tw = th if rng.random() < 0.5 else rng.choice([1, 2, 5, 8, 16, 33, W, max(1, W - 1), W + 1])
    case = {"fam": "semseg", "sub": sub, "H": H, "W": W, "kind": rng.choice(["tensor", "tensor", "pil"]), "seed": rng.randint(0, 10 ** 6)}
    if sub in ("crop", "pad", "pipe", "resizefix"):
        case["size"] = [th, tw]
    if sub == "crop" and rng.random() < 0.4:
        case["mcr"] = rng.choice([0.5, 0.75, 0.9])
        case["lk"] = rng.choice([2, 4, 8, 50])
    if sub in ("flip", "pipe"):
        case["p"] = rng.choice([0.5, 0.5, 0.0, 1.0])
    if sub in ("resize", "resizeold"):
        case["base"] = [rng.randint(2, 33), rng.randint(2, 33)]
        case["ratio"] = rng.choice([[0.5, 2.0], [1.0, 1.0], [0.75, 1.25], [2.0, 3.0]])
        case["interp"] = rng.choice(["bilinear", "nearest"])
        case["H"], case["W"] = rng.randint(2, 40), rng.randint(2, 40)
    if sub == "multi":
        ch, cw = rng.choice([2, 4, 6, 8]), rng.choice([2, 4, 6, 8])
        case["size"] = [ch, cw]
        if rng.random() < 0.85:
            case["H"], case["W"] = ch * rng.randint(1, 40 // ch), cw * rng.randint(1, 40 // cw)
        case["kind"] = "tensor"
    return case


# ---- SemsegTransformWrapper with free pipelines (sub = "wpipe"): oracle only, no model ------------------------------------------------
# Paired transforms (pad / crop / flip) in any order, with stochastic image-only transforms (noise, randomly applied noise, a plain callable)
# placed anywhere between them; several images of different sizes; seeded and unseeded wrappers; every public way of asking for the two
# members (fused ModeWrapper "x semseg", getitem_xsemseg, and -- seeded wrappers only -- one member after the other through getitem_x /
# getitem_semseg or two ModeWrappers, in both orders); repeated epochs; a pickled / deep-copied wrapper after the first access; a peer wrapper
# that shares the transform objects and is used in between.  Judged by decoding the coordinate encoding: every output position of the mask has
# to be the label of the input pixel the image shows there (noise amplitudes stay below half a unit, so rounding recovers the position).
WPIPE_XONLY = ("noise", "rnoise", "unoise", "apply", "id")


def wpipe_step(step):
    import kappadata.transforms as T
    import kappadata.transforms.semseg as S
    k = step["t"]
    if k == "pad":
        return S.KDSemsegPad(size=tuple(step["size"]))
    if k == "crop":
        return S.KDSemsegRandomCrop(size=tuple(step["size"]))
    if k == "flip":
        return S.KDSemsegRandomHorizontalFlip(p=step["p"])
    if k == "noise":
        return T.KDAdditiveGaussianNoise(std=1e-3)
    if k == "rnoise":
        return T.KDRandomAdditiveGaussianNoise(p=step["p"], std=1e-3)
    if k == "unoise":
        return T.KDAdditiveUniformNoise(magnitude=0.25)
    if k == "apply":
        return T.KDRandomApply(transform=T.KDAdditiveGaussianNoise(std=1e-3), p=step["p"])
    if k == "id":
        return _Identity()
    raise KeyError(k)


def wpipe_image(kind, h, w):
    if kind == "f64":
        return coord_tensor(h, w, torch.float64)
    if kind == "u8":
        return coord_tensor(h, w)
    return coord_tensor(h, w, torch.float32)


def wpipe_size(steps, h, w):
    for s in steps:
        if s["t"] == "pad":
            h, w = max(h, s["size"][0]), max(w, s["size"][1])
        elif s["t"] == "crop":
            h, w = min(h, s["size"][0]), min(w, s["size"][1])
    return [h, w]


def wpipe_plan(case):
    """the accesses of the run: (epoch, idx, how)"""
    plan = []
    for ep in range(case.get("epochs", 1)):
        for idx in case["order"]:
            for how in case["access"]:
                plan.append((ep, idx, how))
    return plan


def run_wpipe(case):
    state = np.random.get_state()
    np.random.seed(random.Random(json.dumps(case, sort_keys=True, default=str)).randrange(2 ** 31))
    try:
        return _run_wpipe(case)
    finally:
        np.random.set_state(state)


def _run_wpipe(case):
    import copy
    import pickle
    from tests_util.datasets.semseg_dataset import SemsegDataset
    from kappadata.wrappers import ModeWrapper, SemsegTransformWrapper, SubsetWrapper
    real = {"log": [], "records": []}
    images = [wpipe_image(case.get("kind", "f32"), h, w) for h, w in case["images"]]
    masks = [coord_mask(h, w) for h, w in case["images"]]
    real["_images"], real["_masks"] = images, masks
    src = list(range(len(images)))
    try:
        ds = SemsegDataset([im.clone() for im in images], [m.clone() for m in masks])
        if case.get("indices") is not None:
            src = list(case["indices"])
            ds = SubsetWrapper(ds, indices=list(src))
        ts = [wpipe_step(s) for s in case["steps"]]
        wr = SemsegTransformWrapper(ds, transforms=ts, seed=case.get("seed"))
        peer = None
        if case.get("peer"):
            # a second wrapper over the same dataset that shares the transform objects and uses another seed
            peer = SemsegTransformWrapper(ds, transforms=ts, seed=None if case.get("seed") is None else case["seed"] + 101)
    except Exception as e:
        real["out"] = "ctor:" + exc_kind(e)
        real["msg"] = f"{type(e).__name__}: {e}"[:200]
        return real
    real["_src"] = src
    hist = case.get("hist", "fresh")
    try:
        for k, (ep, idx, how) in enumerate(wpipe_plan(case)):
            def other():
                if peer is not None:
                    peer.getitem_xsemseg((idx + 1) % len(src), ctx={})
            if how == "fused":
                x, s = wr.getitem_xsemseg(idx, ctx={})
            elif how == "modefused":
                x, s = ModeWrapper(dataset=wr, mode="x semseg")[idx]
            elif how == "modefused_sx":
                s, x = ModeWrapper(dataset=wr, mode="semseg x")[idx]
            elif how == "getitem_xs":
                x = wr.getitem_x(idx, ctx={})
                other()
                s = wr.getitem_semseg(idx, ctx={})
            elif how == "getitem_sx":
                s = wr.getitem_semseg(idx)
                other()
                x = wr.getitem_x(idx)
            elif how == "mode_xs":
                x = ModeWrapper(dataset=wr, mode="x")[idx]
                other()
                s = ModeWrapper(dataset=wr, mode="semseg")[idx]
            elif how == "mode_sx":
                s = ModeWrapper(dataset=wr, mode="semseg")[idx]
                other()
                x = ModeWrapper(dataset=wr, mode="x")[idx]
            elif how == "mixed":
                x = wr.getitem_xsemseg(idx, ctx={})[0]
                other()
                s = ModeWrapper(dataset=wr, mode="index semseg")[idx][1]
            else:
                raise KeyError(how)
            real["records"].append({"ep": ep, "idx": idx, "src": src[idx], "how": how, "x": x, "s": s})
            if k == 0 and hist == "pickle":
                wr = pickle.loads(pickle.dumps(wr))
            elif k == 0 and hist == "deepcopy":
                wr = copy.deepcopy(wr)
        real["out"] = "ok"
    except Exception as e:
        real["out"] = exc_kind(e)
        real["msg"] = f"{type(e).__name__}: {e}"[:200]
    return real


def oracle_wpipe(case, real):
    out = str(real.get("out", ""))
    cls = "SemsegTransformWrapper"
    desc = ",".join(s["t"] + (str(s["size"]).replace(" ", "") if "size" in s else "") + (f"(p={s['p']})" if "p" in s else "") for s in case["steps"])
    tag = (f"{cls}[{desc}] images={case['images']} ({case.get('kind', 'f32')}) seed={case.get('seed')} history={case.get('hist', 'fresh')} "
           f"peer={bool(case.get('peer'))} subset={case.get('indices')}")
    if out.startswith("ctor:"):
        return None
    if out != "ok":
        return Failure(f"{cls}:exception", f"raises {real.get('msg', out)}: {tag}", case, "image and mask", real.get("msg", out))
    for rec in real["records"]:
        h, w = case["images"][rec["src"]]
        where = f"sample {rec['idx']} ({h}x{w}) epoch {rec['ep']} access={rec['how']}"
        x, s = rec["x"], rec["s"]
        if not (torch.is_tensor(x) and torch.is_tensor(s) and x.dim() == 3 and s.dim() == 2):
            return Failure(f"{cls}:output-size", f"{where}: output is not an image / mask pair: {tag}", case, "(3,h,w) and (h,w)",
                           [str(getattr(x, "shape", type(x))), str(getattr(s, "shape", type(s)))])
        xs, ss = list(x.shape[-2:]), list(s.shape[-2:])
        if xs != ss:
            return Failure(f"{cls}:pair-size", f"{where}: image is {xs} but mask is {ss}: {tag}", case, xs, ss)
        want = wpipe_size(case["steps"], h, w)
        if xs != want:
            return Failure(f"{cls}:output-size", f"{where}: output size {xs} instead of {want}: {tag}", case, want, xs)
        xr = x.double().round().long()
        if not aligned(xr, s, w):
            bad = "image and mask of the same sample show different positions (decoded from the coordinate encoding)"
            key = "pair-geometry" if rec["how"] in ("fused", "modefused", "modefused_sx") else "separate-access"
            return Failure(f"{cls}:{key}", f"{where}: {bad}: {tag}", case, "aligned", "differs")
    return None


def sig_wpipe(case, real):
    ks = [s["t"] for s in case["steps"]]
    first_pair = next((i for i, k in enumerate(ks) if k in ("crop", "flip")), None)
    x_before = first_pair is not None and any(k in WPIPE_XONLY for k in ks[:first_pair])
    return ("semseg", "wpipe", case.get("kind"), tuple(sorted(set(ks))), x_before, case.get("seed") is None, tuple(case["access"]), case.get("hist", "fresh"),
            bool(case.get("peer")), case.get("indices") is not None, real.get("out"))


def gen_wpipe(rng, big=False):
    n_img = rng.randint(1, 3)
    images = [[rng.randint(1, 40), rng.randint(1, 40)] for _ in range(n_img)]
    th, tw = rng.choice([1, 3, 8, 12, 16, 24, 33]), rng.choice([1, 3, 8, 12, 16, 24, 33])
    pair = []
    if rng.random() < 0.7:
        pair.append({"t": "pad", "size": [th, tw]})
    pair.append({"t": "crop", "size": [th, tw] if rng.random() < 0.7 else [rng.randint(1, 20), rng.randint(1, 20)]})
    if rng.random() < 0.8:
        pair.append({"t": "flip", "p": rng.choice([0.5, 0.5, 0.5, 0.3, 1.0])})
    if rng.random() < 0.3:
        pair.append({"t": "crop", "size": [rng.randint(1, th), rng.randint(1, tw)]})
    rng.shuffle(pair)
    steps = list(pair)
    for _ in range(rng.choice([0, 1, 1, 2, 3])):
        k = rng.choice(WPIPE_XONLY)
        st = {"t": k}
        if k in ("rnoise", "apply"):
            st["p"] = rng.choice([0.5, 0.5, 0.2, 1.0, 0.0])
        steps.insert(rng.randint(0, len(steps)), st)
    seed = rng.choice([None, rng.randint(0, 10 ** 6), rng.randint(0, 10 ** 6), rng.randint(0, 50)])
    fused = ["fused", "modefused", "modefused_sx"]
    sep = ["getitem_xs", "getitem_sx", "mode_xs", "mode_sx", "mixed"]
    if seed is None:
        access = rng.sample(fused, rng.randint(1, 2))          # without a seed only a joint request promises a common draw
    else:
        access = rng.sample(sep, rng.randint(1, 2)) + rng.sample(fused, rng.randint(0, 1))
        rng.shuffle(access)
    case = {"fam": "semseg", "sub": "wpipe", "H": images[0][0], "W": images[0][1], "images": images, "kind": rng.choice(["f32", "f32", "f64", "u8"]),
            "steps": steps, "seed": seed, "access": access, "epochs": rng.choice([1, 1, 2]),
            "hist": rng.choice(["fresh", "fresh", "pickle", "deepcopy"]), "peer": rng.random() < 0.25}
    n = n_img
    if rng.random() < 0.25:
        idxs = list(range(n_img)) + [rng.randrange(n_img) for _ in range(rng.randint(0, 2))]
        rng.shuffle(idxs)
        case["indices"] = idxs
        n = len(idxs)
    order = list(range(n))
    rng.shuffle(order)
    case["order"] = order[:3]
    return case


def wpipe_sweep_cases():
    """structured part: an image-only stochastic transform at every position of [pad, crop, flip] x separate / fused access x seeds"""
    out = []
    base = [{"t": "pad", "size": [16, 24]}, {"t": "crop", "size": [16, 24]}, {"t": "flip", "p": 0.5}]
    k = 0
    for xonly in ({"t": "noise"}, {"t": "rnoise", "p": 0.5}, {"t": "unoise"}, {"t": "apply", "p": 0.5}):
        for pos in range(len(base) + 1):
            steps = base[:pos] + [xonly] + base[pos:]
            k += 1
            out.append({"fam": "semseg", "sub": "wpipe", "H": 32, "W": 32, "images": [[32, 32], [17, 33], [12, 50]], "kind": "f32", "steps": steps,
                        "seed": k % 5, "access": [["getitem_xs", "modefused"], ["mode_sx", "fused"], ["getitem_sx"], ["mode_xs", "mixed"]][k % 4],
                        "epochs": 2, "hist": "fresh", "peer": False, "order": [0, 1, 2]})
    return out


# ----------------------------------------------------------------------------------------------
# family: patchify / unpatchify / shuffle  (+ einops vs model on random patterns)
# ----------------------------------------------------------------------------------------------
class _Identity:
    is_deterministic = True
    is_kd_transform = False

    def set_rng(self, rng):
        return self

    def __call__(self, x, ctx=None):
        return x


_PATS = {}


def patterns():
    if not _PATS:
        _PATS.update(te.extract())
    return _PATS


def pat_req(name, sizes):
    d = patterns()[name]
    return {"op": "re.map", "lhs": d["lhs"], "rhs": d["rhs"], "sizes": [[k, int(v)] for k, v in sizes.items()]}


def run_patch(case):
    import einops
    import kappadata.transforms as T
    sub = case["sub"]
    log = []
    real = {"log": log}
    if sub == "einops":
        total = 1
        for _, n in case["sizes"]:
            total *= n
        sz = dict(case["sizes"])
        shape_in = [int(np.prod([sz[a] for a in g])) if g else 1 for g in case["lhs"]]
        x = torch.arange(total).view(*shape_in)
        pat = " ".join("(" + " ".join(g) + ")" if len(g) != 1 else g[0] for g in case["lhs"]) + " -> " + \
              " ".join("(" + " ".join(g) + ")" if len(g) != 1 else g[0] for g in case["rhs"])
        try:
            y = einops.rearrange(x, pat, **sz)
            real["out"] = "ok"
            real["flat"] = [int(v) for v in y.flatten()]
            real["shape"] = list(y.shape)
        except Exception as e:
            real["out"] = "other:" + type(e).__name__
        return real
    c, H, W, ph, pw = case["c"], case["H"], case["W"], case["ph"], case["pw"]
    x = torch.arange(c * H * W, dtype=torch.float32).view(c, H, W)
    real["_x"] = x
    ctx = {}
    try:
        if sub in ("image", "shuffle"):
            p = T.PatchifyImage(patch_size=(ph, pw))(x.clone(), ctx=ctx)
            real["pshape"] = list(p.shape)
            real["pflat"] = [int(v) for v in p.flatten()]
            real["ctx_l"] = [ctx.get("patchify_lh"), ctx.get("patchify_lw")]
            q = p
            if sub == "shuffle":
                sh = T.PatchwiseShuffle()
                sh.set_rng(RecRng(case["seed"], log))
                q = sh(p, ctx=ctx)
                # state carried across calls: the same transform object then handles the next sample (own ctx, as in a batch);
                # what was recorded for THIS sample is read afterwards and must still describe this sample's shuffle
                sh.set_rng(RecRng(case["seed"] + 1, []))
                sh(p.clone(), ctx={})
                perm = ctx.get("permutation")
                real["perm"] = None if perm is None else [int(v) for v in perm]
                real["order"] = [int(q[0, k, 0, 0]) for k in range(q.shape[1])] if c > 0 else []
                real["porder"] = [int(p[0, k, 0, 0]) for k in range(p.shape[1])]
                real["_q_ok_shape"] = list(q.shape) == list(p.shape)
                inv = np.argsort(np.asarray(real["perm"])) if real["perm"] is not None else np.arange(q.shape[1])
                real["inv"] = [int(v) for v in inv]
                q = q[:, torch.as_tensor(inv)]
            back = T.UnpatchifyImage()(q, ctx=ctx)
        elif sub == "plain":
            p = T.Patchify(patch_size=(ph, pw))(x.clone(), ctx=ctx)
            real["pshape"] = list(p.shape)
            real["pflat"] = [int(v) for v in p.flatten()]
            back = T.Unpatchify()(p, ctx=ctx)
        elif sub == "patchwise":
            back = T.PatchwiseTransform(patch_size=(ph, pw), transform=_Identity())(x.clone(), ctx=ctx)
        real["out"] = "ok"
        real["bshape"] = list(back.shape)
        real["_back_ok"] = list(back.shape) == list(x.shape) and bool((back == x).all())
        real["bflat"] = [int(v) for v in back.flatten()]
    except Exception as e:
        real["out"] = exc_kind(e)
        real["msg"] = f"{type(e).__name__}: {e}"[:200]
    return real


def req_patch(case, real):
    sub = case["sub"]
    if sub == "einops":
        return {"op": "re.map", "lhs": case["lhs"], "rhs": case["rhs"], "sizes": case["sizes"]}
    c, H, W, ph, pw = case["c"], case["H"], case["W"], case["ph"], case["pw"]
    if H % ph or W % pw:
        return None
    lh, lw = H // ph, W // pw
    if sub in ("image", "shuffle"):
        sz = {"c": c, "lh": lh, "ph": ph, "lw": lw, "pw": pw}
        rq = [pat_req("patchifyImage", sz), pat_req("unpatchifyImage", sz)]
        if sub == "shuffle" and real.get("perm") is not None:
            rq.append({"op": "re.gather", "xs": real.get("porder", []), "perm": real["perm"]})
        return rq
    sz = {"c": c, "seqlen_h": lh, "patch_h": ph, "seqlen_w": lw, "patch_w": pw}
    if sub == "plain":
        return [pat_req("patchify", sz), pat_req("unpatchify", sz)]
    return [pat_req("patchify", sz), pat_req("patchwiseFlatten", sz), pat_req("patchwiseUnflatten", sz), pat_req("unpatchify", sz)]


def apply_map(flat_in, m):
    out = [None] * len(m)
    for i, o in enumerate(m):
        if o < len(out):
            out[o] = flat_in[i]
    return out


def views_patch(case, real, model):
    sub = case["sub"]
    if sub == "einops":
        total = model["total"]
        mv = {"out": "ok" if model["wf"] else "notwf", "flat": apply_map(list(range(total)), model["map"]), "shape": model["shapeOut"]}
        iv = {"out": real["out"], "flat": real.get("flat"), "shape": real.get("shape")}
        if not model["wf"]:
            mv = {"out": "rejected"}
            iv = {"out": "rejected" if real["out"] != "ok" else "ok"}
        return mv, iv
    if real["out"] != "ok":
        return {"out": "ok"}, {"out": real["out"]}
    n = case["c"] * case["H"] * case["W"]
    ident = list(range(n))
    if sub in ("image", "shuffle", "plain"):
        p = apply_map(ident, model[0]["map"])
        mv = {"out": "ok", "pshape": model[0]["shapeOut"], "pflat": p, "back": apply_map(p, model[1]["map"]), "wf": model[0]["wf"] and model[1]["wf"]}
        iv = {"out": "ok", "pshape": real["pshape"], "pflat": real["pflat"], "back": mv["back"], "wf": True}
        if sub != "shuffle":
            iv["back"] = real["bflat"]
        elif len(model) > 2:
            mv["order"], mv["inv"], mv["unshuffled"] = model[2]["ys"], model[2]["inv"], model[2]["back"]
            iv["order"], iv["inv"], iv["unshuffled"] = real["order"], real["inv"], real["porder"]
        return mv, iv
    cur = ident
    for m in model:
        cur = apply_map(cur, m["map"])
    return {"out": "ok", "back": cur}, {"out": "ok", "back": real["bflat"]}


def oracle_patch(case, real):
    sub = case["sub"]
    if sub == "einops":
        return None
    c, H, W, ph, pw = case["c"], case["H"], case["W"], case["ph"], case["pw"]
    names = {"image": "PatchifyImage/UnpatchifyImage", "plain": "Patchify/Unpatchify", "shuffle": "PatchifyImage/PatchwiseShuffle/UnpatchifyImage",
             "patchwise": "PatchwiseTransform"}
    cls = names[sub]
    tag = f"{cls} tensor {c}x{H}x{W} patch {ph}x{pw}" + (f" seed={case['seed']}" if sub == "shuffle" else "")
    if H % ph or W % pw:
        return None      # the code asserts divisibility: outside the quantifier
    if real["out"] != "ok":
        return Failure(f"{cls}:exception", f"raises {real.get('msg')}: {tag}", case, "round trip", real.get("msg"))
    lh, lw = H // ph, W // pw
    if sub in ("image", "shuffle"):
        if real["pshape"] != [c, lh * lw, ph, pw]:
            return Failure(f"{cls}:patch-shape", f"patches have shape {real['pshape']}: {tag}", case, [c, lh * lw, ph, pw], real["pshape"])
        if real["ctx_l"] != [lh, lw]:
            return Failure(f"{cls}:ctx", f"ctx records patchify_lh/lw = {real['ctx_l']}: {tag}", case, [lh, lw], real["ctx_l"])
        # patch k = window (k // lw, k % lw) of the image
        x = real["_x"]
        p = torch.tensor(real["pflat"], dtype=torch.float32).view(*real["pshape"])
        for k in range(lh * lw):
            a, b = divmod(k, lw)
            if not bool((p[:, k] == x[:, a * ph:(a + 1) * ph, b * pw:(b + 1) * pw]).all()):
                return Failure(f"{cls}:patch-content", f"patch {k} is not the image window ({a},{b}): {tag}", case, "window", "differs")
    if sub == "plain" and real["pshape"] != [c, lh, lw, ph, pw]:
        return Failure(f"{cls}:patch-shape", f"patches have shape {real['pshape']}: {tag}", case, [c, lh, lw, ph, pw], real["pshape"])
    if sub == "shuffle":
        perm = real["perm"]
        if perm is None or sorted(perm) != list(range(lh * lw)):
            return Failure(f"{cls}:ctx", f"ctx['permutation'] = {perm} is not a permutation of the {lh * lw} patches: {tag}", case, "permutation", perm)
        if not real["_q_ok_shape"] or real["order"] != [real["porder"][k] for k in perm]:
            return Failure(f"{cls}:recorded-permutation", f"shuffled patch k is not patch permutation[k] of the input (recorded {perm}): {tag}", case,
                           [real["porder"][k] for k in perm], real["order"])
    if not real["_back_ok"]:
        return Failure(f"{cls}:round-trip", f"unpatchify(patchify(x)) != x" + (" after un-shuffling with the inverse of the recorded permutation" if sub == "shuffle" else "") + f": {tag}",
                       case, "x", "differs")
    return None


def sig_patch(case, real):
    if case["sub"] == "einops":
        return ("einops", len(case["lhs"]), len(case["rhs"]), len(case["sizes"]), real.get("out"))
    return ("patch", case["sub"], case["c"], case["H"] // case["ph"] if case["H"] % case["ph"] == 0 else -1,
            case["W"] // case["pw"] if case["W"] % case["pw"] == 0 else -1, case["ph"], case["pw"], real.get("out"))


def gen_patch(rng, big=False):
    sub = rng.choice(["image", "plain", "shuffle", "shuffle", "patchwise", "einops", "einops"])
    if sub == "einops":
        n = rng.randint(1, 5)
        axes = [f"a{k}" for k in range(n)]
        sizes = [[a, rng.randint(1, 4)] for a in axes]

        def group(order):
            out, k = [], 0
            while k < len(order):
                g = rng.choice([1, 1, 2, 3])
                out.append(order[k:k + g])
                k += g
            return out
        lo, ro = axes[:], axes[:]
        rng.shuffle(lo)
        rng.shuffle(ro)
        return {"fam": "patch", "sub": sub, "lhs": group(lo), "rhs": group(ro), "sizes": sizes}
    ph, pw = rng.choice([1, 2, 3, 4, 5, 8]), rng.choice([1, 2, 3, 4, 5, 8])
    lh, lw = rng.randint(1, max(1, 40 // ph)), rng.randint(1, max(1, 40 // pw))
    if big:
        lh, lw = min(lh, 5), min(lw, 5)
    else:
        lh, lw = min(lh, 4), min(lw, 4)
    H, W = ph * lh, pw * lw
    if rng.random() < 0.08:
        H += 1
    return {"fam": "patch", "sub": sub, "c": rng.choice([1, 2, 3]), "H": H, "W": W, "ph": ph, "pw": pw, "seed": rng.randint(0, 10 ** 6)}


# ----------------------------------------------------------------------------------------------
# family: normalise / denormalise
# ----------------------------------------------------------------------------------------------
def run_norm(case):
    import kappadata.transforms as T
    from kappadata.utils.transform_utils import get_denorm_transform
    from torchvision.transforms import Compose, Normalize
    sub = case["sub"]
    g = torch.Generator().manual_seed(case["seed"])
    c = len(case["mean"]) if sub != "range" else case["c"]
    x = torch.rand(c, case["h"], case["w"], generator=g)
    real = {"log": [], "_x": x}
    try:
        if sub == "image":
            t = T.KDImageNorm(mean=tuple(case["mean"]), std=tuple(case["std"]))
            y = t(x.clone())
            z = T.KDImageNorm(mean=tuple(case["mean"]), std=tuple(case["std"]), inverse=True)(y.clone())
        elif sub == "range":
            t = T.KDImageRangeNorm()
            y = t(x.clone())
            z = t.denormalize(y.clone())
        elif sub == "denorm_kd":
            t = T.KDComposeTransform([T.KDImageNorm(mean=tuple(case["mean"]), std=tuple(case["std"]))])
            y = t(x.clone())
            z = get_denorm_transform(t)(y.clone())
        elif sub == "denorm_tv":
            t = Compose([Normalize(mean=tuple(case["mean"]), std=tuple(case["std"]))])
            y = t(x.clone())
            z = get_denorm_transform(t)(y.clone())
        real["out"] = "ok"
        real["_y"], real["_z"] = y, z
    except Exception as e:
        real["out"] = exc_kind(e)
        real["msg"] = f"{type(e).__name__}: {e}"[:200]
    return real


def req_norm(case, real):
    x = real["_x"]
    if case["sub"] == "range":
        return {"op": "re.rangenorm", "xs": [fr(v) for v in x.flatten().tolist()]}
    return {"op": "re.norm", "mean": [fr(m) for m in case["mean"]], "std": [fr(s) for s in case["std"]],
            "img": [[fr(v) for v in ch.flatten().tolist()] for ch in x]}


def _close(model_rats, t, tol=1e-5):
    vals = torch.tensor([[n / d for n, d in ch] for ch in model_rats] if model_rats and isinstance(model_rats[0][0], list) else [n / d for n, d in model_rats],
                        dtype=torch.float64).flatten()
    tt = t.flatten().to(torch.float64)
    return vals.shape == tt.shape and bool(((vals - tt).abs() <= tol * (1 + vals.abs())).all())


def views_norm(case, real, model):
    if "err" in model:
        return {"out": model["err"]}, {"out": real["out"]}
    if real["out"] != "ok":
        return {"out": "ok"}, {"out": real["out"]}
    mv = {"out": "ok", "norm_within_1e-5": True, "back_within_1e-5": True}
    iv = {"out": "ok", "norm_within_1e-5": _close(model["norm"], real["_y"]), "back_within_1e-5": _close(model["back"], real["_z"])}
    return mv, iv


def oracle_norm(case, real):
    sub = case["sub"]
    names = {"image": "KDImageNorm", "range": "KDImageRangeNorm", "denorm_kd": "get_denorm_transform(KDImageNorm)", "denorm_tv": "get_denorm_transform(Normalize)"}
    cls = names[sub]
    if sub != "range" and any(s == 0 for s in case["std"]):
        return None
    tag = f"{cls} mean={case.get('mean')} std={case.get('std')} image seed={case['seed']} {case['h']}x{case['w']}"
    if real["out"] != "ok":
        return Failure(f"{cls}:exception", f"raises {real.get('msg')}: {tag}", case, "round trip", real.get("msg"))
    x, z = real["_x"], real["_z"]
    err = float((z - x).abs().max()) if z.shape == x.shape else float("inf")
    if not err <= 1e-5:
        return Failure(f"{cls}:round-trip", f"denormalize(normalize(x)) differs from x by {err:.3g} (> 1e-5): {tag}", case, "x (1e-5)", err)
    return None


def sig_norm(case, real):
    return ("norm", case["sub"], len(case.get("mean", [])), real.get("out"), tuple(round(s, 2) for s in case.get("std", []))[:1])


def gen_norm(rng, big=False):
    sub = rng.choice(["image", "image", "range", "denorm_kd", "denorm_tv"])
    c = 3 if sub in ("denorm_tv", "denorm_kd") else rng.choice([1, 3, 4])
    case = {"fam": "norm", "sub": sub, "h": rng.randint(1, 6), "w": rng.randint(1, 6), "seed": rng.randint(0, 10 ** 6)}
    if sub == "range":
        case["c"] = c
    else:
        case["mean"] = [round(rng.uniform(0, 1), 3) for _ in range(c)]
        case["std"] = [rng.choice([0.05, 0.229, 0.5, 1.0, 2.0, round(rng.uniform(0.1, 1.5), 3)]) for _ in range(c)]
        if rng.random() < 0.3:
            case["mean"], case["std"] = [0.485, 0.456, 0.406][:c] + [0.5] * (c - 3), [0.229, 0.224, 0.225][:c] + [0.25] * (c - 3)
    return case


# ----------------------------------------------------------------------------------------------
# family: box intersection, grid operations (model grid ops vs torchvision.functional)
# ----------------------------------------------------------------------------------------------
def run_misc(case):
    from torchvision.transforms.functional import crop, hflip, pad
    from kappadata.utils import bounding_box_utils as B
    real = {"log": []}
    if case["sub"] == "inter":
        a, b = case["a"], case["b"]
        real["ijhw"] = B.intersection_area_ijhw(a[0], a[1], a[2], a[3], b[0], b[1], b[2], b[3])
        real["ijkl"] = B.intersection_area_ijkl(a[0], a[1], a[0] + a[2], a[1] + a[3], b[0], b[1], b[0] + b[2], b[1] + b[3])
        real["out"] = "ok"
        return real
    x = torch.tensor(case["grid"]).unsqueeze(0)
    s = torch.tensor(case["mask"]).unsqueeze(0)
    for op in case["ops"]:
        if op["k"] == "crop":
            x, s = crop(x, *op["v"]), crop(s, *op["v"])
        elif op["k"] == "pad":
            x, s = pad(x, op["v"], fill=case["fillX"]), pad(s, op["v"], fill=case["fillS"])
        elif op["k"] == "hflip":
            x, s = hflip(x), hflip(s)
    real["x"], real["s"] = x[0].tolist(), s[0].tolist()
    real["out"] = "ok"
    return real


def req_misc(case, real):
    if case["sub"] == "inter":
        return {"op": "geo.inter", "a": case["a"], "b": case["b"]}
    return {"op": "geo.grid", "grid": case["grid"], "mask": case["mask"], "ops": case["ops"], "fillX": case["fillX"], "fillS": case["fillS"]}


def views_misc(case, real, model):
    if case["sub"] == "inter":
        return {"area": model.get("area")}, {"area": real["ijhw"]}
    return {"x": model.get("x"), "s": model.get("s")}, {"x": real["x"], "s": real["s"]}


def oracle_misc(case, real):
    if case["sub"] != "inter":
        return None
    a, b = case["a"], case["b"]
    cells = lambda q: {(r, c) for r in range(q[0], q[0] + q[2]) for c in range(q[1], q[1] + q[3])}
    want = len(cells(a) & cells(b))
    for name in ("ijhw", "ijkl"):
        if real[name] != want:
            return Failure(f"intersection_area_{name}", f"intersection_area_{name} of boxes {a} and {b} is {real[name]}, the boxes share {want} cells", case, want, real[name])
    return None


def sig_misc(case, real):
    if case["sub"] == "inter":
        return ("inter", real["ijhw"] == 0, real["ijhw"] == case["a"][2] * case["a"][3], min(real["ijhw"], 12))
    return ("grid", tuple(o["k"] for o in case["ops"]), len(case["grid"]), len(case["grid"][0]))


def gen_misc(rng, big=False):
    if rng.random() < 0.6:
        box = lambda: [rng.randint(0, 8), rng.randint(0, 8), rng.randint(1, 8), rng.randint(1, 8)]
        return {"fam": "misc", "sub": "inter", "a": box(), "b": box()}
    h, w = rng.randint(1, 6), rng.randint(1, 6)
    grid = [[r * w + c + 1 for c in range(w)] for r in range(h)]
    mask = [[100 + r * w + c for c in range(w)] for r in range(h)]
    ops = []
    for _ in range(rng.randint(1, 4)):
        k = rng.choice(["crop", "pad", "hflip"])
        if k == "crop":
            i, j = rng.randint(0, h - 1), rng.randint(0, w - 1)
            hh, ww = rng.randint(1, h - i), rng.randint(1, w - j)
            ops.append({"k": "crop", "v": [i, j, hh, ww]})
            h, w = hh, ww
        elif k == "pad":
            v = [rng.randint(0, 2) for _ in range(4)]
            ops.append({"k": "pad", "v": v})
            h, w = h + v[1] + v[3], w + v[0] + v[2]
        else:
            ops.append({"k": "hflip"})
    return {"fam": "misc", "sub": "grid", "grid": grid, "mask": mask, "ops": ops, "fillX": 0, "fillS": -1}


# ----------------------------------------------------------------------------------------------
# family: compositions -- the context-recording transforms used THROUGH the package's composition features
#   hosts:     KDMultiViewWrapper (several configs, n_views >= 1, ctx["view<v>"]), XTransformWrapper (flat ctx), KDComposeTransform called directly
#   pipelines: crop / simple crop / resized crop / two-crop / patchify+shuffle, chained (resized crop -> crop, crop -> patchify -> shuffle, flip -> crop),
#              last step optionally under KDRandomApply or KDTransformChoice
#   below:     the dataset is optionally wrapped first (SubsetWrapper with permuted indices, XTransformWrapper with a deterministic transform)
#   histories: every record (views, ctx) is judged only AFTER all fetches of the case ran (later samples, the peer instance, the pickled copy must not
#              change what was recorded for an earlier sample); the used host is optionally replaced by its pickled / deep copy; a second host instance
#              (own configuration, or built from the very same configuration objects) is alive and used in between
#   inputs:    uint8 / float32 / float64 tensors, 1-channel tensors, PIL
# judged by the property statement only: for every view, the parameters recorded FOR THAT VIEW, applied by hand (torchvision.functional / slicing) to
# the input of that sample, reproduce the view exactly, lie inside the (padded) input and give the requested size; the recorded permutation inverts
# the shuffle of that view (package's UnpatchifyImage with that view's ctx gives the patchified image back).  No model is involved (req = None).
# ----------------------------------------------------------------------------------------------
COMP_HOSTS = {"multiview": "KDMultiViewWrapper", "xwrap": "XTransformWrapper", "compose": "KDComposeTransform"}


def comp_image(kind, h, w):
    if kind == "pil":
        return coord_pil(h, w)
    t = coord_tensor(h, w)
    if kind == "f32":
        return t.to(torch.float32) / 255
    if kind == "f64":
        return t.to(torch.float64) / 255
    if kind == "gray":
        r = torch.arange(h).view(h, 1).expand(h, w)
        c = torch.arange(w).view(1, w).expand(h, w)
        return ((r * 41 + c + 1) % 256).to(torch.uint8).view(1, h, w).contiguous()
    return t


def comp_copy(img):
    return img.clone() if torch.is_tensor(img) else img.copy()


def same_any(a, b):
    """exact equality of two images / patch tensors (PIL compared through pil_to_tensor); dtype and shape must agree for tensors"""
    if torch.is_tensor(a) and torch.is_tensor(b):
        return a.shape == b.shape and a.dtype == b.dtype and bool((a == b).all())
    if torch.is_tensor(a) != torch.is_tensor(b):
        return False
    try:
        return same_img(a, b)
    except Exception:  # noqa
        return False


def build_step(step):
    import kappadata.transforms as T
    from kappadata.transforms.kd_two_random_crop import KDTwoRandomCrop
    k = step["t"]
    if k == "crop":
        t = build_crop(dict(step, cls="KDRandomCrop"))
    elif k == "two":
        t = build_crop(dict(step, cls="KDTwoRandomCrop"))
    elif k == "simple":
        t = build_crop(dict(step, cls="KDSimpleRandomCrop"))
    elif k == "rrc":
        t = T.KDRandomResizedCrop(size=tuple(step["size"]), scale=tuple(step["scale"]), ratio=tuple(step["ratio"]), interpolation=step.get("interp", "bilinear"))
    elif k == "patchify":
        t = T.PatchifyImage(patch_size=(step["ph"], step["pw"]))
    elif k == "shuffle":
        t = T.PatchwiseShuffle()
    elif k == "hflip":
        t = T.KDHorizontalFlip()
    elif k == "identity":
        t = T.KDIdentityTransform()
    elif k == "choice":
        from kappadata.transforms.kd_transform_choice import KDTransformChoice
        t = KDTransformChoice(transforms=[build_step(s) for s in step["of"]])
    else:
        raise KeyError(k)
    if step.get("p") is not None:
        t = T.KDRandomApply(transform=t, p=step["p"])
    return t


def build_pipe(pipe, form="compose"):
    """one transform object (or the raw list, which the wrappers turn into a KDComposeTransform themselves) for a pipeline"""
    import kappadata.transforms as T
    ts = [build_step(s) for s in pipe]
    if len(ts) == 1 and form != "list":
        return ts[0]
    return ts if form == "list" else T.KDComposeTransform(ts)


class _Skip(Exception):
    """the hand application is not defined (torchvision refuses the configuration / zero-extent fallback box): out of the claim"""


class _Bad(Exception):
    def __init__(self, key, what, expected=None, actual=None):
        super().__init__(what)
        self.key, self.what, self.expected, self.actual = key, what, expected, actual


def _ctx_box(vctx, key, names):
    c = vctx.get(key) if isinstance(vctx, dict) else None
    if not isinstance(c, dict) or any(c.get(n) is None for n in names):
        raise _Bad("ctx-missing", f"ctx['{key}'] does not record {','.join(names)} (got {c!r})", names, repr(c)[:200])
    try:
        return [int(c[n]) if float(c[n]) == int(c[n]) else c[n] for n in names]
    except Exception:  # noqa
        raise _Bad("ctx-missing", f"ctx['{key}'] holds non-numeric parameters {c!r}", names, repr(c)[:200])


def hand_step(step, x, vctx):
    """applies one step BY HAND to x using only the configuration and what the view's ctx records; returns the output (a list for the two-crop)"""
    from torchvision.transforms import InterpolationMode
    from torchvision.transforms.functional import crop, hflip, resized_crop, to_tensor
    k = step["t"]
    if step.get("p") is not None:
        # KDRandomApply: either the inner transform ran (then it recorded its parameters) or the input is handed through
        key = {"crop": "random_crop", "simple": "random_crop", "rrc": "random_resized_crop", "two": "two_random_crop"}[k]
        if not (isinstance(vctx, dict) and key in vctx):
            return x
    if k == "identity":
        return x
    if k == "hflip":
        return hflip(x)
    if k in ("crop", "simple", "two"):
        try:
            src = hand_pad(hand_resize(x, step) if k == "simple" else x, step)
            H, W = img_size(src)
        except Exception as e:
            raise _Skip(f"hand padding refused: {type(e).__name__}")
        th, tw = step["size"]
        if H < th or W < tw:
            raise _Skip("padded image smaller than the crop")
        if k == "two":
            c = _ctx_box(vctx, "two_random_crop", ["i0", "j0", "h0", "w0", "i1", "j1", "h1", "w1"])
            boxes = [c[:4], c[4:]]
        else:
            boxes = [_ctx_box(vctx, "random_crop", "ijhw")]
        outs = []
        for b in boxes:
            if not box_ok(b, H, W):
                raise _Bad("ctx-out-of-bounds", f"recorded crop box {b} leaves the {H}x{W} (padded) input", f"inside {H}x{W}", b)
            if [b[2], b[3]] != [th, tw]:
                raise _Bad("output-size", f"recorded crop box {b} has not the requested size {[th, tw]}", [th, tw], b[2:])
            outs.append(crop(src, *b))
        return outs if k == "two" else outs[0]
    if k == "rrc":
        H, W = img_size(x)
        b = _ctx_box(vctx, "random_resized_crop", "ijhw")
        og = _ctx_box(vctx, "random_resized_crop", ["og_h", "og_w"])
        if og != [H, W]:
            raise _Bad("ctx-og-size", f"recorded original size {og} is not the input size {[H, W]}", [H, W], og)
        if b[2] <= 0 or b[3] <= 0:
            raise _Skip("zero-extent fallback box")
        if not box_ok(b, H, W):
            raise _Bad("ctx-out-of-bounds", f"recorded resized-crop box {b} leaves the {H}x{W} input", f"inside {H}x{W}", b)
        try:
            return resized_crop(x, b[0], b[1], b[2], b[3], list(step["size"]), InterpolationMode(step.get("interp", "bilinear")))
        except Exception as e:
            raise _Skip(f"hand resized_crop refused: {type(e).__name__}")
    if k == "patchify":
        xt = x if torch.is_tensor(x) else to_tensor(x)
        ph, pw = step["ph"], step["pw"]
        c, H, W = xt.shape
        if H % ph or W % pw:
            raise _Skip("patch size does not divide the image")
        lh, lw = H // ph, W // pw
        rec = [vctx.get("patchify_lh"), vctx.get("patchify_lw")] if isinstance(vctx, dict) else None
        if rec != [lh, lw]:
            raise _Bad("ctx-patch-grid", f"ctx records patchify_lh/lw = {rec} for a {H}x{W} image with {ph}x{pw} patches", [lh, lw], rec)
        return torch.stack([xt[:, a * ph:(a + 1) * ph, b * pw:(b + 1) * pw] for a in range(lh) for b in range(lw)], dim=1)
    if k == "shuffle":
        perm = vctx.get("permutation") if isinstance(vctx, dict) else None
        n = x.shape[1]
        try:
            perm = [int(v) for v in perm]
        except Exception:  # noqa
            raise _Bad("ctx-missing", f"ctx['permutation'] = {perm!r} is not a permutation", f"permutation of {n}", repr(perm)[:200])
        if sorted(perm) != list(range(n)):
            raise _Bad("ctx-permutation", f"ctx['permutation'] = {perm} is not a permutation of the {n} patches", f"permutation of {n}", perm)
        return x[:, torch.as_tensor(perm, dtype=torch.long)]
    if k == "choice":
        idx = vctx.get("transform_choice") if isinstance(vctx, dict) else None
        if not isinstance(idx, int) or not 0 <= idx < len(step["of"]):
            raise _Bad("ctx-missing", f"ctx['transform_choice'] = {idx!r} does not name one of the {len(step['of'])} transforms", "index", repr(idx))
        return hand_step(step["of"][idx], x, vctx)
    raise KeyError(k)


def hand_pipe(pipe, x, vctx):
    """returns (expected output, image right before patchify or None)"""
    pre = None
    for s in pipe:
        if s["t"] == "patchify":
            from torchvision.transforms.functional import to_tensor
            pre = x if torch.is_tensor(x) else to_tensor(x)
        if isinstance(x, list):
            raise _Skip("steps after a two-crop are not generated")
        x = hand_step(s, x, vctx)
    return x, pre


def pipe_out_size(pipe):
    """requested spatial size of the pipeline's output when its last size-defining step states one (None: input size / patches)"""
    size = None
    for s in pipe:
        if s["t"] in ("crop", "simple", "two", "rrc") and s.get("p") is None:
            size = list(s["size"])
        elif s["t"] in ("choice",) or s.get("p") is not None:
            size = None
        elif s["t"] in ("patchify", "shuffle"):
            return None
    return size


def _fetch(host, access, idx):
    """(views-or-output, ctx) of one sample through the requested public access path"""
    from kappadata.wrappers import ModeWrapper
    if access == "getitem":
        ctx = {}
        return host.getitem_x(idx, ctx), ctx
    if access == "modeidx":
        (i, out), ctx = ModeWrapper(dataset=host, mode="index x", return_ctx=True)[idx]
        return out, ctx
    out, ctx = ModeWrapper(dataset=host, mode="x", return_ctx=True)[idx]
    return out, ctx


def _comp_base(case, images):
    """the dataset below the host and, per index of it, which image it shows and what the deterministic inner transform is"""
    from tests_util.datasets.x_dataset import XDataset
    import kappadata.transforms as T
    from kappadata.wrappers import SubsetWrapper, XTransformWrapper
    ds = XDataset([comp_copy(im) for im in images])
    base = case.get("base", "plain")
    src = list(range(len(images)))
    inner = []
    if base == "subset":
        src = list(case["indices"])
        ds = SubsetWrapper(ds, indices=list(src))
    elif base == "xflip":
        ds = XTransformWrapper(ds, transform=T.KDHorizontalFlip())
        inner = [{"t": "hflip"}]
    elif base == "xidentity":
        ds = XTransformWrapper(ds, transform=T.KDIdentityTransform())
    return ds, src, inner


def _comp_host(case, base, configs, seed):
    from kappadata.wrappers import KDMultiViewWrapper, XTransformWrapper
    from kappadata.wrappers.sample_wrappers.kd_multi_view_wrapper import KDMultiViewConfig
    if case["host"] == "xwrap":
        return XTransformWrapper(base, transform=configs[0], seed=seed)
    return KDMultiViewWrapper(base, configs=configs, seed=seed)


def _comp_configs(case, spec):
    """configuration objects for a host from its spec [[n_views, pipe], ...] in the requested written form"""
    from kappadata.wrappers.sample_wrappers.kd_multi_view_wrapper import KDMultiViewConfig
    form = case.get("form", "tuple")
    if case["host"] == "xwrap":
        return [build_pipe(spec[0][1], "list" if form == "list" else "compose")]
    out = []
    first = None
    for n, pipe in spec:
        if pipe is None:
            out.append(n if form != "dict" else dict(n_views=n))
            continue
        t = build_pipe(pipe, "list" if form == "list" else "compose")
        if case.get("share_transform") and first is not None and first[0] == pipe:
            t = first[1]          # the same transform object serves two configurations
        if first is None:
            first = (pipe, t)
        if form == "dict":
            out.append(dict(n_views=n, transform=t))
        elif form == "cfg" and not isinstance(t, list):
            out.append(KDMultiViewConfig(n_views=n, transform=t))
        else:
            out.append((n, t))
    return out


def run_comp(case):
    """global numpy state is pinned for the run (transforms without a wrapper seed take their generator from it) and restored afterwards"""
    state = np.random.get_state()
    np.random.seed(random.Random(json.dumps(case, sort_keys=True, default=str)).randrange(2 ** 31))
    try:
        return _run_comp(case)
    finally:
        np.random.set_state(state)


def _run_comp(case):
    import copy
    import pickle
    real = {"log": [], "records": []}
    kind = case.get("kind", "tensor")
    images = [comp_image(kind, h, w) for h, w in case["images"]]
    real["_images"] = images
    host_kind = case["host"]
    hist = case.get("hist", "fresh")
    try:
        if host_kind == "compose":
            t = build_pipe(case["configs"][0][1], "compose")
            import kappadata.transforms as T
            if not isinstance(t, T.KDComposeTransform) and case.get("form") == "list":
                t = T.KDComposeTransform([t])
            t.set_rng(np.random.default_rng(case["seed"]))
            n = case["configs"][0][0]
            x = images[0]
            for k in range(n):
                vctx = {}
                y = t(comp_copy(x), vctx)
                real["records"].append({"who": 0, "src": 0, "views": [y], "vctxs": [vctx]})
                if k == 0 and hist == "pickle":
                    t = pickle.loads(pickle.dumps(t))
                elif k == 0 and hist == "deepcopy":
                    t = copy.deepcopy(t)
                elif hist == "noctx":
                    t(comp_copy(x))           # a call without context in between
            real["out"] = "ok"
            return real
        base, src, inner = _comp_base(case, images)
        real["_inner"] = inner
        configs = _comp_configs(case, case["configs"])
        hosts = [_comp_host(case, base, configs, case.get("seed"))]
        specs = [case["configs"]]
        peer = case.get("peer")
        if peer == "same":
            hosts.append(_comp_host(case, base, configs, None if case.get("seed") is None else case["seed"] + 17))
            specs.append(case["configs"])
        elif peer == "other":
            hosts.append(_comp_host(case, base, _comp_configs(case, case["peer_configs"]), case.get("seed")))
            specs.append(case["peer_configs"])
        real["_specs"] = specs
        for k, idx in enumerate(case["order"]):
            for who, host in enumerate(hosts):
                out, ctx = _fetch(host, case.get("access", "mode"), idx)
                if host_kind == "xwrap":
                    views, vctxs = [out], [ctx]
                else:
                    views = list(out) if isinstance(out, (list, tuple)) else [out]
                    vctxs = [ctx.get(f"view{v}") if isinstance(ctx, dict) else None for v in range(len(views))]
                real["records"].append({"who": who, "idx": idx, "src": src[idx], "views": views, "vctxs": vctxs})
            if k == 0 and hist == "pickle":
                hosts = [pickle.loads(pickle.dumps(h)) for h in hosts]
            elif k == 0 and hist == "deepcopy":
                hosts = [copy.deepcopy(h) for h in hosts]
        real["out"] = "ok"
    except Exception as e:
        real["out"] = exc_kind(e)
        real["msg"] = f"{type(e).__name__}: {e}"[:200]
    return real


def req_comp(case, real):
    return None


def views_comp(case, real, model):
    return None, None


def comp_view_plan(spec):
    """view number -> pipeline (None = identity) for a host spec"""
    plan = []
    for n, pipe in spec:
        plan += [pipe] * n
    return plan


def oracle_comp(case, real):
    hostname = COMP_HOSTS[case["host"]]
    desc = f"{hostname} configs={[[n, None if p is None else [s['t'] + ('?' if s.get('p') is not None else '') for s in p]] for n, p in case['configs']]}"
    tag = (f"{desc} images={case['images']} ({case.get('kind', 'tensor')}) below={case.get('base', 'plain')} access={case.get('access', 'mode')} "
           f"history={case.get('hist', 'fresh')} peer={case.get('peer')} seed={case.get('seed')}")
    if real["out"] != "ok":
        # every generated pipeline fits its input; is that so by hand as well?  (otherwise the rejection is the specified outcome)
        try:
            for (h, w) in case["images"]:
                for n, pipe in case["configs"] + (case.get("peer_configs") or []):
                    if pipe is not None:
                        _hand_fits(pipe, comp_image(case.get("kind", "tensor"), h, w))
        except _Skip:
            return None
        except Exception:  # noqa
            return None
        return Failure(f"{hostname}:exception", f"raises {real.get('msg', real['out'])} although every crop fits its (padded) input: {tag}", case, "views + ctx",
                       real.get("msg", real["out"]))
    inner = real.get("_inner") or []
    for rec in real["records"]:
        x = real["_images"][rec["src"]]
        for s in inner:
            x = hand_step(s, x, {})
        if case["host"] == "compose":
            plan = [case["configs"][0][1]] * len(rec["views"])
        else:
            plan = comp_view_plan(real["_specs"][rec["who"]])
        where = f"sample {rec.get('idx', 0)}" + (f" of instance {rec['who']}" if len(real.get('_specs', [])) > 1 else "")
        if len(rec["views"]) != len(plan):
            return Failure(f"{hostname}:view-count", f"{len(rec['views'])} views instead of {len(plan)} for {where}: {tag}", case, len(plan), len(rec["views"]))
        for v, (view, vctx, pipe) in enumerate(zip(rec["views"], rec["vctxs"], plan)):
            name = f"view {v}" if case["host"] == "multiview" else ("output" if case["host"] == "xwrap" else f"call {v}")
            if pipe is None:
                pipe = [{"t": "identity"}]
            if case["host"] == "multiview" and not isinstance(vctx, dict):
                return Failure(f"{hostname}:ctx-missing", f"ctx has no entry 'view{v}' for {where}: {tag}", case, f"ctx['view{v}']", repr(vctx)[:100])
            try:
                want, pre = hand_pipe(pipe, x, vctx)
            except _Skip:
                continue
            except _Bad as b:
                return Failure(f"{hostname}:{b.key}", f"{name} of {where}: {b.what}: {tag}", case, b.expected, b.actual)
            wants = want if isinstance(want, list) else [want]
            gots = list(view) if isinstance(want, list) and isinstance(view, (list, tuple)) else [view]
            if len(wants) != len(gots):
                return Failure(f"{hostname}:output-size", f"{name} of {where} is not a pair of crops: {tag}", case, len(wants), str(type(view)))
            size = pipe_out_size(pipe)
            for g in gots:
                try:
                    gsize = list(img_size(g))
                except Exception:  # noqa
                    gsize = f"not an image ({type(g).__name__})"
                if size is not None and gsize != size:
                    return Failure(f"{hostname}:output-size", f"{name} of {where} has size {gsize} instead of {size}: {tag}", case, size, gsize)
            for k, (w_, g) in enumerate(zip(wants, gots)):
                if not same_any(w_, g):
                    return Failure(f"{hostname}:view-ctx-does-not-reproduce",
                                   f"the parameters recorded for {name} of {where} ({_short_ctx(vctx)}), applied to the input by hand, do not reproduce that "
                                   f"{'view' if case['host'] == 'multiview' else 'output'}{f' (crop {k})' if len(wants) > 1 else ''}: {tag}", case, "equal", "differs")
            if pre is not None and any(s["t"] == "shuffle" for s in pipe) and torch.is_tensor(view):
                # inverse direction with the package's own UnpatchifyImage and this view's ctx
                try:
                    import kappadata.transforms as T
                    perm = torch.as_tensor([int(p) for p in vctx["permutation"]], dtype=torch.long)
                    un = torch.empty_like(view)
                    un[:, perm] = view
                    back = T.UnpatchifyImage()(un, vctx)
                    ok = same_any(back, pre)
                except Exception as e:
                    ok, back = False, f"{type(e).__name__}: {e}"[:120]
                if not ok:
                    return Failure(f"{hostname}:round-trip", f"unpatchify(unshuffle({name}, recorded permutation)) with the ctx of {name} of {where} is not the "
                                   f"patchified image: {tag}", case, "image", "differs")
    return None


def _short_ctx(vctx):
    try:
        return json.dumps({k: (v if isinstance(v, (int, float, str, dict)) else [int(e) for e in v][:12]) for k, v in vctx.items()}, default=str)[:200]
    except Exception:  # noqa
        return repr(vctx)[:200]


def _hand_fits(pipe, x):
    """raises _Skip when some crop of the pipeline does not fit by hand (sizes only; parameters are not needed for that)"""
    from torchvision.transforms.functional import resize
    for s in pipe:
        k = s["t"]
        if k in ("crop", "simple", "two"):
            try:
                src = hand_pad(hand_resize(x, s) if k == "simple" else x, s)
            except Exception:  # noqa
                raise _Skip("hand padding refused")
            H, W = img_size(src)
            th, tw = s["size"]
            if H < th or W < tw:
                raise _Skip("does not fit")
            if s.get("p") is not None:
                return
            x = coord_tensor(th, tw)
        elif k == "rrc":
            if s.get("p") is not None:
                return
            x = coord_tensor(*s["size"])
        elif k == "choice":
            for alt in s["of"]:
                _hand_fits([alt], x)
            return
        elif k == "patchify":
            H, W = img_size(x)
            if H % s["ph"] or W % s["pw"]:
                raise _Skip("not divisible")
            return


def sig_comp(case, real):
    kinds = tuple(None if p is None else tuple(s["t"] + ("?" if s.get("p") is not None else "") for s in p) for n, p in case["configs"])
    return ("comp", case["host"], case.get("base", "plain"), case.get("hist", "fresh"), case.get("peer"), case.get("access", "mode"), case.get("kind"),
            kinds, tuple(min(n, 3) for n, p in case["configs"]), real.get("out"))


def _gen_crop_step(rng, h, w, small=True):
    """a KDRandomCrop step that fits an h x w input; returns (step, out_h, out_w)"""
    pr = rng.random()
    padding = None if pr < 0.5 else (rng.randint(0, 3) if pr < 0.75 else [rng.randint(0, 3), rng.randint(0, 3)])
    pin = rng.random() < 0.25
    th = rng.randint(1, max(1, h - 2)) if small else rng.randint(1, h)
    tw = rng.randint(1, max(1, w - 2)) if small else rng.randint(1, w)
    if pin and rng.random() < 0.5:
        th = h + rng.randint(0, 3)
    mode = rng.choice(["constant", "constant", "edge"])
    if not pin and min(h, w) > 4 and rng.random() < 0.2:
        mode = "reflect"
    return {"t": "crop", "size": [th, tw], "padding": padding, "pin": pin, "mode": mode, "fill": rng.choice([0, 0, 7])}, th, tw


def _gen_rrc_step(rng, size=None):
    s = size or [rng.randint(2, 12), rng.randint(2, 12)]
    return {"t": "rrc", "size": list(s), "scale": rng.choice([[0.08, 1.0], [0.2, 1.0], [0.5, 0.9]]), "ratio": rng.choice([[0.75, 4.0 / 3.0], [1.0, 1.0], [0.5, 2.0]]),
            "interp": rng.choice(["bilinear", "bicubic", "nearest"])}


def gen_pipe(rng, hmin, wmin, host):
    """a pipeline whose crops fit every image of at least hmin x wmin"""
    r = rng.random()
    if r < 0.22:
        return [_gen_crop_step(rng, hmin, wmin)[0]]
    if r < 0.40:
        return [_gen_rrc_step(rng)]
    if r < 0.48 and host != "compose":
        s, th, tw = _gen_crop_step(rng, hmin, wmin)
        dy = [None, 0.125, 0.25, 0.5, 1.0]
        a, b = rng.choice(dy), rng.choice(dy)
        if a is not None and b is not None and a > b:
            a, b = b, a
        s.update(t="two", omin=a, omax=b, tries=rng.choice([1, 3, 20]))
        return [s]
    if r < 0.54:
        s = rng.choice([3, 4, 6, 8])
        return [{"t": "simple", "rsize": s, "size": [s, s], "padding": rng.choice([2, 1, 0, None]), "mode": rng.choice(["constant", "edge"]),
                 "interp": rng.choice(["bicubic", "bilinear", "nearest"]), "pin": False}]
    if r < 0.72:
        # (crop | resized crop) to a multiple of the patch size -> patchify -> shuffle
        ph, pw = rng.choice([1, 2, 3, 4]), rng.choice([1, 2, 3, 4])
        lh, lw = rng.randint(1, max(1, min(4, hmin // ph))), rng.randint(1, max(1, min(4, wmin // pw)))
        if rng.random() < 0.6 and ph * lh <= hmin and pw * lw <= wmin:
            first = {"t": "crop", "size": [ph * lh, pw * lw], "padding": rng.choice([None, None, 1]), "pin": False, "mode": "constant", "fill": 0}
        else:
            first = _gen_rrc_step(rng, [ph * lh, pw * lw])
        return [first, {"t": "patchify", "ph": ph, "pw": pw}, {"t": "shuffle"}]
    if r < 0.80:
        first = _gen_rrc_step(rng, [rng.randint(4, 12), rng.randint(4, 12)])
        return [first, _gen_crop_step(rng, first["size"][0], first["size"][1])[0]]
    if r < 0.86:
        steps = [_gen_crop_step(rng, hmin, wmin)[0], {"t": "hflip"}]
        if rng.random() < 0.5:
            steps.reverse()
        return steps
    if r < 0.93:
        s = _gen_crop_step(rng, hmin, wmin)[0] if rng.random() < 0.5 else _gen_rrc_step(rng)
        s["p"] = rng.choice([0.5, 0.5, 1.0, 0.0])
        return [s]
    return [{"t": "choice", "of": [_gen_crop_step(rng, hmin, wmin)[0], _gen_rrc_step(rng)]}]


def gen_comp(rng, big=False):
    host = rng.choice(["multiview"] * 6 + ["xwrap"] * 2 + ["compose"] * 2)
    n_img = 1 if host == "compose" else rng.randint(1, 3)
    images = [[rng.randint(4, 40), rng.randint(4, 40)] for _ in range(n_img)]
    if rng.random() < 0.25:
        images[0] = rng.choice([[32, 32], [17, 40], [40, 17], [4, 4], [5, 40]])
    hmin, wmin = min(i[0] for i in images), min(i[1] for i in images)
    case = {"fam": "comp", "host": host, "images": images, "kind": rng.choice(["tensor", "tensor", "pil", "pil", "f32", "f64", "gray"]),
            "seed": rng.choice([None, rng.randint(0, 10 ** 6), rng.randint(0, 10 ** 6)]) if host != "compose" else rng.randint(0, 10 ** 6),
            "form": rng.choice(["tuple", "tuple", "dict", "cfg", "list"])}
    if host == "multiview":
        n_cfg = rng.choice([1, 1, 2, 2, 3])
        configs = []
        for _ in range(n_cfg):
            n = rng.choice([1, 2, 2, 3, 4])
            pipe = None if rng.random() < 0.08 else gen_pipe(rng, hmin, wmin, host)
            configs.append([n, pipe])
        if n_cfg > 1 and rng.random() < 0.2:
            configs[-1][1] = configs[0][1]
            case["share_transform"] = True
        case["configs"] = configs
    elif host == "xwrap":
        case["configs"] = [[1, gen_pipe(rng, hmin, wmin, host)]]
    else:
        case["configs"] = [[rng.choice([2, 3, 4]), gen_pipe(rng, hmin, wmin, host)]]
    case["hist"] = rng.choice(["fresh", "fresh", "pickle", "deepcopy"] + (["noctx"] if host == "compose" else []))
    if host != "compose":
        case["access"] = rng.choice(["mode", "mode", "getitem", "modeidx"])
        case["base"] = rng.choice(["plain", "plain", "subset", "xflip", "xidentity"])
        n = n_img
        if case["base"] == "subset":
            idxs = list(range(n_img)) + [rng.randrange(n_img) for _ in range(rng.randint(0, 2))]
            rng.shuffle(idxs)
            case["indices"] = idxs
            n = len(idxs)
        order = list(range(n))
        rng.shuffle(order)
        if rng.random() < 0.4:
            order.append(order[0])       # the same sample once more
        case["order"] = order[:4]
        pr = rng.random()
        if pr < 0.2:
            case["peer"] = "same"
        elif pr < 0.4:
            case["peer"] = "other"
            if host == "multiview":
                case["peer_configs"] = [[rng.choice([1, 2, 3]), gen_pipe(rng, hmin, wmin, host)] for _ in range(rng.choice([1, 2]))]
            else:
                case["peer_configs"] = [[1, gen_pipe(rng, hmin, wmin, host)]]
    return case


def comp_sweep_cases():
    """structured part: every recording pipeline x n_views 1..3 x host, two images, plain history"""
    crop = {"t": "crop", "size": [16, 12], "padding": 3, "pin": True, "mode": "constant", "fill": 0}
    rrc = {"t": "rrc", "size": [8, 10], "scale": [0.2, 1.0], "ratio": [0.75, 4.0 / 3.0], "interp": "bilinear"}
    two = {"t": "two", "size": [9, 9], "padding": None, "pin": False, "mode": "constant", "fill": 0, "omin": None, "omax": None, "tries": 3}
    patch = [{"t": "crop", "size": [12, 8], "padding": None, "pin": False, "mode": "constant", "fill": 0}, {"t": "patchify", "ph": 4, "pw": 2}, {"t": "shuffle"}]
    simple = {"t": "simple", "rsize": 8, "size": [8, 8], "padding": 2, "mode": "constant", "interp": "bilinear", "pin": False}
    out = []
    pipes = [[crop], [rrc], [two], patch, [simple], [rrc, {"t": "crop", "size": [5, 6], "padding": None, "pin": False, "mode": "constant", "fill": 0}]]
    for k, pipe in enumerate(pipes):
        for n in (1, 2, 3):
            for kind in ("tensor", "pil"):
                out.append({"fam": "comp", "host": "multiview", "images": [[32, 32], [17, 40]], "kind": kind, "seed": k + n, "form": "tuple",
                            "configs": [[n, pipe], [1, [{"t": "crop", "size": [8, 8], "padding": None, "pin": False, "mode": "constant", "fill": 0}]]],
                            "hist": "fresh", "access": "mode" if n != 2 else "getitem", "base": "plain", "order": [0, 1]})
            if pipe[0]["t"] != "two":
                out.append({"fam": "comp", "host": "compose", "images": [[24, 20]], "kind": "tensor", "seed": k, "form": "tuple", "configs": [[n + 1, pipe]],
                            "hist": "fresh"})
        out.append({"fam": "comp", "host": "xwrap", "images": [[32, 32], [17, 40]], "kind": "tensor", "seed": k, "form": "tuple", "configs": [[1, pipe]],
                    "hist": "fresh", "access": "mode", "base": "plain", "order": [0, 1, 0]})
    return out


# ----------------------------------------------------------------------------------------------
# family: mgrid -- the by-hand vocabulary of lean/KDVerif/Model/C14Spec.lean run against the real transforms
#   The theorems `crop_recorded_params_reproduce_output`, `two_crop_recorded_params_reproduce_outputs`, `erase_changes_exactly_the_recorded_boxes`,
#   `semseg pad` cells ... are stated over `applyPads` / `Grid.padWith` / `Grid.cropBox` / `padCropCell` / `paddedCell` / `erasePaste` /
#   `Grid.pasteBox` / `eraseSpecCell`.  Here the REAL transform runs on a small integer image with distinct cell values (r*W+c+1), the parameters it
#   recorded (ctx box(es); for erasing / the segmentation crop, which record nothing, the boxes read from the tape) go with the input grid to the driver
#   ops `geo.padcrop` / `geo.erasepaste`, and the model's output grids -- the operational one and the closed-form matrix -- are compared cell by cell
#   with the real output.  The pad calls are the model's own (`padSeq` of the configuration / `semsegPad`).  Only constant padding with an integer fill
#   and erasing mode `zeros` are in the model's scope: other modes run the real code and are counted as skipped.
#   Independent oracle (no model): the same by-hand application in plain Python lists.
# ----------------------------------------------------------------------------------------------
MG_CROPS = ("KDRandomCrop", "KDTwoRandomCrop", "KDSimpleRandomCrop")


def mg_tensor(h, w, dtype="float32", base=1):
    return (torch.arange(h * w).view(1, h, w) + base).to(getattr(torch, dtype)).contiguous()


def mg_list(t):
    """(1, h, w) / (h, w) tensor -> rows of ints (a non-integral value stays a float and can never equal a model cell)"""
    a = as_tensor(t)
    a = a[0] if a.dim() == 3 else a
    return [[int(v) if float(v).is_integer() else float(v) for v in row] for row in a.tolist()]


def mg_pads(case, h, w):
    """the [l, t, r, b] amounts of the pad calls the configuration asks for (torchvision's reading of the padding argument)"""
    th, tw = case["size"]
    p = case.get("padding")
    out = []
    if p is not None:
        p = [p] if isinstance(p, int) else list(p)
        out.append([p[0]] * 4 if len(p) == 1 else ([p[0], p[1], p[0], p[1]] if len(p) == 2 else p))
    H = h + sum(q[1] + q[3] for q in out)
    W = w + sum(q[0] + q[2] for q in out)
    if case.get("pin") and W < tw:
        out.append([tw - W, 0, tw - W, 0])
    if case.get("pin") and H < th:
        out.append([0, th - H, 0, th - H])
    return out


def py_pad(g, q, fill):
    l, t, r, b = q
    width = (len(g[0]) if g else 0) + l + r
    return [[fill] * width for _ in range(t)] + [[fill] * l + list(row) + [fill] * r for row in g] + [[fill] * width for _ in range(b)]


def py_crop(g, box):
    i, j, h, w = box
    return [list(row[j:j + w]) for row in g[i:i + h]]


def mg_tape_boxes(case, log):
    """boxes of KDRandomErasing straight from the tape: (uniform, uniform, integers, integers) = an accepted attempt at (top, left)"""
    props = erase_front(case, log)
    boxes, k, ui = [], 0, 0
    while k < len(log):
        if log[k][0] == "u" and k + 1 < len(log) and log[k + 1][0] == "u":
            h, w = props[ui]
            ui += 1
            if k + 3 < len(log) and log[k + 2][0] == "i" and log[k + 3][0] == "i":
                boxes.append([log[k + 2][3], log[k + 3][3], h, w])
                k += 4
            else:
                k += 2
        else:
            k += 1
    return boxes


def run_mgrid(case):
    sub = case["sub"]
    log = []
    real = {"log": log}
    if sub == "crop":
        try:
            t = build_crop(case)
            t.set_rng(RecRng(case["seed"], log))
        except Exception as e:
            real["out"] = "ctor:" + type(e).__name__
            return real
        img = mg_tensor(case["h"], case["w"], case.get("dtype", "float32"))
        try:
            base = hand_resize(img, case) if case["cls"] == "KDSimpleRandomCrop" else img
            real["grid"] = mg_list(base)
            if case.get("mode", "constant") == "constant":
                real["hand"] = mg_list(hand_pad(base, case))
        except Exception as e:
            real["out"] = f"skipped(hand:{type(e).__name__})"     # a configuration torchvision itself refuses
            return real
        ctx = {}
        try:
            y = t(img.clone(), ctx=ctx)
            _same_object_again(t, img, case["seed"])
        except Exception as e:
            mode = case.get("mode", "constant")
            real["out"] = exc_kind(e) if mode == "constant" else f"skipped(mode={mode}, {type(e).__name__})"
            real["msg"] = str(e)[:200]
            return real
        if case["cls"] == "KDTwoRandomCrop":
            c = ctx.get("two_random_crop") or {}
            real["boxes"] = [[c.get(k) for k in ("i0", "j0", "h0", "w0")], [c.get(k) for k in ("i1", "j1", "h1", "w1")]]
            ys = list(y) if isinstance(y, (list, tuple)) else [y]
        else:
            c = ctx.get("random_crop") or {}
            real["boxes"] = [[c.get(k) for k in "ijhw"]]
            ys = [y]
        real["ys"] = [mg_list(v) for v in ys]
        mode = case.get("mode", "constant")
        real["out"] = "ok" if mode == "constant" else f"skipped(mode={mode})"
        return real
    if sub == "erase":
        import kappadata.transforms as T
        try:
            t = T.KDRandomErasing(p=case["p"], min_area=case["min_area"], max_area=case["max_area"], min_aspect=case["min_aspect"],
                                  max_aspect=case.get("max_aspect"), mode=case["mode"], min_count=case["minc"], max_count=case.get("maxc"))
            t.set_rng(RecRng(case["seed"], log))
        except Exception as e:
            real["out"] = "ctor:" + type(e).__name__
            return real
        x = mg_tensor(case["H"], case["W"], "float32")
        real["grid"] = mg_list(x)
        try:
            y = t(x.clone(), ctx={})
        except Exception as e:
            real["out"] = exc_kind(e)
            real["msg"] = str(e)[:200]
            return real
        real["boxes"] = mg_tape_boxes(case, log)
        if case["mode"] != "zeros":
            real["out"] = f"skipped(mode={case['mode']})"        # the pasted values are normal draws: not an integer grid
            return real
        real["ys"] = [mg_list(y)]
        real["out"] = "ok"
        return real
    if sub in ("spad", "scrop"):
        import kappadata.transforms.semseg as S
        H, W = case["H"], case["W"]
        x = mg_tensor(H, W, case.get("dtype", "float32"))
        seg = mg_tensor(H, W, "int64", base=100)[0]
        real["grid"], real["sgrid"] = mg_list(x), mg_list(seg)
        try:
            t = S.KDSemsegPad(size=tuple(case["size"])) if sub == "spad" else S.KDSemsegRandomCrop(size=tuple(case["size"]))
            t.set_rng(RecRng(case["seed"], log))
            xo, so = t((x.clone(), seg.clone()), ctx={})
        except Exception as e:
            real["out"] = exc_kind(e)
            real["msg"] = str(e)[:200]
            return real
        real["ys"] = [mg_list(xo), mg_list(so)]
        if sub == "scrop":
            ints = [e[3] for e in log if e[0] == "i"]
            real["boxes"] = [[ints[-2], ints[-1], min(H, case["size"][0]), min(W, case["size"][1])]] if len(ints) >= 2 else [[None] * 4]
        real["out"] = "ok"
        return real
    raise KeyError(sub)


def mg_boxes_ok(real):
    return all(isinstance(v, int) and not isinstance(v, bool) and v >= 0 for b in real.get("boxes", []) for v in b)


def req_mgrid(case, real):
    if real.get("out") != "ok" or not mg_boxes_ok(real):
        return None
    sub = case["sub"]
    if sub == "crop":
        pad = case.get("padding")
        return {"op": "geo.padcrop", "grid": real["grid"], "fill": case.get("fill", 0), "th": case["size"][0], "tw": case["size"][1],
                "padding": [pad] if isinstance(pad, int) else pad, "pin": bool(case.get("pin")), "boxes": real["boxes"]}
    if sub == "erase":
        return {"op": "geo.erasepaste", "grid": real["grid"], "boxes": real["boxes"], "values": [0] * len(real["boxes"])}
    if sub == "spad":
        return [{"op": "geo.padcrop", "grid": g, "fill": f, "semseg": case["size"], "boxes": []} for g, f in ((real["grid"], 0), (real["sgrid"], -1))]
    return [{"op": "geo.padcrop", "grid": g, "fill": 0, "pads": [], "boxes": real["boxes"]} for g in (real["grid"], real["sgrid"])]


def views_mgrid(case, real, model):
    """model grids (operational and closed form) against the real output, cell by cell"""
    sub = case["sub"]
    ys = real["ys"]
    if sub == "crop":
        mv = {"op": [o["op"] for o in model["outs"]], "spec": [o["spec"] for o in model["outs"]], "padded": model["padded"],
              "paddedSpec": model["paddedSpec"], "pads": model["pads"]}
        iv = {"op": ys, "spec": ys, "padded": real["hand"], "paddedSpec": real["hand"],
              "pads": mg_pads(case, len(real["grid"]), len(real["grid"][0]) if real["grid"] else 0)}
    elif sub == "erase":
        mv = {"op": [model["op"]], "spec": [model["spec"]]}
        iv = {"op": ys, "spec": ys}
    elif sub == "spad":
        mv = {"op": [m["padded"] for m in model], "spec": [m["paddedSpec"] for m in model]}
        iv = {"op": ys, "spec": ys}
    else:
        mv = {"op": [m["outs"][0]["op"] for m in model], "spec": [m["outs"][0]["spec"] for m in model]}
        iv = {"op": ys, "spec": ys}
    return mv, iv


def oracle_mgrid(case, real):
    """independent of the model: the recorded parameters applied to the input by hand (plain lists) give the output"""
    if real.get("out") != "ok":
        return None
    sub, cls = case["sub"], case["cls"]
    tag = f"{cls} on the integer image {json.dumps(real['grid'])} with {json.dumps({k: v for k, v in case.items() if k not in ('fam', 'sub', 'cls')})}"
    ys, boxes = real["ys"], real.get("boxes", [])
    if sub == "spad":
        H, W = case["H"], case["W"]
        ph, pw = max(0, case["size"][0] - H), max(0, case["size"][1] - W)
        q = [pw // 2, ph // 2, pw - pw // 2, ph - ph // 2]
        for name, g, f, y in (("image", real["grid"], 0, ys[0]), ("mask", real["sgrid"], -1, ys[1])):
            if py_pad(g, q, f) != y:
                return Failure(f"mgrid:{cls}:cells", f"padded {name} is not the input centred in the target with fill {f} (pad {q}): got {json.dumps(y)}: {tag}", case,
                               py_pad(g, q, f), y)
        return None
    if any(v is None for b in boxes for v in b):
        return Failure(f"mgrid:{cls}:ctx-missing", f"the parameters are not recorded: {tag}", case, "i,j,h,w", boxes)
    if not mg_boxes_ok(real):
        return Failure(f"mgrid:{cls}:recorded-box", f"recorded box(es) {boxes} are not non-negative integers: {tag}", case, ">= 0", boxes)
    if sub == "erase":
        want = [list(r) for r in real["grid"]]
        for i, j, h, w in boxes:
            for r in range(i, min(i + h, len(want))):
                for c in range(j, min(j + w, len(want[r]))):
                    want[r][c] = 0
        if want != ys[0]:
            return Failure(f"mgrid:{cls}:cells", f"output {json.dumps(ys[0])} is not the input with the drawn boxes {boxes} set to 0: {tag}", case, want, ys[0])
        return None
    if sub == "scrop":
        for name, g, y in (("image", real["grid"], ys[0]), ("mask", real["sgrid"], ys[1])):
            if py_crop(g, boxes[0]) != y:
                return Failure(f"mgrid:{cls}:cells", f"{name} output {json.dumps(y)} is not the drawn box {boxes[0]} of the input: {tag}", case, py_crop(g, boxes[0]), y)
        return None
    g = real["grid"]
    for q in mg_pads(case, len(g), len(g[0]) if g else 0):
        g = py_pad(g, q, case.get("fill", 0))
    if len(ys) != len(boxes):
        return Failure(f"mgrid:{cls}:output-count", f"{len(ys)} outputs for {len(boxes)} recorded boxes: {tag}", case, len(boxes), len(ys))
    for k, (b, y) in enumerate(zip(boxes, ys)):
        if py_crop(g, b) != y:
            return Failure(f"mgrid:{cls}:cells", f"output {k} {json.dumps(y)} is not the recorded box {b} of the padded input {json.dumps(g)}: {tag}", case,
                           py_crop(g, b), y)
    return None


def sig_mgrid(case, real):
    ys = real.get("ys") or [[]]
    fill = 0 if case["sub"] != "crop" else case.get("fill", 0)
    shows_fill = any(v == fill for row in ys[0] for v in row)
    shows_input = any(v != fill for row in ys[0] for v in row)
    pad = case.get("padding")
    return ("mgrid", case["cls"], case.get("mode"), real.get("out"), pad is not None and len(np.atleast_1d(pad)), bool(case.get("pin")),
            len(real.get("boxes", [])), shows_fill, shows_input, case.get("dtype"), min(len(ys[0]), 4), min(len(ys[0][0]) if ys[0] else 0, 4))


def gen_mgrid(rng, big=False):
    r = rng.random()
    seed = rng.randint(0, 10 ** 6)
    if r < 0.62:
        cls = rng.choice(["KDRandomCrop"] * 3 + ["KDTwoRandomCrop"] * 2 + ["KDSimpleRandomCrop"])
        h, w = rng.randint(1, 9), rng.randint(1, 9)
        pr = rng.random()
        if pr < 0.25:
            padding = None
        elif pr < 0.5:
            padding = rng.randint(0, 3)
        elif pr < 0.75:
            padding = [rng.randint(0, 3), rng.randint(0, 3)]
        else:
            padding = [rng.randint(0, 3) for _ in range(4)]
        dtype = rng.choice(["float32", "float32", "int64", "uint8"])
        case = {"fam": "mgrid", "sub": "crop", "cls": cls, "h": h, "w": w, "padding": padding, "pin": rng.random() < 0.4,
                "mode": rng.choice(["constant"] * 5 + ["edge", "reflect", "symmetric"]), "dtype": dtype,
                "fill": rng.choice([0, 0, 7, 200] + ([] if dtype == "uint8" else [-3])), "kind": "tensor", "seed": seed}
        if cls == "KDSimpleRandomCrop":
            s = rng.randint(2, 6)
            case.update(rsize=s, interp="nearest", dtype="float32", h=rng.randint(s, 9), w=rng.randint(s, 9))
            if case["fill"] == -3 and rng.random() < 0.5:
                case["fill"] = 0
            bh = bw = s
        else:
            bh, bw = h, w
        q = mg_pads({"size": [0, 0], "padding": padding}, bh, bw)
        PH, PW = bh + sum(p[1] + p[3] for p in q), bw + sum(p[0] + p[2] for p in q)
        if cls == "KDSimpleRandomCrop":
            case["size"] = [s, s]
        elif case["pin"]:
            case["size"] = [rng.randint(1, PH + 3), rng.randint(1, PW + 3)]
        else:
            case["size"] = [rng.randint(1, PH), rng.randint(1, PW)]
        if cls == "KDTwoRandomCrop":
            case.update(omin=rng.choice([None, 0.125, 0.25]), omax=rng.choice([None, 0.75, 1.0]), tries=rng.choice([1, 3, 20]))
        return case
    if r < 0.87:
        H, W = rng.randint(2, 9), rng.randint(2, 9)
        minc = rng.choice([1, 1, 2, 3])
        a0, a1 = rng.choice([(0.02, 1 / 3), (0.1, 0.5), (0.3, 1.0), (0.02, 1 / 3)])
        return {"fam": "mgrid", "sub": "erase", "cls": "KDRandomErasing", "H": H, "W": W, "p": rng.choice([1.0, 1.0, 1.0, 0.5]), "min_area": a0, "max_area": a1,
                "min_aspect": rng.choice([0.3, 0.3, 0.1, 1.0]), "max_aspect": rng.choice([None, None, 2.0]),
                "mode": rng.choice(["zeros"] * 5 + ["channelwise", "pixelwise"]), "minc": minc, "maxc": rng.choice([None, None, minc + 2]), "seed": seed}
    H, W = rng.randint(1, 9), rng.randint(1, 9)
    sub = rng.choice(["spad", "scrop"])
    return {"fam": "mgrid", "sub": sub, "cls": "KDSemsegPad" if sub == "spad" else "KDSemsegRandomCrop", "H": H, "W": W,
            "size": [rng.randint(1, 11), rng.randint(1, 11)], "dtype": rng.choice(["float32", "int64", "uint8"]), "seed": seed}


# ----------------------------------------------------------------------------------------------
# the check
# ----------------------------------------------------------------------------------------------
FAMS = {
    "crop": (gen_crop, run_crop, req_crop, views_crop, oracle_crop, sig_crop),
    "rrc": (gen_rrc, run_rrc, req_rrc, views_rrc, oracle_rrc, sig_rrc),
    "erase": (gen_erase, run_erase, req_erase, views_erase, oracle_erase, sig_erase),
    "spec": (gen_spec, run_spec, req_spec, views_spec, oracle_spec, sig_spec),
    "semseg": (gen_semseg, run_semseg, req_semseg, views_semseg, oracle_semseg, sig_semseg),
    "patch": (gen_patch, run_patch, req_patch, views_patch, oracle_patch, sig_patch),
    "norm": (gen_norm, run_norm, req_norm, views_norm, oracle_norm, sig_norm),
    "misc": (gen_misc, run_misc, req_misc, views_misc, oracle_misc, sig_misc),
    "comp": (gen_comp, run_comp, req_comp, views_comp, oracle_comp, sig_comp),
    "mgrid": (gen_mgrid, run_mgrid, req_mgrid, views_mgrid, oracle_mgrid, sig_mgrid),
}
QUICK = {"crop": 420, "rrc": 260, "erase": 260, "spec": 260, "semseg": 420, "patch": 260, "norm": 120, "misc": 250, "comp": 320, "mgrid": 360}


def sweep_cases():
    """structured small-scope sweep: every size relation (≪, -1, =, +1, ≫) in both dimensions for the crop classes, the pair
    transforms and the patch sizes"""
    out = []
    for th in (1, 4, 8, 33):
        for dh in (-3, -1, 0, 1, 7):
            for dw in (-3, -1, 0, 1, 7):
                h, w = th + dh, th + dw
                if not (1 <= h <= 40 and 1 <= w <= 40):
                    continue
                for padding, pin in ((None, False), (2, False), (None, True), ([1, 0, 2, 3], True)):
                    for cls in ("KDRandomCrop", "KDTwoRandomCrop"):
                        c = {"fam": "crop", "cls": cls, "h": h, "w": w, "size": [th, th], "padding": padding, "pin": pin, "mode": "constant",
                             "kind": "tensor" if (h + w) % 2 else "pil", "seed": 7 * h + w}
                        if cls == "KDTwoRandomCrop":
                            c.update(omin=0.25, omax=0.75, tries=3)
                        out.append(c)
                for sub in ("crop", "pad", "pipe"):
                    out.append({"fam": "semseg", "sub": sub, "H": h, "W": w, "size": [th, th], "p": 0.5, "kind": "tensor", "seed": 11 * h + w})
    for ph in (1, 2, 3):
        for pw in (1, 2, 4):
            for lh in (1, 2, 3):
                for lw in (1, 3):
                    for sub in ("image", "plain", "shuffle", "patchwise"):
                        out.append({"fam": "patch", "sub": sub, "c": 2, "H": ph * lh, "W": pw * lw, "ph": ph, "pw": pw, "seed": ph + 3 * lh})
    return out + wpipe_sweep_cases() + comp_sweep_cases()


def eval_cases(driver, cases):
    """runs the real code, the model and the oracle on the cases; yields (case, real, model_view, impl_view, failure, error)"""
    reals, reqs = [], []
    for c in cases:
        gen, run, req, views, oracle, sig = FAMS[c["fam"]]
        try:
            r = run(c)
            q = req(c, r)
        except Exception as e:   # the harness could not drive the (changed) code
            r, q = {"log": [], "out": f"harness:{type(e).__name__}: {e}"[:300]}, None
        reals.append(r)
        reqs.append(q)
    flat = []
    for q in reqs:
        if q is not None:
            flat += q if isinstance(q, list) else [q]
    answers = driver.run(flat) if flat else []
    k = 0
    for c, r, q in zip(cases, reals, reqs):
        gen, run, req, views, oracle, sig = FAMS[c["fam"]]
        mv = iv = None
        err = None
        if q is not None:
            if isinstance(q, list):
                a = answers[k:k + len(q)]
                k += len(q)
                bad = [x["error"] for x in a if "error" in x]
            else:
                a = answers[k]
                k += 1
                bad = [a["error"]] if "error" in a else []
            if bad:
                mv, iv = {"driver": bad}, None
            else:
                try:
                    mv, iv = views(c, r, a)
                except Exception as e:
                    err = f"views: {type(e).__name__}: {e}"
        if str(r.get("out", "")).startswith("harness:"):
            err = r["out"]
        f = None
        if err is None:
            try:
                f = oracle(c, r)
            except Exception as e:
                err = f"oracle: {type(e).__name__}: {e}"
        yield c, r, mv, iv, f, err


class C14(PropertyCheck):
    pid = "C14"
    claimed = True
    props_modules = ["KDVerif.Props.C14", "KDVerif.Gen.Patterns"]
    extra_build = ["KDVerif.Driver.Geometry"]
    driver_main = "mains/Geometry.lean"
    design_ref = "DESIGN.md 3 (C14)"
    technique = "Lean 4 proof over hand model (integer cores + generated einops patterns) + differential correspondence with recorded RNG tape"
    anchored = [
        "kappadata/transforms/kd_random_crop.py", "kappadata/transforms/kd_two_random_crop.py", "kappadata/transforms/kd_random_resized_crop.py",
        "kappadata/transforms/kd_simple_random_crop.py", "kappadata/transforms/kd_random_erasing.py", "kappadata/transforms/audio/kd_spec_augment.py",
        "kappadata/transforms/semseg/kd_semseg_overlapped_multi_crop.py", "kappadata/transforms/semseg/kd_semseg_pad.py",
        "kappadata/transforms/semseg/kd_semseg_random_crop.py", "kappadata/transforms/semseg/kd_semseg_random_horizontal_flip.py",
        "kappadata/transforms/semseg/kd_semseg_random_resize.py", "kappadata/transforms/semseg/kd_semseg_random_resize_old.py",
        "kappadata/transforms/semseg/kd_semseg_resize.py", "kappadata/wrappers/sample_wrappers/semseg_transform_wrapper.py",
        "kappadata/transforms/patchify_image.py", "kappadata/transforms/unpatchify_image.py", "kappadata/transforms/patchify.py",
        "kappadata/transforms/unpatchify.py", "kappadata/transforms/patchwise_shuffle.py", "kappadata/transforms/patchwise_transform.py",
        "kappadata/transforms/norm/kd_image_norm.py", "kappadata/transforms/norm/kd_image_range_norm.py", "kappadata/transforms/norm/kd_norm_base.py",
        "kappadata/utils/bounding_box_utils.py", "kappadata/utils/transform_utils.py", "kappadata/utils/random.py",
        "kappadata/transforms/base/kd_random_apply_base.py",
        "kappadata/wrappers/sample_wrappers/kd_multi_view_wrapper.py", "kappadata/wrappers/sample_wrappers/x_transform_wrapper.py",
        "kappadata/wrappers/sample_wrappers/base/transform_wrapper_base.py", "kappadata/transforms/base/kd_compose_transform.py",
        "kappadata/transforms/kd_random_apply.py", "kappadata/transforms/kd_transform_choice.py",
    ]
    assumptions = [
        "numpy Generator contract: integers(lo, hi) returns lo <= v < hi and raises ValueError when hi <= lo; random() returns 0 <= v < 1; "
        "permutation(n) returns a permutation of range(n)",
        "float front end (sqrt / exp / round of floats, float32 tensor arithmetic of KDSpecAugment) is executed, not reasoned about: the integer cores are "
        "proved for every front-end output; for the resized-crop fallback the front end is assumed order-faithful (correctly rounded division / product "
        "never crosses an integer or a representable bound the exact value does not cross: FrontOk)",
        "torchvision.transforms.functional crop / pad / hflip / resized_crop / resize and einops.rearrange behave as documented (the grid and flat-index "
        "models are compared with them each run); pixel interpolation is not modelled (sizes / geometry only)",
        "float comparison of the two-crop overlap with dyadic thresholds equals the rational comparison; KDSemsegRandomResize sizes are compared except "
        "within 1e-9 of a rounding tie; normalisation is exact over the rationals, the float32 code is compared within 1e-5",
    ]
    trusted_extra = [
        "translator harness/kdv/translate_einops.py (AST: einops.rearrange pattern strings -> Gen/Patterns.lean), cross-checked each run: the real "
        "transforms' outputs on index tensors are compared with the model run on the extracted patterns",
        "modelled by hand: get_params / _pad_image / __call__ of KDRandomCrop, KDTwoRandomCrop (retry loop), KDRandomResizedCrop (accept + fallback), "
        "KDRandomErasing.forward, KDSpecAugment._mask_along_axis, KDSemsegRandomCrop / Pad / RandomResize(Old) / OverlappedMultiCrop, KDRandomApplyBase, "
        "intersection_area_*, PatchwiseShuffle, KDImageNorm / KDImageRangeNorm / get_denorm_transform",
        "not modelled: interpolation of resize / resized_crop, replacement values of erasing, PIL<->tensor conversion, Resize inside KDSimpleRandomCrop "
        "(its output size is measured and handed to the crop model); KDMultiViewWrapper / XTransformWrapper / KDComposeTransform / KDRandomApply / "
        "KDTransformChoice plumbing (which ctx entry belongs to which view): no Lean model, judged by the independent oracle only (family `comp`)",
    ]
    level_text = ("Lean theorems (KDVerif.Props.C14) for all image sizes, targets, paddings and all tapes satisfying the integers(lo,hi) contract: crop box in "
                  "bounds with exactly the requested size, rejection iff more than one pixel too small (1-pixel edge = generator ValueError), pad_if_needed "
                  "reaches the size; both boxes of the two-crop in bounds, overlap = IoU within the thresholds unless out_of_tries; resized-crop accept "
                  "branch in bounds with positive extent, fallback in bounds for every order-faithful front end; erase boxes, spec masks (< mask_param, inside "
                  "the axis), segmentation crop / pad / multi-crop grid in bounds with the stated sizes; crop/pad/flip on grids give the requested shape and "
                  "keep image and mask aligned through any pipeline; rearrange(swap p) . rearrange p = id for every well-formed pattern, instantiated on the "
                  "pattern strings regenerated from the source each run (swap obligations by decide); gather(argsort pi) . gather pi = id; denorm . norm = id "
                  "for std != 0. Model tied to the code each run: recorded RNG tape -> model parameters = ctx parameters; torchvision.functional applied by "
                  "hand with the ctx reproduces the output exactly; einops vs flat-index model; independent oracle on every case.")
    level_note = ("partial: rrc_fallback_positive_partial (zero-extent fallback box for extreme ratio ranges is excluded, witness in the file, reported as "
                  "out-of-claim observation); float front ends executed not proved; KDRandomErasing records nothing in ctx (its boxes are read from the tape)")

    def generate(self):
        pats, bad, changed = te.generate()
        _PATS.clear()
        _PATS.update(pats)
        self.gen_problems = bad
        return {"patterns": {n: pats[n]["raw"] for n in te.ORDER}, "changed": changed, "obligations_failing_in_python": bad}

    # ---- cases ---------------------------------------------------------------------------------
    def cases(self):
        corpus = []
        cdir = CORPUS_DIR / "geometry"
        if cdir.exists():
            for p in sorted(cdir.glob("*.json")):
                d = json.loads(p.read_text())
                corpus += d if isinstance(d, list) else [d]
        sweep = sweep_cases()
        if self.tier == "quick":
            always = lambda c: c["fam"] == "comp" or c.get("sub") == "wpipe"
            fixed = [c for c in sweep if always(c)]        # the structured compositions always run
            sweep = [c for c in sweep if not always(c)]
            self.rng.shuffle(sweep)
            sweep = sweep[:400] + fixed
        mult = 1 if self.tier == "quick" else 8
        rnd = []
        for fam, n in QUICK.items():
            gen = FAMS[fam][0]
            rnd += [gen(self.rng, big=(i % 4 == 0)) for i in range(n * mult)]
        return corpus + sweep + rnd, len(corpus), len(sweep)

    def correspond(self):
        res = CorrResult()
        cases, ncorp, nsweep = self.cases()
        res.rule = (f"{ncorp} corpus + {nsweep} sweep cases (every size relation <<,-1,=,+1,>> of image vs target in both dimensions for the crop classes and the "
                    f"segmentation pad/crop/pipeline, small patch grids{'; sampled' if self.tier == 'quick' else '; complete'}) + seeded random cases per family "
                    "(crops incl. padding modes / pad_if_needed / PIL+tensor, resized crop incl. never-accepting scales and extreme ratios, erasing, spec "
                    "augment, segmentation transforms + SemsegTransformWrapper pipeline (fixed pad/crop/flip against the model; free orders with stochastic image-only transforms in between, members requested together or one after the other, pickled / deep-copied / peer wrappers -- oracle only), patchify/shuffle/unpatchify + random einops patterns, norms, box "
                    "intersection, grid ops, compositions: recording transforms through KDMultiViewWrapper / XTransformWrapper / KDComposeTransform / KDRandomApply / "
                    "KDTransformChoice over plain, subset and transform-wrapped datasets, late judgement of every view's own ctx, pickled / deep-copied and "
                    "peer instances, uint8 / float32 / float64 / 1-channel / PIL inputs -- oracle only, no model; mgrid: the by-hand definitions of Model/C14Spec.lean "
                    "(applyPads / cropBox / padCropCell / paddedCell / erasePaste / eraseSpecCell) run on integer images up to 9x9 with the parameters the real "
                    "KDRandomCrop / KDTwoRandomCrop / KDSimpleRandomCrop / KDRandomErasing / KDSemsegPad / KDSemsegRandomCrop recorded or drew, output grids compared "
                    "cell by cell with the real output, constant padding and erasing mode zeros only, other modes counted as skipped); image sizes 1..40, targets 1..33; distinct = per-family signature (class, input kind, size relations, "
                    "configuration class, branch taken, outcome)")
        res.exhaustive = False
        t_fam = {}
        by_key = {}
        for case, real, mv, iv, f, err in eval_cases(self.driver, cases):
            fam = case["fam"]
            res.cases += 1
            res.bump(f"fam={fam}")
            res.bump(f"{fam}:{case.get('cls') or case.get('sub') or ''}:{str(real.get('out'))[:24]}")
            try:
                res.nontrivial.add(FAMS[fam][5](case, real))
            except Exception:
                pass
            if err is not None:
                if len(res.disagreements) < 50:
                    res.disagreements.append(Disagreement(case, None, None, err))
                continue
            if fam == "mgrid":      # the C14Spec vocabulary against the real output: what was compared, what is outside the model's scope
                if str(real.get("out", "")).startswith("skipped"):
                    res.bump("mgrid:skipped(padding mode / erasing mode outside the model: real code run, not compared)")
                elif mv is not None and iv is not None and "op" in iv:
                    res.bump("mgrid:grids-compared(operational+closed form)", 2 * len(iv["op"]))
                    res.bump("mgrid:cells-compared", 2 * sum(len(row) for y in iv["op"] for row in y))
            if mv is None:
                res.bump("not-compared(out-of-domain for the model)")
            elif mv != iv:
                if len(res.disagreements) < 50:
                    res.disagreements.append(Disagreement(case, mv, iv))
            if "_obs" in real and len(res.observations) < 20:
                res.observations.append(real["_obs"])
            if "_obs" in real:
                res.bump("observation:zero-extent-fallback")
            if f is not None:
                old = by_key.get(f.key)
                if old is None or len(json.dumps(f.input)) < len(json.dumps(old.input)):
                    by_key[f.key] = f
            if len(res.samples) < 4 and real.get("out") == "ok" and fam in ("crop", "rrc", "semseg") and real.get("log") and res.cases % 97 == 0:
                res.samples.append({"case": case, "tape": real["log"][:6], "recorded": {k: v for k, v in real.items() if not k.startswith("_") and k != "log"}})
        res.failures = sorted(by_key.values(), key=lambda f: len(json.dumps(f.input)))
        return res

    # ---- failing-input search / replay -----------------------------------------------------------
    def _oracle_only(self, case):
        gen, run, req, views, oracle, sig = FAMS[case["fam"]]
        return oracle(case, run(case))

    def replay_input(self, inp):
        return self._oracle_only(inp)

    def search(self, budget_s, hints):
        t0 = time.time()
        out, keys = [], set()

        def take(f):
            if f is not None and f.key not in keys:
                keys.add(f.key)
                out.append(f)
        for h in hints:
            if isinstance(h, dict) and h.get("fam") in FAMS:
                try:
                    take(self._oracle_only(h))
                except Exception:
                    pass
        rng = random.Random(self.seed + 1414)
        fams = list(FAMS)
        if getattr(self, "gen_problems", None):
            fams = ["patch"] * 6 + fams         # a broken pattern obligation points at the patch transforms
        for c in sweep_cases():
            if out or time.time() - t0 > budget_s / 2:
                break
            if c["fam"] in fams:
                try:
                    take(self._oracle_only(c))
                except Exception:
                    pass
        while not out and time.time() - t0 < budget_s:
            fam = rng.choice(fams)
            try:
                take(self._oracle_only(FAMS[fam][0](rng)))
            except Exception:
                pass
        return out
