"""C18 — collator pipeline (KDCollatorBase._call_impl, KDSingleCollator, KDComposeCollator, KDSingleCollatorWrapper) and
PadSequencesCollator: case generator, real-code runner, independent property oracle.

A case is a self-contained JSON object
  {"op": "cl.run", "entry": "compose"|"single"|"wrapper"|"direct", "members": [{"kind": "probe", "mode": null|"before"|"after", "key": int|null}
   | {"kind": "pad"}], "rc": bool, "mode": "x class", "idxs": [..], "table": {item: [value per dataset index]}, "ctxkeys": {item: key|null}}
values: {"q": [ints]} 1-d int tensor, {"s": int} python int, {"z": int} 0-dim int tensor.
The batch handed to the collator is built with the real ModeWrapper; the model receives that very batch (canonicalised) as "samples".
"""
import itertools
import json
import random
import time
from pathlib import Path

from .common import CorrResult, Disagreement, Failure, PropertyCheck

MODES = [None, "before", "after"]


# ----------------------------------------------------------------------------------------------
# real code runner
# ----------------------------------------------------------------------------------------------
def _mk_value(v):
    import torch
    if "q" in v:
        return torch.tensor(v["q"], dtype=torch.int64)
    if "z" in v:
        return torch.tensor(v["z"], dtype=torch.int64)
    return int(v["s"])


def build_dataset(case):
    from kappadata.datasets.kd_dataset import KDDataset

    class TableDS(KDDataset):
        def __init__(self, table, ctxkeys):
            super().__init__()
            self.table, self.ctxkeys = table, ctxkeys
            self.n = len(next(iter(table.values())))
            for name in table:
                setattr(self, f"getitem_{name}", self._mk(name))

        def _mk(self, name):
            def getitem(idx, ctx=None):
                key = self.ctxkeys.get(name)
                if ctx is not None and key is not None:
                    ctx[f"k{key}"] = idx * 1000 + key
                return _mk_value(self.table[name][idx])
            return getitem

        def __len__(self):
            return self.n

    return TableDS(case["table"], case.get("ctxkeys", {}))


def canon_value(v):
    """tensor / int / nested containers -> nested python ints"""
    import torch
    if torch.is_tensor(v):
        return v.tolist()
    if isinstance(v, (list, tuple)):
        return [canon_value(x) for x in v]
    if isinstance(v, dict):
        return {"dict": sorted([int(k[1:]) if isinstance(k, str) and k[1:].isdigit() else str(k), canon_value(x)] for k, x in v.items())}
    if isinstance(v, bool):
        return int(v)
    if isinstance(v, int):
        return v
    if isinstance(v, float):
        return v
    return repr(v)


def canon_field(v):
    import torch
    if torch.is_tensor(v) and v.ndim >= 1:
        return {"q": v.tolist()}
    if torch.is_tensor(v):
        return {"s": int(v.item())}
    return {"s": int(v)}


def make_batch(case):
    """the batch a DataLoader would hand to collate_fn: [ModeWrapper(ds, mode, return_ctx)[i] for i in idxs]"""
    from kappadata.wrappers.mode_wrapper import ModeWrapper
    ds = build_dataset(case)
    mw = ModeWrapper(dataset=ds, mode=case["mode"], return_ctx=case["rc"])
    return [mw[i] for i in case["idxs"]]


def samples_of(case, batch):
    """canonical view of the raw batch (input of the model)"""
    k = len(case["mode"].split(" "))
    out = []
    for smp in batch:
        if case["rc"]:
            items, ctx = smp
        else:
            items, ctx = smp, {}
        items = list(items) if k > 1 else [items]
        out.append({"items": [canon_field(v) for v in items],
                    "ctx": sorted([int(key[1:]), int(val)] for key, val in ctx.items())})
    return out


class _Log:
    def __init__(self):
        self.events = []
        self.n_dc = 0


def make_members(case, log, first_kwargs=None):
    from kappadata.collators.base.kd_single_collator import KDSingleCollator
    from kappadata.collators.pad_sequences_collator import PadSequencesCollator

    class Probe(KDSingleCollator):
        """tags nothing in the batch; logs what it is handed and (optionally) writes one ctx key"""

        def __init__(self, mode, key, **kw):
            super().__init__(**kw)
            self._mode, self._key = mode, key

        @property
        def default_collate_mode(self):
            return self._mode

        def collate(self, batch, dataset_mode, ctx=None):
            seen = None if ctx is None else sorted(int(k[1:]) for k in ctx)
            log.events.append(["m", log.n_dc, seen])
            if ctx is not None and self._key is not None:
                ctx[f"k{self._key}"] = -self._key
            return batch

    out = []
    for i, m in enumerate(case["members"]):
        kw = dict(first_kwargs or {}) if i == 0 else {}
        if m["kind"] == "pad":
            out.append(PadSequencesCollator(**kw))
        else:
            out.append(Probe(m["mode"], m.get("key"), **kw))
    return out


class _PatchDC:
    """counts default_collate by replacing the name in kd_collator_base (the only place _call_impl resolves it)"""

    def __init__(self, log):
        self.log = log

    def __enter__(self):
        from kappadata.collators.base import kd_collator_base as kb
        self.kb = kb
        self.orig = kb.default_collate
        log, orig = self.log, self.orig

        def counted(batch):
            is_ctx = isinstance(batch, (list, tuple)) and len(batch) > 0 and isinstance(batch[0], dict)
            if is_ctx:
                log.events.append(["dcctx"])
            else:
                log.n_dc += 1
                log.events.append(["dc"])
            return orig(batch)

        kb.default_collate = counted
        return self

    def __exit__(self, *a):
        self.kb.default_collate = self.orig


def classify_exc(e):
    if isinstance(e, AssertionError):
        return "assert"
    if isinstance(e, NotImplementedError):
        return "notimpl"
    return f"exc:{type(e).__name__}"


def _build_collator(case, log):
    """one collator object for the case's entry (fresh members); constructor assertions propagate"""
    from kappadata.collators.base.kd_compose_collator import KDComposeCollator
    from kappadata.collators.base.kd_single_collator_wrapper import KDSingleCollatorWrapper
    entry = case["entry"]
    if entry == "compose":
        return KDComposeCollator(make_members(case, log), dataset_mode=case["mode"], return_ctx=case["rc"])
    if entry == "single":
        return make_members(case, log, dict(dataset_mode=case["mode"], return_ctx=case["rc"]))[0]
    if entry == "wrapper":
        return KDSingleCollatorWrapper(make_members(case, log)[0], dataset_mode=case["mode"], return_ctx=case["rc"])
    if entry == "direct":
        m = make_members(case, log)[0]
        return lambda b: m.collate(b, case["mode"], None)
    raise ValueError(entry)


def run_real(case):
    """same answer layout as the Lean driver's cl.run"""
    import copy
    log = _Log()
    batch = make_batch(case)
    entry = case["entry"]
    try:
        coll = _build_collator(case, log)
        # "warm_on" = "twin": the earlier batches are collated by a SECOND, identically configured collator object that
        # stays alive (state shared between instances / class- or process-level caches)
        warm_coll = _build_collator(case, log) if case.get("warm_on") == "twin" else coll
    except AssertionError:
        return {"out": "ctor-assert"}
    # state carried across calls: the SAME collator object first collates `warm` other batches (per step either longer
    # sequences + one more ctx key, or -- kind "same" -- the very same padded shape with other values); the judged batch must
    # not depend on them, and what was returned for them must not change afterwards
    earlier = []
    for j in range(case.get("warm", 0)):
        try:
            r = warm_coll(make_batch(warm_variant(case, j)))
            earlier.append((r, canon_value(r)))
        except Exception:  # noqa
            break
    if case.get("copied") and entry != "direct":
        # the judged call is made on a deep copy of the used object (what a DataLoader worker receives)
        try:
            coll = copy.deepcopy(coll)
        except Exception:  # noqa  (not copyable: judged on the original)
            pass
    del log.events[:]
    log.n_dc = 0
    with _PatchDC(log):
        try:
            res = coll(batch)
        except Exception as e:  # outcome to be compared; judged by the oracle
            return {"out": classify_exc(e), "trace": list(log.events), "_exc": f"{type(e).__name__}: {e}"[:200]}
    ans = {"out": "ok", "trace": list(log.events)}
    ans["_earlier_changed"] = any(canon_value(r) != snap for r, snap in earlier)
    if entry == "direct":
        # collate() on the raw batch: with contexts it returns (data, contexts) itself
        if case["rc"] and isinstance(res, tuple) and len(res) == 2 and isinstance(res[1], dict):
            ans["pair"] = True
            ans["batch"] = canon_value(res[0])
            ans["ctx"] = canon_value(res[1])["dict"]
        else:
            ans["pair"] = False
            ans["batch"] = canon_value(res)
            ans["ctx"] = []
    else:
        is_pair = isinstance(res, tuple) and len(res) == 2 and isinstance(res[1], dict)
        # a 2-tuple whose 2nd entry is a dict is what "(batch, ctx)" means; a batch itself never has a dict field here
        ans["pair"] = bool(is_pair)
        if is_pair:
            ans["batch"] = canon_value(res[0])
            ans["ctx"] = canon_value(res[1])["dict"]
        else:
            ans["batch"] = canon_value(res)
            ans["ctx"] = []
    ans["_raw"] = res
    # the returned batch is kept alive (gradient accumulation, list(loader), prefetching) while the same collator object
    # collates `post` LATER batches (same padded shape with other values / longer ones): it must still be what was returned
    snap = canon_value(res)
    kept = [(r, s) for r, s in earlier] + [(res, snap)]
    for j in range(case.get("post", 0)):
        try:
            r = coll(make_batch(warm_variant(case, j + 3, kind=_step_kind(case, "post_kinds", j, "same"))))
            kept.append((r, canon_value(r)))
        except Exception:  # noqa
            break
    ans["_later_changed"] = any(canon_value(r) != s for r, s in kept)
    return ans


def _step_kind(case, field, j, default):
    kinds = case.get(field) or []
    return kinds[j] if j < len(kinds) else default


def warm_variant(case, j, kind=None):
    """another batch for the same collator object, same layout. kind "longer" (default): longer sequences with other values,
    one more ctx key; kind "same": the same lengths (hence the same padded shape per field) with other values"""
    import copy
    kind = kind or _step_kind(case, "warm_kinds", j, "longer")
    c = copy.deepcopy(case)
    for k in ("warm", "post", "warm_kinds", "post_kinds", "warm_on", "copied"):
        c.pop(k, None)
    for name, col in c["table"].items():
        for cell in col:
            if kind == "same":
                if "q" in cell:
                    cell["q"] = [v + 10 * (j + 1) for v in cell["q"]]
                elif "z" in cell:
                    cell["z"] = cell["z"] + 1 + j
                elif name not in ("seqlen",):
                    cell["s"] = cell["s"] + 1 + j
            elif "q" in cell and name != "fx":
                cell["q"] = [v + 10 * (j + 1) for v in cell["q"]] + [7 + j] * (j + 2)
            elif "z" in cell:
                cell["z"] = cell["z"] + 1
    names = [m for m in case["mode"].split(" ") if m != "index"]
    if names and kind != "same":
        c["ctxkeys"] = dict(case.get("ctxkeys", {}), **{names[-1]: 9})
    return c


def strip_private(d):
    return {k: v for k, v in d.items() if not k.startswith("_")}


# ----------------------------------------------------------------------------------------------
# independent property oracle (uses only the property statement; never the Lean model)
# ----------------------------------------------------------------------------------------------
def _column(samples, j):
    return [s["items"][j] for s in samples]


def expected_column(col, padded):
    """what the property promises for one field: default collation (stack), or zero padding to the batch maximum"""
    if all("s" in f for f in col):
        return [f["s"] for f in col]
    if all("q" in f for f in col):
        lens = [len(f["q"]) for f in col]
        if padded:
            m = max(lens)
            return [f["q"] + [0] * (m - len(f["q"])) for f in col]
        if len(set(lens)) == 1:
            return [f["q"] for f in col]
    return None  # not collatable: outside the claim


def in_domain(case, samples):
    """domain of the property: a batch of >= 1 samples of one mode whose contexts share their keys; every field is
    collatable (fixed-size or, with the padding collator, variable-length 1-d tensors); one padding collator at most
    and then no member asks for default collation (the padding collator produces the collated batch itself)"""
    if not samples:
        return False
    kinds = [m["kind"] for m in case["members"]]
    has_pad = "pad" in kinds
    if has_pad and (kinds.count("pad") > 1 or any(m["kind"] == "probe" and m["mode"] is not None for m in case["members"])):
        return False
    if case["entry"] in ("single", "wrapper", "direct") and len(case["members"]) != 1:
        return False
    if case["entry"] == "direct" and not has_pad:
        return False
    keys0 = [k for k, _ in samples[0]["ctx"]]
    if any([k for k, _ in s["ctx"]] != keys0 for s in samples):
        return False
    k = len(samples[0]["items"])
    for j in range(k):
        if expected_column(_column(samples, j), has_pad) is None:
            return False
    if has_pad and k == 1 and "s" in samples[0]["items"][0] and not (case["entry"] == "direct" and case["rc"]):
        return False  # a bare non-tensor batch is not a sequence batch
    return True


def oracle(case, real, samples):
    """returns a Failure or None"""
    if not in_domain(case, samples):
        return None
    members = case["members"]
    has_pad = any(m["kind"] == "pad" for m in members)
    modes = [m.get("mode") for m in members]
    tag = f"entry={case['entry']} modes={['pad' if m['kind'] == 'pad' else m['mode'] for m in members]} return_ctx={case['rc']} mode='{case['mode']}' n={len(samples)}"
    out = real["out"]
    if out in ("assert", "ctor-assert", "notimpl"):
        # a rejection by one of the code's own assertions is an accepted answer (order not supported)
        if has_pad or len(members) == 1:
            return Failure(_key(case, "rejected"), f"an order every reading of the contract accepts is rejected ({out}) for {tag}", case, "a batch", out)
        return None
    if out != "ok":
        return Failure(_key(case, "crash"), f"pipeline raises {real.get('_exc', out)} for {tag}", case, "a batch or an AssertionError", out)
    if real.get("_earlier_changed"):
        return Failure(_key(case, "earlier-result-rewritten"), f"collating this batch changed the (batch, ctx) the same collator object (or a twin "
                       f"instance, warm_on={case.get('warm_on', 'same')}) had returned for an earlier batch, for {tag}", case, "earlier results untouched", "rewritten")
    if real.get("_later_changed"):
        return Failure(_key(case, "result-rewritten-by-later-call"), f"the (batch, ctx) returned for this batch (or for an earlier one) no longer holds "
                       f"the content of its samples after the same collator object collated {case.get('post', 0)} later batch(es), for {tag}",
                       case, "returned batches keep their content", "rewritten")
    k = len(samples[0]["items"])
    trace = real["trace"]
    # (batch, ctx) iff return_ctx
    if real["pair"] != case["rc"]:
        return Failure(_key(case, "pair"), f"returns a pair = {real['pair']} but return_ctx = {case['rc']} for {tag}", case, case["rc"], real["pair"])
    n_dc = sum(1 for e in trace if e[0] == "dc")
    if not has_pad and case["entry"] != "direct":
        want = 1 if any(m is not None for m in modes) else 0
        if n_dc != want:
            return Failure(_key(case, "dc-count"), f"default_collate applied to the batch {n_dc} times, expected {want} for {tag}", case, want, n_dc)
        # position: members in list order; None/after members see the uncollated batch, before members the collated one,
        # and the collation asked for by an 'after' member follows its call immediately
        mi = 0
        for pos, e in enumerate(trace):
            if e[0] != "m":
                continue
            mode = modes[mi]
            want_seen = 1 if mode == "before" else 0
            if e[1] != want_seen:
                return Failure(_key(case, "dc-position"), f"member {mi} ({mode}) is handed a batch collated {e[1]} times for {tag}", case, want_seen, e[1])
            if mode == "after" and (pos + 1 >= len(trace) or trace[pos + 1][0] != "dc"):
                return Failure(_key(case, "dc-position"), f"default_collate does not follow 'after' member {mi} for {tag}", case, "dc", trace[pos + 1:pos + 2])
            mi += 1
        if mi != len(members):
            return Failure(_key(case, "members"), f"{mi} of {len(members)} members were called for {tag}", case, len(members), mi)
    # context: merged keys = the samples' keys (+ keys written by members), values in batch order
    if case["rc"]:
        want_ctx = {}
        for key, _ in samples[0]["ctx"]:
            want_ctx[key] = [dict(map(tuple, s["ctx"]))[key] for s in samples]
        for m in members:
            if m["kind"] == "probe" and m.get("key") is not None:
                want_ctx[m["key"]] = -m["key"]
        got_ctx = {kk: v for kk, v in real["ctx"]}
        if got_ctx != want_ctx:
            return Failure(_key(case, "ctx"), f"batched context differs (keys lost/invented or values reordered) for {tag}", case,
                           sorted(want_ctx.items()), sorted(got_ctx.items()))
    # layout and content
    collated = has_pad or any(m is not None for m in modes)
    if collated:
        cols = [expected_column(_column(samples, j), has_pad) for j in range(k)]
        want_batch = cols[0] if k == 1 else cols
    else:
        rows = [[(f["q"] if "q" in f else f["s"]) for f in s["items"]] for s in samples]
        want_batch = [r[0] for r in rows] if k == 1 else rows
    if real["batch"] != want_batch:
        what = "padded batch differs (max length / kept prefix / zero suffix / other fields as default collation)" if has_pad \
            else "batch layout differs from the dataset mode (field order / collated content)"
        return Failure(_key(case, "pad" if has_pad else "layout"), f"{what} for {tag}", case, want_batch, real["batch"])
    return None


def _key(case, what):
    e = case["entry"]
    if e == "wrapper":
        return f"collate:wrapper:{what}"
    if any(m["kind"] == "pad" for m in case["members"]):
        return f"collate:pad:{what}"
    return f"collate:call_impl:{what}"


def judge(case):
    batch = make_batch(case)
    samples = samples_of(case, batch)
    real = run_real(case)
    return oracle(case, real, samples), real, samples


# ----------------------------------------------------------------------------------------------
# case generation
# ----------------------------------------------------------------------------------------------
def fixed_table(n, names, rng=None):
    """fixed-size fields (default collation applies)"""
    t = {}
    for name in names:
        if name == "x":
            t[name] = [{"q": [i * 10 + 1, i * 10 + 2]} for i in range(n)]
        elif name == "class":
            t[name] = [{"s": i * 10 + 3} for i in range(n)]
        elif name == "z":
            t[name] = [{"z": i * 10 + 4} for i in range(n)]
        elif name == "seqlen":
            t[name] = [{"s": 2} for i in range(n)]
        elif name == "classes":
            t[name] = [{"q": [i * 10 + 5, i * 10 + 6]} for i in range(n)]
    return t


FLAG_MODES = ["x", "x class", "index x", "x seqlen classes", "class", "z x index"]


def flag_case(modes, rc, mode, idxs, entry="compose", keys=None, ctxkeys=None):
    names = [m for m in mode.split(" ") if m != "index"]
    n = max(idxs) + 1
    members = [{"kind": "probe", "mode": m, "key": (keys[i] if keys else None)} for i, m in enumerate(modes)]
    return {"op": "cl.run", "entry": entry, "members": members, "rc": rc, "mode": mode, "idxs": list(idxs),
            "table": fixed_table(n, names), "ctxkeys": ctxkeys if ctxkeys is not None else {names[0]: 7},
            **history(len(modes) + len(idxs) + int(rc), 2 * len(modes) + len(idxs) + len(names))}


def history(a, b):
    """the call history around the judged call (deterministic in a, b): `warm` earlier calls (each with the same padded shape or
    a longer one, on the same object or on a twin instance), the judged call (possibly on a deep copy of the used object),
    `post` later calls while all earlier results are kept alive"""
    warm, post = a % 3, b % 3
    return {"warm": warm, "warm_kinds": [["same", "longer"][(a // 3 + i) % 2] for i in range(warm)],
            "warm_on": "twin" if b % 5 == 0 else "same", "copied": b % 7 == 3,
            "post": post, "post_kinds": [["same", "longer"][(b // 3 + i) % 3 == 2] for i in range(post)]}


def exhaustive_flag_cases(max_len=4, batch_sizes=(1, 2, 3, 4), modes=FLAG_MODES):
    for L in range(1, max_len + 1):
        for seq in itertools.product(MODES, repeat=L):
            for rc in (False, True):
                for mode in modes:
                    for bs in batch_sizes:
                        yield flag_case(list(seq), rc, mode, list(range(bs)))


def seq_table(rng, n, names, maxlen=5, equal=False):
    t = {}
    lens = [rng.randint(0 if rng.random() < 0.15 else 1, maxlen) for _ in range(n)]
    if equal:
        lens = [lens[0]] * n
    for name in names:
        if name == "x":
            t[name] = [{"q": [rng.randint(-3, 9) for _ in range(lens[i])]} for i in range(n)]
        elif name == "classes":
            t[name] = [{"q": [rng.randint(0, 4) for _ in range(lens[i])]} for i in range(n)]
        elif name == "seqlen":
            t[name] = [{"s": lens[i]} for i in range(n)]
        elif name == "class":
            t[name] = [{"s": rng.randint(0, 9)} for i in range(n)]
        elif name == "z":
            t[name] = [{"z": rng.randint(0, 9)} for i in range(n)]
        elif name == "fx":
            t[name] = [{"q": [rng.randint(0, 9), rng.randint(0, 9)]} for i in range(n)]
    return t


PAD_MODES = ["x", "x classes seqlen", "x seqlen", "index x", "x class", "seqlen x classes", "x fx", "z x", "x classes", "seqlen", "fx index"]


def pad_case(rng, entry=None, rc=None, mode=None, bs=None):
    mode = mode or rng.choice(PAD_MODES)
    bs = bs or rng.randint(1, 4)
    names = [m for m in mode.split(" ") if m != "index"]
    n = bs + rng.choice([0, 0, 2])
    idxs = rng.sample(range(n), bs)
    entry = entry or rng.choice(["compose", "compose", "single", "wrapper", "direct"])
    rc = rng.random() < 0.5 if rc is None else rc
    members = [{"kind": "pad"}]
    if entry == "compose":
        r = rng.random()
        if r < 0.2:
            members = [{"kind": "probe", "mode": None, "key": 3}, {"kind": "pad"}]
        elif r < 0.3:
            members = [{"kind": "pad"}, {"kind": "probe", "mode": None, "key": None}]
    ck = {}
    for nm in names:
        if rng.random() < 0.5:
            ck[nm] = rng.choice([1, 2, 5])
    return {"op": "cl.run", "entry": entry, "members": members, "rc": rc, "mode": mode, "idxs": idxs,
            "table": seq_table(rng, n, names, equal=rng.random() < 0.15), "ctxkeys": ck,
            **history(rng.choice([0, 1, 2, 4, 5, 7, 8]), rng.randrange(105))}


def random_flag_case(rng):
    L = rng.randint(1, 6)
    r = rng.random()
    if r < 0.5:
        # accepted shape: None* (before+ | after before*)?
        a = rng.randint(0, 3)
        tail = rng.choice([[], ["before"] * rng.randint(1, 3), ["after"] + ["before"] * rng.randint(0, 3)])
        seq = [None] * a + tail
        if not seq:
            seq = [None]
    else:
        seq = [rng.choice(MODES) for _ in range(L)]
    mode = rng.choice(FLAG_MODES)
    bs = rng.randint(1, 5)
    names = [m for m in mode.split(" ") if m != "index"]
    ck = {nm: rng.choice([1, 2, 5, 7]) for nm in names if rng.random() < 0.6}
    keys = [rng.choice([None, None, 11, 12, 13]) for _ in seq]
    entry = "compose"
    if len(seq) == 1:
        entry = rng.choice(["compose", "single", "wrapper"])
    n = bs + rng.choice([0, 1])
    return flag_case(seq, rng.random() < 0.5, mode, rng.sample(range(n), bs), entry=entry, keys=keys, ctxkeys=ck)


def signature(case, real):
    ms = tuple("pad" if m["kind"] == "pad" else m["mode"] for m in case["members"])
    return (case["entry"], ms, case["rc"], case["mode"], min(len(case["idxs"]), 3), real.get("out"))


# ----------------------------------------------------------------------------------------------
class C18(PropertyCheck):
    pid = "C18"
    claimed = True
    props_modules = ["KDVerif.Props.C18"]
    extra_build = ["KDVerif.Driver.Collate"]
    driver_main = "mains/Collate.lean"
    anchored = ["kappadata/collators/base/kd_collator_base.py", "kappadata/collators/base/kd_compose_collator.py",
                "kappadata/collators/base/kd_single_collator.py", "kappadata/collators/base/kd_single_collator_wrapper.py",
                "kappadata/collators/pad_sequences_collator.py"]
    assumptions = [
        "torch default_collate transposes a list of equally long tuples and stacks each column (python ints -> 1-d tensor, equal-size tensors "
        "-> one more leading dim); on a list of dicts it collates per key of the first dict",
        "torch pad_sequence(batch_first=True) appends zeros up to the longest sequence",
        "every sample of a batch comes from the same ModeWrapper (same number of items, same context keys)",
        "member collators of the flag-machine theorems are batch-transparent probes (they may add context keys); PadSequencesCollator is modelled concretely",
    ]
    trusted_extra = [
        "modelled by hand: KDCollatorBase._call_impl (flags, asserts, ctx split, before/after calls), KDSingleCollator.__call__, "
        "KDComposeCollator.__call__, KDSingleCollatorWrapper.__call__, PadSequencesCollator.collate (all four branches)",
        "not modelled: torch default_collate / pad_sequence internals (contracts above), 2-d sequence tensors (oracle only), set_rng/worker_init_fn",
    ]
    level_text = ("Lean theorems (KDVerif.Props.C18): for every list of collator modes on which no assertion of _call_impl fires, default_collate "
                  "is applied to the batch exactly once iff some member asks for it (never twice), immediately before the first 'before' member / "
                  "immediately after the 'after' member; the accepted lists are exactly None* (before+ | after before*)?; the result is a pair iff "
                  "return_ctx; merged context keys = the samples' keys followed by member-written keys; collated layout = columns in mode order; "
                  "padding: row length = batch maximum (attained), prefix kept, suffix zeros, equal-length fields unchanged, data part independent of "
                  "per-sample contexts. Model tied to the code each run by differential correspondence over all mode lists of length <= 4 x return_ctx x "
                  "dataset modes x batch sizes with probe collators and the real PadSequencesCollator.")
    level_note = ("trusted: Lean kernel + standard axioms; correspondence harness; torch default_collate/pad_sequence contracts; member collators are "
                  "abstracted as batch-transparent probes in the flag-machine theorems")
    design_ref = "DESIGN.md 3 (C18)"

    def cases(self):
        corpus = []
        cdir = Path(__file__).resolve().parents[2] / "corpus" / "collate"
        if cdir.exists():
            for p in sorted(cdir.glob("*.json")):
                corpus.append(json.loads(p.read_text()))
        if self.tier == "quick":
            ex = list(exhaustive_flag_cases(4, (1, 2, 3, 4), ["x", "x class", "index x", "x seqlen classes"]))
            self.rng.shuffle(ex)
            # every mode list x return_ctx is kept at least once (batch size / dataset mode sampled)
            seen, keep, rest = set(), [], []
            for c in ex:
                sig = (tuple(m["mode"] for m in c["members"]), c["rc"])
                if sig not in seen:
                    seen.add(sig)
                    keep.append(c)
                else:
                    rest.append(c)
            ex = keep + rest[:1200]
            n_rand, n_pad = 300, 900
        else:
            ex = list(exhaustive_flag_cases(4, (1, 2, 3, 4), FLAG_MODES)) + \
                 [c for c in exhaustive_flag_cases(5, (2,), ["x class"]) if len(c["members"]) == 5]
            n_rand, n_pad = 4000, 12000
        single = []
        for m in MODES:
            for rc in (False, True):
                for mode in ("x", "x class", "index x"):
                    for bs in (1, 2, 3):
                        for entry in ("single", "wrapper"):
                            single.append(flag_case([m], rc, mode, list(range(bs)), entry=entry, keys=[11]))
        rnd = [random_flag_case(self.rng) for _ in range(n_rand)]
        pads = [pad_case(self.rng) for _ in range(n_pad)]
        return corpus + ex + single + rnd + pads, len(corpus), len(ex)

    def correspond(self):
        res = CorrResult()
        cases, ncorp, nex = self.cases()
        res.rule = (f"{ncorp} corpus + {nex} cases of the sweep (all None/before/after lists of length <= 4 x return_ctx x dataset modes x batch sizes 1-4"
                    f"{'; every list x return_ctx kept, rest sampled' if self.tier == 'quick' else '; complete, plus all lists of length 5'}) "
                    "+ single/wrapper entries + seeded random lists with member-written ctx keys + seeded padding batches "
                    "(entries compose/single/wrapper/direct, with/without ctx, length profiles incl. empty and equal); every case inside a "
                    "call history on one collator object: 0-2 earlier and 0-2 later batches of the same padded shape or longer, all returned "
                    "batches kept alive and re-examined at the end, earlier calls on the same object or a twin instance, judged call partly "
                    "on a deep copy of the used object; "
                    "distinct = (entry, member modes, return_ctx, dataset mode, batch size class, outcome)")
        res.exhaustive = self.tier == "thorough"
        reals, reqs = [], []
        for c in cases:
            batch = make_batch(c)
            samples = samples_of(c, batch)
            reals.append((run_real(c), samples))
            reqs.append(dict({k: v for k, v in c.items() if k not in ("table", "ctxkeys", "idxs")}, samples=samples))
        answers = self.driver.run(reqs)
        for case, (real, samples), model in zip(cases, reals, answers):
            res.cases += 1
            res.nontrivial.add(signature(case, real))
            res.bump(f"out={real['out'].split(':')[0]}")
            res.bump(f"entry={case['entry']}")
            res.bump(f"len={len(case['members'])}")
            res.bump("pad" if any(m["kind"] == "pad" for m in case["members"]) else "flag")
            res.bump(f"history=warm{case.get('warm', 0)}/post{case.get('post', 0)}")
            if case.get("warm", 0) and case.get("warm_on") == "twin":
                res.bump("history=earlier-calls-on-twin-instance")
            if case.get("copied"):
                res.bump("history=judged-on-deepcopy")
            if "same" in (case.get("warm_kinds") or []) + (case.get("post_kinds") or [])[:case.get("post", 0)]:
                res.bump("history=repeated-padded-shape")
            if view(real) != view(model):
                if len(res.disagreements) < 50:
                    res.disagreements.append(Disagreement(case, view(model), view(real)))
            f = oracle(case, real, samples)
            if f is not None and len(res.failures) < 50:
                if not any(g.key == f.key for g in res.failures) or len(res.failures) < 5:
                    res.failures.append(f)
            if len(res.samples) < 4 and real["out"] == "ok" and len(case["members"]) > 1 and case["rc"]:
                res.samples.append({"members": case["members"], "mode": case["mode"], "rc": case["rc"], "samples": samples,
                                    "real": strip_private(real)})
        res.failures.sort(key=lambda f: len(json.dumps(f.input)))
        return res

    def replay_input(self, inp):
        return judge(inp)[0]

    def search(self, budget_s, hints):
        t0 = time.time()
        out = []
        for h in hints:
            f = judge(h)[0]
            if f:
                out.append(f)
        if out:
            return out
        for c in exhaustive_flag_cases(3, (2, 3), ["x", "x class"]):
            f = judge(c)[0]
            if f:
                return [f]
            if time.time() - t0 > budget_s / 2:
                break
        rng = random.Random(self.seed + 18)
        while time.time() - t0 < budget_s:
            c = pad_case(rng) if rng.random() < 0.6 else random_flag_case(rng)
            f = judge(c)[0]
            if f:
                return [f]
        return out


def view(ans):
    """the compared part of an answer: outcome class, pair flag, batch, ctx, trace"""
    a = strip_private(ans)
    out = a.get("out", "")
    if out.startswith("exc:"):
        a["out"] = "exc"
    if a.get("out") != "ok":
        return {"out": a.get("out")}
    return a
