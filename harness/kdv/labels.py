"""C16 — label-rewriting / label-encoding wrappers: case generator, real-code runner with recording proxies for the
numpy generators / GlobalRng / torch draws, independent property oracle, correspondence with Model/Labels.lean."""
import itertools
import json
import math
import random
import time
from contextlib import contextmanager
from fractions import Fraction

from .common import CORPUS_DIR, CorrResult, Disagreement, Failure, PropertyCheck

TOL = 1e-6
REWRITING = ("cg", "rs", "swap", "ow", "ag", "pl", "rc", "semi")
ENCODING = ("ls", "oh")
KINDS = REWRITING + ENCODING
# wrappers of the package (and a user-style pass-through subclass of KDWrapper) that do not rewrite labels; they only appear INSIDE stacks,
# between a wrapper under judgement and the dataset: plain = `class PassThrough(KDWrapper): pass`, xt = XTransformWrapper(identity),
# shuf / sub / rep = ShuffleWrapper / SubsetWrapper / RepeatWrapper (KDSubset based: they reorder / select samples)
NEUTRAL = ("plain", "xt", "shuf", "sub", "rep")
NAMES = {"cg": "ClassGroupsWrapper", "rs": "RandomSuperclassWrapper", "swap": "SwapLabelWrapper", "ow": "OverwriteClassesWrapper",
         "ag": "AllgatherClassWrapper", "pl": "KDPseudoLabelWrapper", "rc": "KDRandomClassWrapper", "semi": "SemiWrapper",
         "ls": "LabelSmoothingWrapper", "oh": "OneHotWrapper"}
MODULES = {"cg": "kappadata.wrappers.dataset_wrappers.class_groups_wrapper",
           "rs": "kappadata.wrappers.dataset_wrappers.random_superclass_wrapper",
           "swap": "kappadata.wrappers.dataset_wrappers.swap_label_wrapper",
           "ow": "kappadata.wrappers.dataset_wrappers.overwrite_classes_wrapper",
           "ag": "kappadata.wrappers.dataset_wrappers.allgather_class_wrapper",
           "pl": "kappadata.wrappers.dataset_wrappers.kd_pseudo_label_wrapper",
           "rc": "kappadata.wrappers.sample_wrappers.kd_random_class_wrapper",
           "semi": "kappadata.wrappers.sample_wrappers.semi_wrapper",
           "ls": "kappadata.wrappers.sample_wrappers.label_smoothing_wrapper",
           "oh": "kappadata.wrappers.sample_wrappers.one_hot_wrapper"}


def rat(v):
    f = Fraction(float(v))
    return [f.numerator, f.denominator]


# ----------------------------------------------------------------------------------------------
# recording proxies (installed in the wrapper modules' namespaces; nothing inside /repo is touched)
# ----------------------------------------------------------------------------------------------
class _RecGen:
    """stands in for np.random.Generator / GlobalRng(): every draw is appended to the tape"""

    def __init__(self, real, tape, src):
        self._real, self._tape, self._src = real, tape, src

    def permuted(self, x, *a, **kw):
        out = self._real.permuted(x, *a, **kw)
        self._tape.append(["permuted", self._src, [int(v) for v in out.tolist()], [int(v) for v in x.tolist()]])
        return out

    def permutation(self, x, *a, **kw):
        out = self._real.permutation(x, *a, **kw)
        self._tape.append(["permutation", self._src, [int(v) for v in out.tolist()], int(x) if isinstance(x, int) else None])
        return out

    def random(self, size=None, *a, **kw):
        out = self._real.random(size, *a, **kw) if size is not None or a or kw else self._real.random()
        vals = out.tolist() if hasattr(out, "tolist") else [out]
        self._tape.append(["random", self._src, [rat(v) for v in (vals if isinstance(vals, list) else [vals])]])
        return out

    def integers(self, low, high=None, size=None, **kw):
        out = self._real.integers(low, high, size=size, **kw) if kw else self._real.integers(low, high, size)
        vals = out.tolist() if hasattr(out, "tolist") else out
        lo, hi = (0, low) if high is None else (low, high)
        self._tape.append(["integers", self._src, [int(v) for v in (vals if isinstance(vals, list) else [vals])], int(lo), int(hi)])
        return out

    def multinomial(self, n, pvals, *a, **kw):
        out = self._real.multinomial(n, pvals, *a, **kw)
        self._tape.append(["multinomial", self._src, [int(out.argmax())], 0, len(pvals)])
        return out

    def __getattr__(self, k):
        raise AttributeError(f"wrapper used an unrecorded draw: rng.{k}")


class _NpRandomProxy:
    def __init__(self, np, tape):
        self._np, self._tape = np, tape

    def default_rng(self, seed=None, *a, **kw):
        self._tape.append(["seed", "gen", None if seed is None else int(seed)])
        return _RecGen(self._np.random.default_rng(seed, *a, **kw), self._tape, "gen")

    def __getattr__(self, k):
        raise AttributeError(f"wrapper reached np.random.{k} directly (expected default_rng or GlobalRng)")


class _NpProxy:
    def __init__(self, np, tape):
        self._np = np
        self.random = _NpRandomProxy(np, tape)

    def __getattr__(self, k):
        return getattr(self._np, k)


class _TorchProxy:
    """module-like: Generator / randint / randperm are recorded, other RNG entry points refused, the rest forwarded"""
    _REFUSED = ("rand", "randn", "rand_like", "randn_like", "randint_like", "bernoulli", "normal", "multinomial", "manual_seed", "seed")

    def __init__(self, torch, tape):
        self._torch, self._tape = torch, tape

    def Generator(self, *a, **kw):
        g = self._torch.Generator(*a, **kw)
        tape = self._tape
        real_seed = g.manual_seed

        class G:
            def manual_seed(self_, s):
                tape.append(["seed", "torch", int(s)])
                real_seed(s)
                return g
        return G()

    def randint(self, *a, generator=None, **kw):
        out = self._torch.randint(*a, generator=generator, **kw)
        high = kw.get("high", a[0] if a else None)
        self._tape.append(["randint", "torch" if generator is not None else "global", out.tolist(), 0, int(high)])
        return out

    def randperm(self, n, *a, generator=None, **kw):
        out = self._torch.randperm(n, *a, generator=generator, **kw)
        self._tape.append(["randperm", "torch" if generator is not None else "global", out.tolist(), int(n)])
        return out

    def __getattr__(self, k):
        if k in self._REFUSED:
            raise AttributeError(f"wrapper used unrecorded RNG entry point torch.{k}")
        return getattr(self._torch, k)


@contextmanager
def recording(kind, tape):
    import importlib
    import numpy
    import torch
    from kappadata.utils.global_rng import GlobalRng
    mod = importlib.import_module(MODULES[kind])

    class RecGlobal:
        def __init__(self):
            self._g = _RecGen(GlobalRng(), tape, "global")

        def __getattr__(self, k):
            return getattr(self._g, k)

    patch = {}
    if "np" in mod.__dict__:
        patch["np"] = _NpProxy(numpy, tape)
    if "GlobalRng" in mod.__dict__:
        patch["GlobalRng"] = RecGlobal
    if kind == "rc":
        patch["torch"] = _TorchProxy(torch, tape)
    saved = {k: mod.__dict__[k] for k in patch}
    try:
        for k, v in patch.items():
            setattr(mod, k, v)
        yield
    finally:
        for k, v in saved.items():
            setattr(mod, k, v)


# ----------------------------------------------------------------------------------------------
# real code runner
# ----------------------------------------------------------------------------------------------
_DS = {}


def dataset(labels, C, alias=False):
    """tiny list-backed KDDataset: class accessor (per-sample, bulk, shape) + an `x` item that must stay untouched"""
    if "cls" not in _DS:
        from kappadata.datasets.kd_dataset import KDDataset

        class DS(KDDataset):
            def __init__(self, classes, C, alias):
                super().__init__()
                self.classes, self.C, self.alias = list(classes), C, alias

            def __len__(self):
                return len(self.classes)

            def getitem_class(self, idx, ctx=None):
                return self.classes[idx]

            def getall_class(self):
                return self.classes if self.alias else list(self.classes)

            def getshape_class(self):
                return (self.C,)

            def getitem_x(self, idx, ctx=None):
                return ("x", idx)

        _DS["cls"] = DS
    return _DS["cls"](labels, C, alias)


def exc_kind(e):
    n = type(e).__name__
    return {"AssertionError": "assertion", "NotImplementedError": "notImplemented", "IndexError": "index",
            "ZeroDivisionError": "zeroDiv", "EinopsError": "einops", "RuntimeError": "runtime"}.get(n, f"exc:{n}")


def soft_tensor(rows):
    import torch
    return torch.tensor([[float(Fraction(a, b)) for a, b in r] for r in rows], dtype=torch.float32)


def build(case, ds, tape=None):
    """constructs the real wrapper of `case` around `ds`"""
    import importlib
    import torch
    k = case["w"]
    cls = getattr(importlib.import_module(MODULES[k]), NAMES[k])
    if k == "cg":
        return cls(ds, classes_per_group=case["cpg"], shuffle=case["shuffle"], seed=case["seed"])
    if k == "rs":
        return cls(ds, classes_per_superclass=case["cps"], superclass_splits=case["splits"], shuffle=case["shuffle"], seed=case["seed"])
    if k == "swap":
        return cls(ds, p=case["p"], seed=case["seed"])
    if k == "ow":
        return cls(ds, classes=torch.tensor(case["classes"]) if case.get("fmt") == "tensor" else list(case["classes"]))
    if k == "ag":
        return cls(ds, world_size=case["W"])
    if k == "pl":
        tbl = torch.tensor(case["hard"]) if case.get("hard") is not None else soft_tensor(case["soft"])
        tau = {"none": None, "inf": float("inf"), "fin": case.get("tauv", 1.0)}[case["tau"]]
        return cls(ds, pseudo_labels=tbl, threshold=case["thr"], topk=case["topk"], tau=tau, seed=case["seed"])
    if k == "rc":
        kw = {"world_size": case["W"]} if case["mode"] == "gatherbug" else None
        if case.get("via_setters") and case["mode"] in ("random", "randperm", "gatherbug"):
            # history: the object is built with another configuration, read in bulk and per sample, and then brought to the case's
            # configuration through its public setters -- it must then behave like one constructed with that configuration
            other = {"random": "randperm", "randperm": "random", "gatherbug": "gatherbug"}[case["mode"]]
            w = cls(dataset=ds, mode=other, mode_kwargs=kw, num_classes=case["nc"] + 1, seed=case["seed"] + 1)
            w.getall_class()
            if len(ds):
                w.getitem_class(0)
            w.seed = case["seed"]
            w.num_classes = case["nc"] if case.get("explicit_nc", True) else ds.getshape_class()[0]
            if tape is not None:
                del tape[:]
            w.mode = case["mode"]
            return w
        return cls(dataset=ds, mode=case["mode"], mode_kwargs=kw, num_classes=case["nc"] if case.get("explicit_nc", True) else None,
                   seed=case["seed"])
    if k == "semi":
        return cls(dataset=ds, semi_percent=case["p"], seed=case["seed"])
    if k == "ls":
        return cls(ds, smoothing=case["s"])
    if k == "oh":
        return cls(ds)
    raise ValueError(k)


def canon_item(v):
    """int labels stay ints; encodings become {"v": [floats]} / {"s": float}"""
    import numpy as np
    import torch
    if isinstance(v, bool):
        return int(v)
    if isinstance(v, (int, np.integer)):
        return int(v)
    if isinstance(v, float):
        return {"s": v}
    if torch.is_tensor(v):
        if v.ndim == 0:
            return int(v.item()) if not v.is_floating_point() else {"s": float(v.item())}
        return {"v": [float(x) for x in v.tolist()]}
    return {"other": repr(v)}


def canon_bulk(b):
    import numpy as np
    import torch
    if torch.is_tensor(b) or isinstance(b, np.ndarray):
        b = b.tolist()
    if not isinstance(b, list):
        return {"other": repr(b)}
    return [canon_item(v) for v in b]


def scramble(z):
    import numpy as np
    import torch
    np.random.seed(z % (2 ** 31))
    torch.manual_seed(z * 7 + 1)
    random.seed(z * 13 + 5)


def observe(kind, w, n, tape, per_call=None):
    out = {"items": []}
    for i in range(n):
        mark = len(tape)
        try:
            out["items"].append(canon_item(w.getitem_class(i)))
        except Exception as e:
            out["items"].append(exc_kind(e))
        if per_call is not None:
            per_call.append(tape[mark:])
    try:
        out["bulk"] = canon_bulk(w.getall_class())
    except Exception as e:
        out["bulk"] = exc_kind(e)
    try:
        sh = w.getshape_class()
        out["shape"] = int(sh[0]) if isinstance(sh, tuple) and len(sh) == 1 else repr(sh)
    except Exception as e:
        out["shape"] = exc_kind(e)
    out["forms"] = shape_forms(w)
    return out


def shape_forms(w):
    """the other public spellings of the class-shape query (KDDataset / KDWrapper API): every one of them announces the label range"""
    out = {}
    for name, fn in (("getshape('class')", lambda: w.getshape("class")), ("getdim_class()", lambda: (w.getdim_class(),)),
                     ("getdim('class')", lambda: (w.getdim("class"),))):
        try:
            sh = fn()
            out[name] = int(sh[0]) if isinstance(sh, tuple) and len(sh) == 1 else repr(sh)
        except Exception as e:
            out[name] = exc_kind(e)
    return out


# ---- stacks: the wrapper under judgement sits on other wrappers of the package instead of directly on the dataset ----
def _identity(x):
    return x


def build_level(spec, ds):
    """one inner level of a stack: a label wrapper (same constructor path as the judged one) or a neutral wrapper"""
    k = spec["w"]
    if k in KINDS:
        return build(spec, ds)
    if k == "plain":
        if "plain" not in _DS:
            from kappadata.datasets.kd_wrapper import KDWrapper

            class PassThrough(KDWrapper):
                pass

            _DS["plain"] = PassThrough
        return _DS["plain"](ds)
    if k == "xt":
        from kappadata.wrappers.sample_wrappers.x_transform_wrapper import XTransformWrapper
        return XTransformWrapper(ds, transform=_identity)
    if k == "shuf":
        from kappadata.wrappers.dataset_wrappers.shuffle_wrapper import ShuffleWrapper
        return ShuffleWrapper(ds, seed=spec["seed"])
    if k == "sub":
        from kappadata.wrappers.dataset_wrappers.subset_wrapper import SubsetWrapper
        return SubsetWrapper(ds, indices=list(spec["indices"]))
    if k == "rep":
        from kappadata.wrappers.dataset_wrappers.repeat_wrapper import RepeatWrapper
        return RepeatWrapper(ds, repetitions=spec["rep"])
    raise ValueError(k)


def observe_level(w):
    """what a wrapper stacked on `w` can see of it: labels per sample and in bulk, announced class count, the other item"""
    n = len(w)
    raw = []
    for i in range(n):
        try:
            raw.append(w.getitem_class(i))
        except Exception as e:
            raw.append(e)
    out = {"items": [exc_kind(v) if isinstance(v, Exception) else canon_item(v) for v in raw],
           "pyint": all(type(v) is int for v in raw)}
    try:
        out["bulk"] = canon_bulk(w.getall_class())
    except Exception as e:
        out["bulk"] = exc_kind(e)
    try:
        sh = w.getshape_class()
        out["shape"] = int(sh[0]) if isinstance(sh, tuple) and len(sh) == 1 else repr(sh)
    except Exception as e:
        out["shape"] = exc_kind(e)
    out["forms"] = shape_forms(w)
    try:
        out["x"] = [w.getitem_x(i) for i in range(n)]
    except Exception as e:
        out["x"] = exc_kind(e)
    return out


def usable_level(obs):
    """a coherent int-labelled dataset in the sense of the assumptions: this is what the next wrapper may be judged against"""
    return (isinstance(obs.get("shape"), int) and obs["shape"] >= 1 and isinstance(obs.get("x"), list)
            and all(isinstance(v, int) for v in obs["items"]) and obs["bulk"] == obs["items"])


def build_under(case, ds):
    """builds the inner levels of case['under'] bottom-up around `ds` (no recording proxies: the tape belongs to the judged wrapper).
    returns (top-most inner dataset or None, levels); a level = {spec, below: {labels, C, x}, ctor, obs}"""
    C, labels = case["C"], list(case["labels"])
    below = {"labels": labels, "C": C, "x": [("x", i) for i in range(len(labels))], "pyint": True}
    levels, cur = [], ds
    for spec in case.get("under") or []:
        lv = {"spec": spec, "below": below}
        levels.append(lv)
        try:
            cur = build_level(spec, cur)
        except Exception as e:
            lv["ctor"], lv["msg"] = exc_kind(e), str(e)[:120]
            return None, levels
        lv["ctor"] = "ok"
        try:
            lv["obs"] = observe_level(cur)
        except Exception as e:
            lv["obs"] = {"items": [exc_kind(e)], "bulk": exc_kind(e), "shape": exc_kind(e), "forms": {}, "x": exc_kind(e), "pyint": False}
        if not usable_level(lv["obs"]):
            return None, levels
        below = {"labels": lv["obs"]["items"], "C": lv["obs"]["shape"], "x": lv["obs"]["x"], "pyint": lv["obs"]["pyint"]}
    return cur, levels


def effective(case, real):
    """the case as the judged wrapper sees it: labels / class count handed out by the stack below it"""
    eff = real.get("eff")
    if not case.get("under") or eff is None:
        return case
    c = dict(case)
    c["labels"], c["C"] = eff["labels"], eff["C"]
    return c


def run_real(case):
    """{'ctor', 'items', 'bulk', 'shape', 'forms', 'tape', 'calls', 'others', 'again'} (+ 'levels', 'eff' for a stack case;
    ctor = 'under:...' when the stack below the judged wrapper could not be built / is no coherent int-labelled dataset)"""
    kind, labels, C = case["w"], case["labels"], case["C"]
    scramble(case.get("g", 0))
    tape, calls = [], []
    # every second case wraps a dataset that hands out its STORED label list from getall_class (`return self.targets`):
    # a wrapper that edits a bulk result in place then changes the wrapped dataset (and every other wrapper over it)
    root = dataset(labels, C, alias=case.get("g", 0) % 2 == 1)
    res = {}
    ds, expect_x = root, [("x", i) for i in range(len(labels))]
    if case.get("under"):
        ds, levels = build_under(case, root)
        res["levels"] = levels
        if ds is None:
            res.update(ctor="under:unusable", tape=tape)
            return res
        top = levels[-1]["obs"]
        if kind in ENCODING and not top["pyint"]:
            # the encoders are specified for python-int labels (assumption "labels are ints"); numpy ints from the stack are refused by design
            res.update(ctor="under:non-python-int-labels", tape=tape)
            return res
        res["eff"] = {"labels": top["items"], "C": top["shape"]}
        expect_x = top["x"]
    n = len(expect_x)
    with recording(kind, tape):
        try:
            w = build(case, ds, tape)
        except Exception as e:
            res.update(ctor=exc_kind(e), tape=tape, msg=str(e)[:120])
            return res
        res["ctor"] = "ok"
        res["ctor_tape"] = list(tape)
        res.update(observe(kind, w, n, tape, calls))
        if kind == "swap":
            try:
                res["apply"] = [bool(w.getitem_apply(i)) for i in range(n)]
            except Exception as e:
                res["apply"] = exc_kind(e)
        # tables computed at construction (compared with the model's state, not used by the oracle)
        try:
            if kind == "cg":
                res["table"] = [int(v) for v in w.cls_to_clsgroup.tolist()]
                res["within"] = [int(v) for v in w.idx_within_class]
            if kind == "ag":
                res["indices"] = [int(v) for v in w.indices]
        except Exception as e:
            res["table"] = exc_kind(e)
    res["tape"], res["calls"] = tape, calls
    # wrapped data other than the label
    others = []
    try:
        if len(w) != n:
            others.append(f"len {len(w)} != {n}")
        for i in range(n):
            if w.getitem_x(i) != expect_x[i]:
                others.append(f"x[{i}] = {w.getitem_x(i)!r}")
        if root.classes != list(labels):
            others.append(f"wrapped dataset's labels changed to {root.classes}")
        if root.getshape_class() != (C,):
            others.append("wrapped dataset's class shape changed")
        if case.get("under"):
            # the stack below was read before the judged wrapper was built: it must still hand out the same labels / class count
            now = observe_level(ds)
            for key in ("items", "bulk", "shape"):
                if now[key] != top[key]:
                    others.append(f"wrapped stack's {key} changed from {top[key]} to {now[key]}")
    except Exception as e:
        others.append(f"{type(e).__name__}: {e}")
    res["others"] = others
    # equal constructor arguments (incl. seed), different global RNG state: a second object (a second stack), no proxies
    if seeded(case):
        scramble(case.get("g", 0) + 101)
        try:
            ds2 = dataset(labels, C)
            if case.get("under"):
                ds2, lv2 = build_under(case, ds2)
                if ds2 is None:
                    raise RuntimeError("second construction of the stack is not usable")
            w2 = build(case, ds2)
            o2 = observe(kind, w2, n, [])
            res["again"] = {"items": o2["items"], "bulk": o2["bulk"]}
        except Exception as e:
            res["again"] = {"ctor": exc_kind(e)}
    return res


def seeded(case):
    """the mapping is promised to be a function of the constructor arguments: no draw from the process-global state"""
    k = case["w"]
    if not all(seeded(u) for u in case.get("under") or []):
        return False
    if k in ("cg", "rs", "swap", "semi", "rc", "shuf"):
        return case.get("seed") is not None
    if k in NEUTRAL:
        return True
    if k == "pl":
        return case["topk"] is None or case.get("seed") is not None
    return True


# ----------------------------------------------------------------------------------------------
# model request (configuration + recorded tape)
# ----------------------------------------------------------------------------------------------
def _first(tape, name, default=None):
    for ev in tape:
        if ev[0] == name:
            return ev[2]
    return default


def _all(tape, name):
    return [ev[2] for ev in tape if ev[0] == name]


def topk_oracle(case):
    """torch.topk(row, k).indices per row (numerics of topk are not modelled)"""
    if case["w"] != "pl" or case.get("soft") is None or case["topk"] is None:
        return []
    t = soft_tensor(case["soft"])
    out = []
    for r in t:
        try:
            out.append([int(i) for i in r.topk(k=case["topk"]).indices.tolist()])
        except Exception:
            out.append([])
    return out


def thr_bits(case):
    """softmax(row)[argmax] > threshold per row, evaluated by torch itself (numerics of softmax are not modelled)"""
    if case["w"] != "pl" or case.get("thr") is None:
        return None
    if case.get("soft") is None:
        return [False] * len(case["labels"])
    t = soft_tensor(case["soft"])
    out = []
    for r in t:
        p = r.softmax(dim=0)
        out.append(bool(p[p.argmax()] > case["thr"]))
    return out


def model_request(case, real):
    k = case["w"]
    tape = real.get("tape", [])
    labels = case["labels"]
    n = len(labels)
    if k == "cg":
        return {"op": "lb.cg", "labels": labels, "nc": case["C"], "cpg": case["cpg"], "shuffle": case["shuffle"],
                "permuted": _first(tape, "permuted", [])}
    if k == "rs":
        perms = _all(tape, "permutation")
        return {"op": "lb.rs", "labels": labels, "nc": case["C"], "cps": case["cps"], "splits": case["splits"], "shuffle": case["shuffle"],
                "perm1": perms[0] if perms else [], "perm2": perms[1] if len(perms) > 1 else []}
    if k == "swap":
        return {"op": "lb.swap", "labels": labels, "p": rat(case["p"]), "us": _first(tape, "random", []), "news": _first(tape, "integers", [])}
    if k == "ow":
        return {"op": "lb.ow", "labels": labels, "classes": case["classes"]}
    if k == "ag":
        return {"op": "lb.ag", "labels": labels, "W": case["W"]}
    if k == "pl":
        draws = []
        for c in real.get("calls", [[] for _ in range(n)]):
            d = [ev[2][0] for ev in c if ev[0] in ("integers", "multinomial")]
            draws.append(d[0] if d else 0)
        return {"op": "lb.pl", "n": n, "C": case["C"], "hard": case.get("hard"), "soft": case.get("soft"), "thr": thr_bits(case),
                "topk": case["topk"], "tau": case["tau"], "topkIdx": topk_oracle(case), "draws": draws}
    if k == "rc":
        return {"op": "lb.rc", "n": n, "nc": case["nc"] if case.get("explicit_nc", True) else case["C"], "mode": case["mode"],
                "W": case.get("W", 0), "ints": _first(tape, "randint", []), "perm": _first(tape, "randperm", [])}
    if k == "semi":
        p = case["p"]
        ok = 0. <= p <= 1.
        return {"op": "lb.semi", "labels": labels, "pOk": ok, "k": int(n * p) if ok else 0, "perm": _first(tape, "permutation", [])}
    if k == "ls":
        return {"op": "lb.ls", "labels": labels, "nc": case["C"], "s": rat(case["s"])}
    if k == "oh":
        return {"op": "lb.oh", "labels": labels, "nc": case["C"]}
    raise ValueError(k)


def _enc_close(m, r):
    """model item (exact rationals) vs real item (float32)"""
    if isinstance(m, dict) and isinstance(r, dict):
        if "v" in m and "v" in r:
            return len(m["v"]) == len(r["v"]) and all(abs(a / b - x) <= TOL for (a, b), x in zip(m["v"], r["v"]))
        if "s" in m and "s" in r:
            return abs(m["s"][0] / m["s"][1] - r["s"]) <= TOL
        return False
    return m == r


def compare(case, model, real):
    """None if the canonicalised answers agree, else (model view, real view)"""
    k = case["w"]
    rv = {"ctor": real["ctor"]}
    mv = {"ctor": model.get("ctor", model)}
    if real["ctor"] == "ok" and model.get("ctor") == "ok":
        keys = (["items", "bulk"] + (["shape"] if k in ("rs", "rc") else []) + (["apply"] if k == "swap" else [])
                + (["table", "within"] if k == "cg" else []) + (["indices"] if k == "ag" else []))
        for key in keys:
            rv[key], mv[key] = real.get(key), model.get(key)
        if k in ENCODING:
            same = (len(mv["items"]) == len(rv["items"]) and all(_enc_close(a, b) for a, b in zip(mv["items"], rv["items"]))
                    and mv["bulk"] == rv["bulk"])
            return None if same else (mv, rv)
    return None if mv == rv else (mv, rv)


# ----------------------------------------------------------------------------------------------
# domain + independent oracle (the property statement on the real outputs; no model involved)
# ----------------------------------------------------------------------------------------------
def labels_ok(labels, C, unlabeled):
    return len(labels) >= 1 and all((0 <= c < C) or (unlabeled and c == -1) for c in labels)


def in_domain(case):
    k, C, labels = case["w"], case["C"], case["labels"]
    if C < 1:
        return False
    if k == "cg":
        return labels_ok(labels, C, False) and case["cpg"] >= 1 and C % case["cpg"] == 0
    if k == "rs":
        return labels_ok(labels, C, False) and case["cps"] >= 1 and case["splits"] >= 1
    if k == "swap":
        return labels_ok(labels, C, True) and 0. <= case["p"] <= 1.
    if k == "ow":
        return labels_ok(labels, C, True) and len(case["classes"]) == len(labels) and labels_ok(case["classes"], C, True)
    if k == "ag":
        return labels_ok(labels, C, True) and 1 <= case["W"] <= len(labels)
    if k == "pl":
        if not labels_ok(labels, C, True):
            return False
        n = len(labels)
        if case.get("hard") is not None:
            return (len(case["hard"]) == n and labels_ok(case["hard"], C, True) and case["thr"] is None and case["topk"] is None
                    and case["tau"] == "none")
        rows = case["soft"]
        if len(rows) != n or any(len(r) != C for r in rows):
            return False
        if case["topk"] is None:
            return case["tau"] == "none"
        return case["thr"] is None and 1 <= case["topk"] <= C and case["seed"] is not None
    if k == "rc":
        nc = case["nc"] if case.get("explicit_nc", True) else C
        if not (labels_ok(labels, C, True) and nc >= 1 and case["mode"] in ("random", "randperm", "gatherbug")):
            return False
        return case["mode"] != "gatherbug" or 1 <= case["W"] <= len(labels)
    if k == "semi":
        return labels_ok(labels, C, True) and 0. <= case["p"] <= 1.
    if k == "ls":
        # getdim_class() == 1 is the binary convention: labels 0 / 1
        return labels_ok(labels, 2 if C == 1 else C, True) and 0. <= case["s"] <= 1.
    if k == "oh":
        return labels_ok(labels, C, False)
    return False


def _spec_tag(c):
    c = {k: v for k, v in c.items() if k not in ("soft", "g", "under")}
    return " ".join(f"{k}={v}" for k, v in c.items())


def case_tag(case):
    c = {k: v for k, v in case.items() if k not in ("soft", "g", "under")}
    if case.get("soft") is not None:
        c["soft"] = [[round(a / b, 3) for a, b in r] for r in case["soft"]]
    out = " ".join(f"{k}={v}" for k, v in c.items())
    if case.get("under"):
        out += " stacked on (bottom-up) " + " | ".join(f"[{_spec_tag(u)}]" for u in case["under"])
    return out


def oracle(case, real):
    """Failure or None. A stack case judges every label-rewriting level against the (observed) dataset it wraps, bottom-up, then the
    top wrapper against the labels / class count handed out by the stack below it."""
    if not case.get("under"):
        return judge(case, real, case, "")
    f = None
    for j, lv in enumerate(real.get("levels") or []):
        spec, below = lv["spec"], lv["below"]
        if spec["w"] not in REWRITING:
            continue
        lcase = dict(spec, labels=below["labels"], C=below["C"])
        if lv["ctor"] != "ok":
            lreal = {"ctor": lv["ctor"], "msg": lv.get("msg")}
        else:
            obs = lv["obs"]
            others = []
            if len(obs["items"]) != len(below["labels"]):
                others.append(f"len {len(obs['items'])} != {len(below['labels'])}")
            elif obs["x"] != below["x"]:
                others.append(f"x = {obs['x']!r}")
            lreal = {"ctor": "ok", "items": obs["items"], "bulk": obs["bulk"], "shape": obs["shape"], "forms": obs["forms"], "others": others,
                     "calls": []}
        f = judge(lcase, lreal, case, f" [level {j} ({NAMES[spec['w']]}) of the stack]")
        if f is not None:
            break
    if f is None and real["ctor"].startswith("under:"):
        return None
    if f is None:
        f = judge(effective(case, real), real, case, "")
    if f is not None:
        f.key += "@stack"
    return f


def judge(case, real, orig, where):
    """the property statement for one wrapper: `case` = its configuration plus the labels / class count of the dataset it wraps,
    `real` = what the real object answered, `orig` = the replayable input the Failure carries"""
    if not in_domain(case):
        return None
    k, C, labels = case["w"], case["C"], case["labels"]
    n = len(labels)
    name = NAMES[k]
    tag = case_tag(orig) + where
    if real["ctor"] != "ok":
        return Failure(f"{k}:exception:ctor:{real['ctor']}", f"{name} constructor raised {real['ctor']} ({real.get('msg')}) for {tag}", orig,
                       "a wrapper", real["ctor"])
    items, bulk, shape = real["items"], real["bulk"], real["shape"]
    bad = [(i, v) for i, v in enumerate(items) if isinstance(v, str) or (isinstance(v, dict) and "other" in v)]
    if bad:
        return Failure(f"{k}:exception:item:{bad[0][1] if isinstance(bad[0][1], str) else 'type'}",
                       f"{name}.getitem_class({bad[0][0]}) raised / returned {bad[0][1]} for {tag}", orig, "a label", items)
    if real["others"]:
        return Failure(f"{k}:others-touched", f"{name} changes something else than the label: {real['others'][0]} for {tag}", orig, [], real["others"])
    if not isinstance(shape, int):
        return Failure(f"{k}:shape", f"{name}.getshape_class() is {shape} for {tag}", orig, "(n_classes,)", shape)
    # every public spelling of the class-shape query announces the range (getshape_class(), getshape('class'), getdim_class(), getdim('class'))
    announced = [("getshape_class()", shape)]
    for form, val in (real.get("forms") or {}).items():
        if not isinstance(val, int):
            return Failure(f"{k}:shape-form", f"{name}.{form} is {val} although getshape_class() is ({shape},) for {tag}", orig, shape, val)
        announced.append((form, val))
    # ---- bulk accessor vs per-sample accessor ----
    if isinstance(bulk, str):
        accepted = bulk == "notImplemented" and k == "pl" and (case["topk"] is not None or case["tau"] != "none")
        if not accepted:
            return Failure(f"{k}:bulk-exception:{bulk}", f"{name}.getall_class() raised {bulk} while every getitem_class(i) succeeds for {tag}",
                           orig, items, bulk)
        bulk = None
    elif not isinstance(bulk, list) or len(bulk) != n:
        return Failure(f"{k}:bulk-length", f"{name}.getall_class() has not len(dataset) entries for {tag}", orig, n, bulk)
    if k in REWRITING:
        if bulk is not None and bulk != items:
            return Failure(f"{k}:bulk-vs-item", f"{name}.getall_class() differs from [getitem_class(i) for i in range(len)] for {tag}", orig, items, bulk)
        for src, vals in (("getitem_class", items), ("getall_class", bulk or [])):
            for i, v in enumerate(vals):
                for form, ann in announced:
                    if not (isinstance(v, int) and (v == -1 or 0 <= v < ann)):
                        return Failure(f"{k}:range", f"{name}.{src} yields {v} at {i}, outside 0..{ann - 1} announced by {form} (and not -1) for {tag}",
                                       orig, f"-1 or 0 <= l < {ann}", vals)
    else:
        f = encoding_oracle(case, items, bulk, announced, name, tag, orig)
        if f:
            return f
    if k == "swap":
        ap = real.get("apply")
        if isinstance(ap, list):
            for i in range(n):
                if not ap[i] and items[i] != labels[i]:
                    return Failure("swap:apply-flag", f"{name}: getitem_apply({i}) is False but the label changed from {labels[i]} to {items[i]} for {tag}",
                                   orig, labels[i], items[i])
    if k == "pl" and case["topk"] is not None:
        seeds = [[ev[2] for ev in c if ev[0] == "seed"] for c in real["calls"]]
        if any(s != [case["seed"] + i] for i, s in enumerate(seeds)):
            return Failure("pl:seed", f"{name}: per-sample generator is not seeded with seed + idx for {tag}", orig,
                           [[case['seed'] + i] for i in range(n)], seeds)
    # ---- function of constructor arguments and seed ----
    ag = real.get("again")
    if ag is not None:
        if ag.get("ctor"):
            return Failure(f"{k}:reproducible", f"{name}: second construction with equal arguments raised {ag['ctor']} for {tag}", orig, "ok", ag["ctor"])
        if not _same_outputs(ag["items"], items) or not _same_outputs(ag["bulk"], real["bulk"]):
            return Failure(f"{k}:reproducible", f"{name}: equal constructor arguments / seed under a different global RNG state give different labels for {tag}",
                           orig, {"items": items, "bulk": real["bulk"]}, ag)
    return None


def _same_outputs(a, b):
    if isinstance(a, list) and isinstance(b, list):
        return len(a) == len(b) and all(_same_outputs(x, y) for x, y in zip(a, b))
    if isinstance(a, dict) and isinstance(b, dict):
        return a.keys() == b.keys() and all(_same_outputs(a[k], b[k]) for k in a)
    return a == b


def encoding_oracle(case, items, bulk, announced, name, tag, orig):
    k, C, labels = case["w"], case["C"], case["labels"]
    if bulk != labels:
        return Failure(f"{k}:bulk-vs-item", f"{name}.getall_class() (delegated path) does not yield the class indices for {tag}", orig, labels, bulk)
    for i, (y, it) in enumerate(zip(labels, items)):
        if k == "ls" and case["s"] == 0:
            if it != y:
                return Failure("ls:identity", f"{name}(smoothing=0).getitem_class({i}) is {it}, label {y} for {tag}", orig, y, it)
            continue
        if y == -1:
            continue        # unlabeled marker: nothing to encode
        if k == "ls" and C == 1:
            if not (isinstance(it, dict) and "s" in it):
                return Failure("ls:binary", f"{name} binary case returns {it} for {tag}", orig, "a scalar", it)
            q = it["s"]
            okq = -TOL <= q <= 1 + TOL and (q >= 0.5 - TOL if y == 1 else q <= 0.5 + TOL)
            if case["s"] <= 0.99:
                okq = okq and (q > 0.5 if y == 1 else q < 0.5)
            if not okq:
                return Failure("ls:binary", f"{name} binary label {y} smoothed to {q} for {tag}", orig, "in [0,1] on the side of the label", q)
            continue
        for form, ann in announced:
            if not (isinstance(it, dict) and "v" in it and len(it["v"]) == ann):
                return Failure(f"{k}:encoding-shape", f"{name}.getitem_class({i}) is not a vector of as many entries as {form} announces ({ann}) for {tag}",
                               orig, ann, it)
        v = it["v"]
        if any(x < -TOL for x in v):
            return Failure(f"{k}:negative", f"{name}.getitem_class({i}) has a negative entry for {tag}", orig, ">= 0", v)
        if abs(sum(v) - 1.) > 1e-5:
            return Failure(f"{k}:sum", f"{name}.getitem_class({i}) sums to {sum(v)} for {tag}", orig, 1.0, v)
        strict = k == "oh" or case["s"] <= 0.99
        for j, x in enumerate(v):
            if j != y and (x >= v[y] if strict else x > v[y] + TOL):
                return Failure(f"{k}:argmax", f"{name}.getitem_class({i}): class {y} is not the {'strict ' if strict else ''}argmax for {tag}", orig, y, v)
        if k == "oh" and any(x not in (0., 1.) for x in v):
            return Failure("oh:entries", f"{name}.getitem_class({i}) is not 0/1 for {tag}", orig, "0/1", v)
    return None


# ----------------------------------------------------------------------------------------------
# structural obligations on the wrapper classes (which accessors a class defines itself)
# ----------------------------------------------------------------------------------------------
ALLOWED_EXTRA = {"cg": {"getitem_class_before_grouping", "getall_class_before_grouping"}, "swap": {"getitem_apply", "getall_apply"},
                 "pl": {"getitem_confidence"}}


def structural():
    """[(key, what)] — every wrapper defines only class accessors (others are delegated untouched); every rewriting wrapper that defines
    getitem_class also defines getall_class (else the bulk path is the wrapped dataset's)"""
    import importlib
    out = []
    for k in KINDS:
        cls = getattr(importlib.import_module(MODULES[k]), NAMES[k])
        own = {a for a in cls.__dict__ if a.startswith(("getitem_", "getall_", "getshape_"))}
        foreign = {a for a in own if not a.endswith("_class")} - ALLOWED_EXTRA.get(k, set())
        if foreign or "__getitem__" in cls.__dict__ or "__len__" in cls.__dict__:
            out.append((f"{k}:others-touched", f"{NAMES[k]} overrides accessors other than the class accessor: {sorted(foreign)}"))
        if k in REWRITING and "getitem_class" in own and "getall_class" not in own:
            out.append((f"{k}:bulk-vs-item", f"{NAMES[k]} defines getitem_class but no getall_class: the bulk path is the wrapped dataset's"))
    return out


# ----------------------------------------------------------------------------------------------
# case generation
# ----------------------------------------------------------------------------------------------
SEEDS = [0, 0, 1, 5, 42, 9243]
LOGITS = [-1., -0.5, 0., 0.5, 1., 1.5, 2., 3.]


def gen_labels(rng, C, n, unlabeled):
    ls = [rng.randrange(C) for _ in range(n)]
    if unlabeled and rng.random() < 0.4:
        for i in rng.sample(range(n), rng.randint(1, max(1, n // 2))):
            ls[i] = -1
    return ls


def gen_soft(rng, n, C, probs):
    rows = []
    for _ in range(n):
        z = rng.random()
        if probs:
            parts = [0] * C
            for _ in range(8):
                parts[rng.randrange(C)] += 1
            row = [p / 8 for p in parts]
        elif z < 0.2:
            row = [rng.choice(LOGITS)] * C          # all equal: softmax max = 1/C exactly for C a power of two
        else:
            row = [rng.choice(LOGITS) for _ in range(C)]
        rows.append([rat(x) for x in row])
    return rows


def gen_case(rng, kind, big=False, preset=None):
    """preset = (n, C): parameters for a wrapper that will see n samples with C classes (the top of a stack); no rejection corners there"""
    C = rng.randint(1, 8 if big else 6)
    n = rng.randint(1, 12 if big else 8)
    seed = rng.choice(SEEDS)
    odd = rng.random() < 0.08      # rejection / out-of-domain corner: compared with the model, never judged
    g = rng.randrange(10 ** 6)
    if preset is not None:
        n, C = preset
        odd = False
    c = {"w": kind, "C": C, "g": g}
    if kind == "cg":
        C = c["C"] = rng.choice([1, 2, 3, 4, 4, 6, 6, 6] + ([8] if big else []))
        if preset is not None:
            C = c["C"] = preset[1]
        divs = [d for d in range(1, C + 1) if C % d == 0]
        c.update(labels=gen_labels(rng, C, n, False), cpg=rng.choice(divs), shuffle=rng.random() < 0.6,
                 seed=None if rng.random() < 0.1 else seed)
        if odd:
            z = rng.choice(["nodiv", "zero", "unl"])
            if z == "nodiv":
                c["cpg"] = rng.randint(1, C + 2)
            elif z == "zero":
                c["cpg"] = 0
            else:
                c["labels"][rng.randrange(n)] = -1
        return c
    if kind == "rs":
        c.update(labels=gen_labels(rng, C, n, False), cps=rng.randint(1, C + 1), splits=rng.choice([1, 1, 2, 2, 3, 4]),
                 shuffle=rng.random() < 0.7, seed=None if rng.random() < 0.1 else seed)
        if odd:
            z = rng.choice(["cps0", "splits0", "unl"])
            if z == "cps0":
                c["cps"] = 0
            elif z == "splits0":
                c["splits"] = 0
            else:
                c["labels"][rng.randrange(n)] = -1
        return c
    if kind == "swap":
        c.update(labels=gen_labels(rng, C, n, True), p=rng.choice([0., 0.25, 0.5, 0.5, 1., round(rng.random(), 3)]),
                 seed=None if rng.random() < 0.1 else seed)
        if odd:
            c["p"] = rng.choice([1.5, -0.1])
        return c
    if kind == "ow":
        c.update(labels=gen_labels(rng, C, n, True), classes=gen_labels(rng, C, n, True), fmt=rng.choice(["list", "tensor"]))
        if odd:
            c["classes"] = c["classes"] + [0] if rng.random() < 0.5 else c["classes"][:-1]
        return c
    if kind == "ag":
        c.update(labels=gen_labels(rng, C, n, True), W=rng.randint(1, n))
        if odd:
            c["W"] = rng.choice([0, n + 1, 2 * n, 2 * n + 1, 3 * n])
        return c
    if kind == "pl":
        form = rng.choice(["hard", "soft", "thr", "thr", "topk", "topk"])
        if preset is not None and C < 2:
            form = "hard"
        if form != "hard" or odd:
            C = c["C"] = max(C, 2)       # an N x 1 table is squeezed to hard labels by the constructor (not modelled)
        labels = gen_labels(rng, C, n, True)
        c.update(labels=labels, hard=None, soft=None, thr=None, topk=None, tau="none", seed=None)
        if form == "hard":
            c["hard"] = gen_labels(rng, C, n, True)
        elif form == "soft":
            c["soft"] = gen_soft(rng, n, C, rng.random() < 0.3)
        elif form == "thr":
            c["soft"] = gen_soft(rng, n, C, rng.random() < 0.3)
            c["thr"] = rng.choice([0., 0.25, 0.5, 0.5, 1. / C, 0.9, 0.3, 1.])
        else:
            c["tau"] = rng.choice(["none", "inf", "inf", "fin"])
            c["soft"] = gen_soft(rng, n, C, c["tau"] == "none")
            c["topk"] = rng.randint(1, C)
            c["seed"] = None if rng.random() < 0.1 else seed
            c["tauv"] = rng.choice([0.5, 1., 2.])
        if odd:
            z = rng.choice(["hard+thr", "topk+thr", "tau-only", "len", "cols", "topk>C", "hard+topk"])
            if z == "hard+thr":
                c.update(hard=gen_labels(rng, C, n, True), soft=None, thr=0.5, topk=None, tau="none")
            elif z == "topk+thr":
                c.update(hard=None, soft=gen_soft(rng, n, C, False), thr=0.5, topk=1, tau="inf", seed=seed)
            elif z == "tau-only":
                c.update(hard=None, soft=gen_soft(rng, n, C, False), topk=None, tau="fin", tauv=1.)
            elif z == "len":
                if c["hard"] is not None:
                    c["hard"] = c["hard"] + [0]
                else:
                    c["soft"] = c["soft"] + [c["soft"][0]]
            elif z == "cols":
                c.update(hard=None, soft=gen_soft(rng, n, C + 1, False))
            elif z == "topk>C":
                c.update(hard=None, soft=gen_soft(rng, n, C, False), thr=None, topk=C + 1, tau="inf", seed=seed)
            else:
                c.update(hard=gen_labels(rng, C, n, True), soft=None, thr=None, topk=1, tau="inf", seed=seed)
        return c
    if kind == "rc":
        mode = rng.choice(["random", "randperm", "gatherbug", "gatherbug"])
        c.update(labels=gen_labels(rng, C, n, True), mode=mode, nc=rng.randint(1, 6), explicit_nc=rng.random() < 0.7, seed=seed,
                 W=rng.randint(1, n), via_setters=rng.random() < 0.4)
        if odd:
            z = rng.choice(["mode", "W"])
            if z == "mode":
                c["mode"] = "shuffle"
            else:
                c.update(mode="gatherbug", W=rng.choice([n + 1, 2 * n, 2 * n + 1, 3 * n + 1]))
        return c
    if kind == "semi":
        c.update(labels=gen_labels(rng, C, n, True), p=rng.choice([0., 0.25, 0.5, 0.7, 1., 0.1, 0.3, 0.9, round(rng.random(), 3)]), seed=seed)
        if odd:
            c["p"] = rng.choice([1.5, -0.1])
        return c
    if kind == "ls":
        c.update(labels=gen_labels(rng, 2 if C == 1 else C, n, True), s=rng.choice([0, 0., 0.1, 0.1, 0.25, 0.5, 0.9, 1., 1, round(rng.random(), 3)]))
        if odd:
            z = rng.choice(["s", "label", "neg"])
            if z == "s":
                c["s"] = rng.choice([1.5, -0.1])
            elif z == "label":
                c["labels"][rng.randrange(n)] = C + rng.randint(0, 1)
            else:
                c["labels"][rng.randrange(n)] = -rng.randint(2, C + 2)
        return c
    if kind == "oh":
        c.update(labels=gen_labels(rng, C, n, False))
        if odd:
            c["labels"][rng.randrange(n)] = rng.choice([-1, C, C + 1])
        return c
    raise ValueError(kind)


def gen_under_spec(rng, kind, n, C, unl, allow_unl):
    """(spec, n', C', unl', pyint') of one inner level over n samples / C classes (unl: -1 may occur), in the level's domain; None if the
    kind does not fit. The primed values are only used to fit the parameters of the levels above (the check itself observes them)."""
    seed = rng.choice(SEEDS[1:])
    if kind == "rs":
        if unl:
            return None
        cps, splits = rng.choice([1, 2, 2, 2, 3, C, C + 1]), rng.choice([1, 1, 2, 3])
        return ({"w": "rs", "cps": cps, "splits": splits, "shuffle": rng.random() < 0.7, "seed": seed}, n, math.ceil(C / cps) * splits, False, False)
    if kind == "rc":
        mode = rng.choice(["random", "randperm", "gatherbug"])
        explicit = rng.random() < 0.8
        nc = rng.randint(1, 6)
        return ({"w": "rc", "mode": mode, "nc": nc, "explicit_nc": explicit, "seed": seed, "W": rng.randint(1, n)}, n, nc if explicit else C, False, True)
    if kind == "cg":
        if unl:
            return None
        return ({"w": "cg", "cpg": rng.choice([d for d in range(1, C + 1) if C % d == 0]), "shuffle": rng.random() < 0.6, "seed": seed}, n, C, False, False)
    if kind == "swap":
        return ({"w": "swap", "p": rng.choice([0., 0.25, 0.5, 1., round(rng.random(), 3)]), "seed": seed}, n, C, unl, True)
    if kind == "semi":
        if not allow_unl:
            return None
        p = rng.choice([0., 0.25, 0.5, 0.7, 1.])
        return ({"w": "semi", "p": p, "seed": seed}, n, C, unl or int(n * p) >= 1, None)
    if kind == "ag":
        return ({"w": "ag", "W": rng.randint(1, n)}, n, C, unl, None)
    if kind == "ow":
        classes = gen_labels(rng, C, n, allow_unl)
        return ({"w": "ow", "classes": classes, "fmt": rng.choice(["list", "tensor"])}, n, C, -1 in classes, True)
    if kind == "pl":
        form = rng.choice(["hard", "soft", "thr"] if C >= 2 and allow_unl else ["hard", "soft"] if C >= 2 else ["hard"])
        spec = {"w": "pl", "hard": None, "soft": None, "thr": None, "topk": None, "tau": "none", "seed": None}
        if form == "hard":
            spec["hard"] = gen_labels(rng, C, n, allow_unl)
        else:
            spec["soft"] = gen_soft(rng, n, C, rng.random() < 0.3)
            if form == "thr":
                spec["thr"] = rng.choice([0., 0.25, 0.5, 0.9])
        return (spec, n, C, form == "thr" or (form == "hard" and -1 in spec["hard"]), True)
    if kind in ("plain", "xt"):
        return ({"w": kind}, n, C, unl, None)
    if kind == "shuf":
        return ({"w": "shuf", "seed": seed}, n, C, unl, None)
    if kind == "sub":
        idx = [rng.randrange(n) for _ in range(rng.randint(1, n))]
        return ({"w": "sub", "indices": idx}, len(idx), C, unl, None)
    if kind == "rep":
        if n > 5:
            return None
        return ({"w": "rep", "rep": 2}, 2 * n, C, unl, None)
    raise ValueError(kind)


COUNT_CHANGERS = ("rs", "rs", "rc")        # the wrappers whose announced class count differs from the wrapped dataset's
NO_UNLABELED_TOPS = ("cg", "rs", "oh")


def gen_stack_case(rng, top, depth=None):
    """a wrapper of kind `top` on 1..3 other wrappers (label-rewriting ones and neutral ones) on the list dataset. Compositions are part of
    the property's quantifier: the judged wrapper only sees a KDDataset -- labels per sample / in bulk and a class-shape query --, and
    what it announces itself must hold for whatever is stacked on it."""
    allow_unl = top not in NO_UNLABELED_TOPS
    for _ in range(30):
        C, n = rng.randint(2, 8), rng.randint(2, 8)
        labels = gen_labels(rng, C, n, allow_unl and rng.random() < 0.5)
        st = (n, C, -1 in labels, True)
        under = []
        d = depth or rng.choice([1, 1, 2, 2, 2, 3, 3])
        for j in range(d):
            for _ in range(12):
                if j == 0 and d > 1 and rng.random() < 0.6:
                    kind = rng.choice(COUNT_CHANGERS)
                else:
                    kind = rng.choice(REWRITING + NEUTRAL + ("plain", "xt", "swap", "semi"))
                r = gen_under_spec(rng, kind, st[0], st[1], st[2], allow_unl)
                if r is not None:
                    under.append(r[0])
                    st = (r[1], r[2], r[3], st[3] if r[4] is None else r[4])
                    break
        if not under or (top in ENCODING and not st[3]) or (not allow_unl and st[2]):
            continue
        c = gen_case(rng, top, preset=(st[0], st[1]))
        c["labels"], c["C"], c["under"] = labels, C, under
        return c
    return gen_case(rng, top)


def stack_sweep():
    """systematic three-level grid: every judged wrapper kind x every kind of middle level x a bottom level that changes the class count"""
    labels, C, n = [(7 * i + 3) % 6 for i in range(7)], 6, 7
    bottoms = [({"w": "rs", "cps": 2, "splits": 1, "shuffle": True, "seed": 3}, 3), ({"w": "rs", "cps": 3, "splits": 2, "shuffle": True, "seed": 1}, 4),
               ({"w": "rc", "mode": "random", "nc": 3, "explicit_nc": True, "seed": 5, "W": 1}, 3),
               ({"w": "rc", "mode": "randperm", "nc": 4, "explicit_nc": True, "seed": 2, "W": 1}, 4)]
    middles = [None, {"w": "plain"}, {"w": "xt"}, {"w": "swap", "p": 0.3, "seed": 1}, {"w": "semi", "p": 0.25, "seed": 4}, {"w": "ag", "W": 2},
               {"w": "shuf", "seed": 1}, {"w": "cg", "cpg": 1, "shuffle": True, "seed": 6}]
    for bi, (bottom, C2) in enumerate(bottoms):
        for mi, mid in enumerate(middles):
            for top in KINDS:
                if top in ENCODING and (mid is None or mid["w"] != "swap") and bottom["w"] == "rs":
                    under = [bottom] + ([mid] if mid else []) + [{"w": "swap", "p": 0.5, "seed": 1}]     # python-int labels for the encoders
                else:
                    under = [bottom] + ([mid] if mid else [])
                c = gen_case(random.Random(f"stack:{bi}:{mi}:{top}"), top, preset=(n, C2))
                c["labels"], c["C"], c["under"] = list(labels), C, [dict(u) for u in under]
                yield c


def sweep_cases():
    """complete small sweeps of the purely arithmetical wrappers"""
    for n in range(1, 9):
        labels = [(i * 5 + 1) % 6 for i in range(n)]
        for W in range(0, 2 * n + 3):
            yield {"w": "ag", "C": 6, "g": n, "labels": labels, "W": W}
        for nc in range(1, 5):
            for W in range(1, n + 2):
                yield {"w": "rc", "C": 6, "g": n, "labels": labels, "mode": "gatherbug", "nc": nc, "explicit_nc": True, "seed": 0, "W": W}
    for C in range(1, 7):
        for s in (0, 0.1, 0.5, 1.0):
            yield {"w": "ls", "C": C, "g": C, "labels": list(range(C)) + [-1], "s": s}
        yield {"w": "oh", "C": C, "g": C, "labels": list(range(C))}
        for cpg in range(1, C + 1):
            if C % cpg == 0:
                for n in (3, 8):
                    yield {"w": "cg", "C": C, "g": C, "labels": [(i * i) % C for i in range(n)], "cpg": cpg, "shuffle": False, "seed": 0}


def signature(case, real):
    if case.get("under"):
        if real.get("eff") is None:
            return ("stack", case["w"], tuple(u["w"] for u in case["under"]), real.get("ctor"))
        return signature({kk: vv for kk, vv in effective(case, real).items() if kk != "under"}, real) + (tuple(u["w"] for u in case["under"]),)
    k = case["w"]
    n, C = len(case["labels"]), case["C"]
    out = (real.get("ctor"), tuple(sorted({v for v in real.get("items", []) if isinstance(v, str)})),
           real.get("bulk") if isinstance(real.get("bulk"), str) else "list")
    base = (k, min(n, 4), min(C, 3), -1 in case["labels"])
    if k == "cg":
        return base + (case["cpg"], case["shuffle"], case["seed"] is None) + out
    if k == "rs":
        return base + (case["cps"], case["splits"], case["shuffle"]) + out
    if k == "swap":
        return base + (case["p"] in (0., 1.), sum(real.get("apply", [])) if isinstance(real.get("apply"), list) else -1) + out
    if k == "ow":
        return base + (case.get("fmt"),) + out
    if k == "ag":
        W = case["W"]
        return (k, n, W) + out
    if k == "pl":
        return base + (case.get("hard") is not None, case["thr"], case["topk"], case["tau"], case["seed"] is None,
                       tuple(real.get("items", []))[:3] if real.get("ctor") == "ok" and case["thr"] is not None else None) + out
    if k == "rc":
        return (k, n, case["mode"], case["nc"], case.get("W") if case["mode"] == "gatherbug" else None) + out
    if k == "semi":
        return base + (int(n * case["p"]) if 0 <= case["p"] <= 1 else -1,) + out
    if k == "ls":
        return (k, C, case["s"], -1 in case["labels"]) + out
    return base + out


# ----------------------------------------------------------------------------------------------
# out-of-claim observations (evidence only)
# ----------------------------------------------------------------------------------------------
def observations():
    obs = []
    import importlib
    try:
        Swap = getattr(importlib.import_module(MODULES["swap"]), "SwapLabelWrapper")
        w = Swap(dataset([0, 1, 2], 3), p=0.5, seed=0)
        try:
            w.getall_apply()
        except NameError as e:
            obs.append(f"SwapLabelWrapper.getall_apply raises NameError ({e}); the apply accessor is outside the claim")
    except Exception as e:
        obs.append(f"SwapLabelWrapper.getall_apply probe: {type(e).__name__}: {e}")
    obs.append("ClassGroupsWrapper / RandomSuperclassWrapper / SwapLabelWrapper with seed=None and KDPseudoLabelWrapper(topk, seed=None) draw from the "
               "process-global numpy state through GlobalRng: the mapping then depends on the global state (compared with the model on the "
               "recorded draws, not judged for reproducibility)")
    return obs


# ----------------------------------------------------------------------------------------------
# the check
# ----------------------------------------------------------------------------------------------
class C16(PropertyCheck):
    pid = "C16"
    claimed = True
    props_modules = ["KDVerif.Props.C16"]
    extra_build = ["KDVerif.Driver.Labels"]
    driver_main = "mains/Labels.lean"
    design_ref = "DESIGN.md 3 (C16)"
    anchored = ["kappadata/wrappers/dataset_wrappers/class_groups_wrapper.py",
                "kappadata/wrappers/dataset_wrappers/random_superclass_wrapper.py",
                "kappadata/wrappers/dataset_wrappers/swap_label_wrapper.py",
                "kappadata/wrappers/dataset_wrappers/overwrite_classes_wrapper.py",
                "kappadata/wrappers/dataset_wrappers/allgather_class_wrapper.py",
                "kappadata/wrappers/dataset_wrappers/kd_pseudo_label_wrapper.py",
                "kappadata/wrappers/sample_wrappers/kd_random_class_wrapper.py",
                "kappadata/wrappers/sample_wrappers/semi_wrapper.py",
                "kappadata/wrappers/sample_wrappers/label_smoothing_wrapper.py",
                "kappadata/wrappers/sample_wrappers/one_hot_wrapper.py",
                "kappadata/utils/one_hot.py", "kappadata/utils/global_rng.py",
                # the machinery every stacked wrapper answers through (attribute delegation, getshape / getdim, bulk helpers)
                "kappadata/datasets/kd_wrapper.py", "kappadata/datasets/kd_dataset.py", "kappadata/datasets/kd_subset.py",
                "kappadata/utils/getall_as_tensor.py"]
    assumptions = [
        "numpy Generator / GlobalRng contracts (hypotheses of the theorems; shapes checked on every recorded draw): permuted(x) is a rearrangement of x, "
        "permutation(k) a permutation of range(k), integers(lo, hi) lies in [lo, hi), random() in [0, 1), multinomial(1, w).argmax() < len(w); "
        "torch.randint(nc) < nc, torch.randperm(nc) a permutation of range(nc)",
        "equal generator seeds give equal draws (not carried by the model; the oracle rebuilds every seeded wrapper under a different global RNG state)",
        "the wrapped dataset is coherent itself: getall_class() equals [getitem_class(i)] and returns a fresh list; labels are ints",
        "stacks: a wrapper on other wrappers is judged (and put to the model) as that wrapper over the labels / class count the stack below it hands "
        "out; this is checked level by level on the real objects (a level that is not a coherent int-labelled dataset ends the judgement above it), "
        "the two encoders only over python-int labels (numpy ints from RandomSuperclass / ClassGroups are refused by their own assertion)",
        "torch argmax returns the first maximal position (rowwise and with dim=1); softmax is strictly monotone on the logit grid in scope, so the "
        "argmax of softmax(row) is the argmax of row; softmax(row).max() > threshold and torch.topk(row, k).indices are handed to the model as oracle values",
        "math.ceil(a / b) on the small non-negative integers in scope is exact ceiling division; int(len * semi_percent) is handed to the model as an integer",
        "label smoothing / one-hot are modelled over exact rationals; float32 results are compared within 1e-6",
    ]
    trusted_extra = [
        "modelled by hand (Model/Labels.lean): __init__, _map_cls, getitem_class, getall_class, getshape_class of the ten wrappers named there, "
        "to_one_hot_vector for int labels, einops.rearrange '(s w) -> (w s)', Python/numpy negative indexing, list comprehension exception order",
        "not modelled: uri=... loading (torch.load), confidences, the N x 1 squeeze of KDPseudoLabelWrapper, 0-dim tensor labels, numerics of "
        "softmax / topk / multinomial (oracle values / recorded draws), the generators themselves (recorded tape)",
    ]
    level_text = ("Lean theorems (KDVerif.Props.C16), for all label layouts, class counts, group sizes, splits, probabilities, tables, world sizes and tapes: "
                  "for each of the eight rewriting wrappers the bulk accessor equals the list of per-sample results (or is NotImplementedError for sampled "
                  "pseudo labels), every produced label is -1 or below the announced class count under the stated domain (group size divides the class count, "
                  "0 < world size <= dataset size), label smoothing yields a non-negative vector summing to one whose maximum is the original class (strict "
                  "for smoothing < 1), one-hot likewise with entries 0/1; for the two encoding wrappers the bulk path yields the class index, which is the "
                  "argmax of the per-sample encoding. Model tied to the code by differential correspondence on recorded draws each run, plus an "
                  "independent oracle on the real outputs (bulk == per-sample, range vs every spelling of the class-shape query, other items untouched, "
                  "reproducible for equal seeds under a scrambled global RNG state), on the plain dataset and on stacks of up to four wrappers.")
    level_note = ("trusted: Lean kernel + standard axioms; correspondence harness; generator contracts are hypotheses; 'function of the constructor "
                  "arguments and seed' is carried by the model's signature (arguments + tape, no other input) and checked dynamically by the oracle; "
                  "softmax/topk numerics enter as oracle values; 'other data untouched' is a structural check on the class dictionaries plus the oracle")

    n_random = {"quick": 420, "thorough": 9000}     # per kind
    n_stacks = {"quick": 110, "thorough": 2500}     # per kind: the judged wrapper on 1..3 other wrappers

    def cases(self):
        out = []
        cdir = CORPUS_DIR / "labels"
        if cdir.exists():
            for p in sorted(cdir.glob("*.json")):
                out.append(json.loads(p.read_text()))
        ncorp = len(out)
        sweep = list(sweep_cases()) + list(stack_sweep())
        out += sweep
        for k in KINDS:
            for i in range(self.n_random[self.tier]):
                out.append(gen_case(self.rng, k, big=(self.tier == "thorough" and i % 3 == 0)))
        for k in KINDS:
            for i in range(self.n_stacks[self.tier]):
                out.append(gen_stack_case(self.rng, k))
        return out, ncorp, len(sweep)

    def correspond(self):
        res = CorrResult()
        cases, ncorp, nsweep = self.cases()
        res.rule = (f"{ncorp} corpus + {nsweep} sweep cases (AllgatherClassWrapper n<=8 x world sizes 0..2n+2, gatherbug n<=8 x classes<=4 x world sizes, "
                    f"smoothing/one-hot/class-groups grids) + {self.n_random[self.tier]} seeded random cases per wrapper kind {list(KINDS)} "
                    "(layouts <=8 samples <=6 classes incl. -1 where the wrapper admits it; thorough: a third <=12 samples <=8 classes; group sizes = divisors, "
                    "superclass sizes 1..C+1, splits 1..4, p / smoothing on a grid + random, hard / soft / thresholded / top-k (tau none|inf|finite) tables "
                    "with ties and threshold = 1/C corners, seeds incl. None (global state), ~8% rejection corners); numpy / GlobalRng / torch draws recorded "
                    "and replayed into the model; distinct = (kind, size class, parameters, outcome)"
                    f" + stacks: a three-level grid (every kind x 8 middle levels x 4 class-count-changing bottoms, part of the sweep count) and "
                    f"{self.n_stacks[self.tier]} random stacks per kind (the judged wrapper on 1..3 levels drawn from the eight rewriting wrappers, a "
                    "pass-through KDWrapper subclass, XTransformWrapper, Shuffle / Subset / RepeatWrapper; bottom level biased to the wrappers that change "
                    "the class count); every rewriting level of a stack is judged against the observed dataset it wraps, the label range against every "
                    "spelling of the class-shape query (getshape_class(), getshape('class'), getdim_class(), getdim('class'))")
        res.exhaustive = False
        for key, what in structural():
            res.failures.append(Failure(key, "structural: " + what, {"kind": "structural", "key": key}, "class accessors only, bulk next to per-sample", what))
        res.bump("structural:" + ("ok" if not res.failures else "broken"))
        reals = [run_real(c) for c in cases]
        # a stack case is put to the model as the judged wrapper over the labels / class count handed out by the stack below it
        ecases = [effective(c, r) for c, r in zip(cases, reals)]
        modelled = [i for i, r in enumerate(reals) if not r["ctor"].startswith("under:")]
        got = self.driver.run([model_request(ecases[i], reals[i]) for i in modelled])
        answers = [None] * len(cases)
        for i, a in zip(modelled, got):
            answers[i] = a
        for orig, case, real, ans in zip(cases, ecases, reals, answers):
            res.cases += 1
            res.nontrivial.add(signature(orig, real))
            k = case["w"]
            res.bump(f"kind={k}")
            res.bump(f"{k}:ctor={real['ctor']}")
            if orig.get("under"):
                res.bump(f"stack:depth={len(orig['under']) + 1}")
                res.bump(f"stack:directly-on={orig['under'][-1]['w']}")
                if any(u["w"] in ("rs", "rc") for u in orig["under"][:-1]):
                    res.bump("stack:class-count-changed-two-or-more-levels-below")
            if ans is None:
                # the stack below the judged wrapper is not a coherent int-labelled dataset: its own levels are still judged
                f = oracle(orig, real)
                if f is not None and len(res.failures) < 60 and (not any(g.key == f.key for g in res.failures) or len(res.failures) < 5):
                    res.failures.append(f)
                continue
            if real["ctor"] == "ok":
                res.bump(f"{k}:bulk={'list' if isinstance(real['bulk'], list) else real['bulk']}")
                for e in {v for v in real["items"] if isinstance(v, str)}:
                    res.bump(f"{k}:item={e}")
            res.bump(f"{k}:{'in' if in_domain(case) else 'out-of'}-domain")
            if "error" in ans:
                res.disagreements.append(Disagreement(orig, ans, None, "driver error"))
                continue
            diff = compare(case, ans, real)
            if diff is not None and len(res.disagreements) < 50:
                res.disagreements.append(Disagreement(orig, diff[0], diff[1]))
            f = oracle(orig, real)
            if f is not None and len(res.failures) < 60:
                if not any(g.key == f.key for g in res.failures) or len(res.failures) < 5:
                    res.failures.append(f)
            if len(res.samples) < 5 and real["ctor"] == "ok" and in_domain(case) and k not in [s["case"]["w"] for s in res.samples] \
                    and k in ("ag", "cg", "pl", "rs", "semi") and not orig.get("under"):
                res.samples.append({"case": {kk: vv for kk, vv in case.items() if kk != "soft"}, "items": real["items"], "bulk": real["bulk"],
                                    "shape": real["shape"]})
        res.observations += observations()
        # one (smallest) failure per key first, so that the replays written cover every failing call site
        res.failures.sort(key=lambda f: (f.input.get("kind") == "structural", len(json.dumps(f.input, default=str))))
        first, rest, seen = [], [], set()
        for f in res.failures:
            (rest if f.key in seen else first).append(f)
            seen.add(f.key)
        res.failures = first + rest
        return res

    def replay_input(self, inp):
        if inp.get("kind") == "structural":
            for key, what in structural():
                if key == inp.get("key"):
                    return Failure(key, "structural: " + what, inp, None, what)
            return None
        return oracle(inp, run_real(inp))

    def search(self, budget_s, hints):
        t0 = time.time()
        out = []
        for h in hints:
            f = self.replay_input(h)
            if f:
                out.append(f)
        rng = random.Random(self.seed + 1616)
        it = iter(list(sweep_cases()) + list(stack_sweep()))
        while not out and time.time() - t0 < budget_s:
            c = next(it, None) or (gen_stack_case if rng.random() < 0.4 else gen_case)(rng, rng.choice(KINDS))
            f = self.replay_input(c)
            if f:
                out.append(f)
        return out
