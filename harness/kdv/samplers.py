"""C12 / C13 — rank-aware and composed-epoch samplers: case generator, real-code runner with a recording torch proxy,
property oracles (independent of the Lean model).

A case = a sampler CONFIGURATION (what the model and the property speak about) + optionally a SITUATION it runs in (process
environment, shared input objects, history of the dataset object, other live sampler objects, copies of used objects; see `run_real`).
The situation is never an input of the model or of the oracle: whatever it is, the explicitly constructed ranks have to produce the
streams the property promises for the configuration."""
import copy
import itertools
import json
import os
import pickle
import random
import subprocess
import sys
import time
from contextlib import contextmanager
from pathlib import Path

from .common import CorrResult, Disagreement, Failure, PropertyCheck

MAX_DRAWS = 300      # a run that asks torch for more draws than this is treated as non-terminating
MAX_OUT = 4000
EPOCHS = (0, 2, 1, 0, 3)      # re-used objects see rewinds (2 -> 1 -> 0); fresh objects give the reference


# ----------------------------------------------------------------------------------------------
# recording proxy for the `torch` name inside the sampler modules
# ----------------------------------------------------------------------------------------------
class _TooManyDraws(Exception):
    pass


class _RecGen:
    """stands in for torch.Generator(): records manual_seed, remembers its creation ordinal"""

    def __init__(self, rec, real):
        self._rec, self._real = rec, real
        self.ordinal = rec.n_gens
        rec.n_gens += 1

    def manual_seed(self, seed):
        self._rec.event(["seed", int(seed)])
        self.last_seed = int(seed)
        self._real.manual_seed(seed)
        return self

    def __getattr__(self, k):
        if k.startswith("_"):      # half-built copies (deepcopy / unpickling) must not recurse through `_real`
            raise AttributeError(k)
        return getattr(self._real, k)

    # a sampler object that keeps its generator is copied / pickled together with it: the copy draws from a generator with the
    # same state and keeps reporting to the recorder of the run
    def _clone(self):
        g = _RecGen.__new__(_RecGen)
        g._rec, g.ordinal = self._rec, self.ordinal
        if hasattr(self, "last_seed"):
            g.last_seed = self.last_seed
        g._real = self._rec.torch.Generator(device=self._real.device)
        g._real.set_state(self._real.get_state())
        return g

    def __deepcopy__(self, memo):
        return self._clone()

    def __copy__(self):
        return self._clone()

    def __reduce__(self):
        _PICKLED_GENS.append(self._clone())
        return _unpickle_gen, (len(_PICKLED_GENS) - 1,)


_PICKLED_GENS = []      # pickling happens in-process only (pickle.loads(pickle.dumps(sampler))): the clone is handed over by position


def _unpickle_gen(i):
    return _PICKLED_GENS[i]._clone()


_REC_TENSOR_CLS = {}


def _rec_tensor_class():
    """a real torch.Tensor subclass (every tensor operation keeps working, so the code under test may use the result of
    torch.empty(...) as an ordinary buffer) whose `.random_()` is recorded -- the `torch.empty((), dtype=int64).random_()` seed idiom"""
    if "cls" not in _REC_TENSOR_CLS:
        import torch

        class _RecTensor(torch.Tensor):
            def random_(self, *a, generator=None, **kw):
                rec = getattr(self, "_kdv_rec", None)
                plain = self.as_subclass(torch.Tensor)
                if rec is None:
                    return plain.random_(*a, generator=generator, **kw)
                bits = {torch.int64: 64, torch.int32: 32}.get(plain.dtype, 0)
                out = plain.random_(*a, generator=rec.unwrap(generator), **kw)
                rec.event(["random_", rec.gen_id(generator), bits], [int(v) for v in out.flatten().tolist()])
                return out

        _REC_TENSOR_CLS["cls"] = _RecTensor
    return _REC_TENSOR_CLS["cls"]


class Recorder:
    def __init__(self):
        import torch
        self.torch = torch
        self.reset()

    def reset(self):
        self.reqs, self.tape, self.n_gens, self.n_calls = [], [], 0, 0

    def event(self, req, result=None):
        self.n_calls += 1
        if self.n_calls > MAX_DRAWS:
            raise _TooManyDraws()
        self.reqs.append(req)
        if result is not None:
            self.tape.append(result)

    def gen_id(self, g):
        """which generator a draw uses, by PROVENANCE not by creation order: the value it was last seeded with (so a generator object
        that is kept and re-seeded is the same as a new one seeded with that value)"""
        if g is None:
            return -1
        if isinstance(g, _RecGen):
            ls = getattr(g, "last_seed", None)
            return -3 if ls is None else ["seeded", ls]
        return -2

    def unwrap(self, g):
        return g._real if isinstance(g, _RecGen) else g

    # --- the proxied callables ---
    def Generator(self, *a, **kw):
        return _RecGen(self, self.torch.Generator(*a, **kw))

    def randperm(self, n, *a, generator=None, **kw):
        out = self.torch.randperm(n, *a, generator=self.unwrap(generator), **kw)
        self.event(["randperm", self.gen_id(generator), int(n)], out.tolist())
        return out

    def multinomial(self, weights, num_samples, replacement=False, *, generator=None, **kw):
        out = self.torch.multinomial(weights, num_samples, replacement, generator=self.unwrap(generator), **kw)
        self.event(["multinomial", self.gen_id(generator), len(weights), int(num_samples), bool(replacement)], out.tolist())
        return out

    def randint(self, *a, generator=None, **kw):
        out = self.torch.randint(*a, generator=self.unwrap(generator), **kw)
        high = kw.get("high", a[0] if a else None)
        self.event(["randint", self.gen_id(generator), int(high), int(out.numel())], out.tolist())
        return out

    def empty(self, *a, **kw):
        t = self.torch.empty(*a, **kw).as_subclass(_rec_tensor_class())
        t._kdv_rec = self
        return t

    def arange(self, *a, **kw):
        self.n_calls += 1
        if self.n_calls > MAX_DRAWS:
            raise _TooManyDraws()
        return self.torch.arange(*a, **kw)


class _TorchProxy:
    """module-like object: the RNG entry points go to the recorder, everything else to the real torch"""
    _REC = ("Generator", "randperm", "multinomial", "randint", "empty", "arange")
    _UNRECORDED_RNG = ("rand", "randn", "rand_like", "randn_like", "randint_like", "bernoulli", "normal", "poisson",
                       "manual_seed", "seed")

    def __init__(self, rec):
        object.__setattr__(self, "_rec", rec)

    def __getattr__(self, k):
        if k in self._REC:
            return getattr(self._rec, k)
        if k in self._UNRECORDED_RNG:
            raise AttributeError(f"sampler used unrecorded RNG entry point torch.{k}")
        return getattr(self._rec.torch, k)


def _patched_modules():
    import kappadata.samplers.class_balanced_sampler as m1
    import kappadata.samplers.distributed_sampler as m2
    import kappadata.samplers.random_sampler as m3
    import kappadata.samplers.semi_sampler as m4
    import kappadata.samplers.weighted_sampler as m5
    import torch.utils.data.distributed as m6
    import torch.utils.data.sampler as m7
    return [m1, m2, m3, m4, m5, m6, m7]


@contextmanager
def recording(rec):
    proxy = _TorchProxy(rec)
    mods = _patched_modules()
    saved = [m.__dict__.get("torch") for m in mods]
    try:
        for m in mods:
            m.torch = proxy
        yield
    finally:
        for m, s in zip(mods, saved):
            if s is None:
                m.__dict__.pop("torch", None)
            else:
                m.torch = s


@contextmanager
def unrecorded():
    """inside `recording`: switch the sampler modules back to the real torch while OTHER objects (bystanders) are driven"""
    import torch
    mods = _patched_modules()
    cur = [m.__dict__.get("torch") for m in mods]
    try:
        for m, c in zip(mods, cur):
            if c is not None:
                m.torch = torch
        yield
    finally:
        for m, c in zip(mods, cur):
            if c is not None:
                m.torch = c


@contextmanager
def environment(env):
    """process environment of the case (launcher variables such as RANK / WORLD_SIZE) for the duration of a run"""
    if not env:
        yield
        return
    saved = {k: os.environ.get(k) for k in env}
    try:
        for k, v in env.items():
            os.environ[k] = str(v)
        yield
    finally:
        for k, v in saved.items():
            if v is None:
                os.environ.pop(k, None)
            else:
                os.environ[k] = v


# ----------------------------------------------------------------------------------------------
# real code runner
# ----------------------------------------------------------------------------------------------
class _LenDS:
    def __init__(self, n):
        self.n = n

    def __len__(self):
        return self.n


_DS_CLS = {}


def _ds_classes():
    """module-level (picklable) tiny KDDatasets with a class per sample (same accessors as tests_util.datasets.ClassDataset);
    `_KdvClassDS` has the bulk accessor (returns list / tensor / ndarray, freshly built or -- `*-own` -- the dataset's own storage),
    `_KdvClassDSNoBulk` has none: the samplers have to load the labels sample-wise (slow path of utils/getall_as_tensor.py)"""
    if "bulk" in _DS_CLS:
        return _DS_CLS["bulk"], _DS_CLS["nobulk"]
    import numpy as np
    import torch
    from kappadata.datasets.kd_dataset import KDDataset

    def pack(classes, fmt):
        if fmt == "tensor-own":
            return torch.tensor(list(classes), dtype=torch.int64)
        if fmt == "numpy-own":
            return np.array(list(classes), dtype=np.int64)
        return list(classes)

    class _KdvClassDSNoBulk(KDDataset):
        def __init__(self, classes, n_classes=None, fmt="list"):
            super().__init__()
            self.fmt, self._n_classes = fmt, n_classes
            self.classes = pack(classes, fmt)

        def set_labels(self, classes, how="rebind"):
            """the labels of this dataset object change (pseudo labelling, label cleaning, new samples): in place or by rebinding"""
            new = pack(classes, self.fmt)
            if how == "inplace" and len(new) == len(self.classes):
                if isinstance(self.classes, list):
                    self.classes[:] = new
                else:
                    self.classes[...] = new
            else:
                self.classes = new

        def getitem_class(self, idx, ctx=None):
            return self.classes[idx]

        def getshape_class(self):
            n_classes = self._n_classes or int(max(self.classes)) + 1
            if n_classes == 2:
                n_classes = 1
            return n_classes,

        def __len__(self):
            return len(self.classes)

    class _KdvClassDS(_KdvClassDSNoBulk):
        def getall_class(self):
            fmt = self.fmt
            if fmt.endswith("-own"):
                return self.classes
            if fmt == "tensor":
                return torch.tensor(self.classes)
            if fmt == "tensor32":
                return torch.tensor(self.classes, dtype=torch.int32)
            if fmt == "numpy":
                return np.array(self.classes)
            if fmt == "numpy32":
                return np.array(self.classes, dtype=np.int32)
            return list(self.classes)

    for c in (_KdvClassDSNoBulk, _KdvClassDS):
        c.__module__, c.__qualname__ = __name__, c.__name__
        globals()[c.__name__] = c
    _DS_CLS["bulk"], _DS_CLS["nobulk"] = _KdvClassDS, _KdvClassDSNoBulk
    return _KdvClassDS, _KdvClassDSNoBulk


def _warm_up(case, ds, root):
    """history of the dataset OBJECT before the sampler under test exists: everything in the package that reads the class list looked
    at it in its earlier state (bulk helpers, a sampler of the same kind and configuration, a wrapper). Nothing here is judged."""
    try:
        import kappadata.utils.getall_as_tensor as ga
        fns = [getattr(ga, n) for n in ("getall", "getall_as_list", "getall_as_numpy", "getall_as_tensor") if hasattr(ga, n)]
    except Exception:  # noqa
        fns = []
    for f in fns:
        for d in ([ds] if ds is root else [ds, root]):
            for kw in ({}, {"item": "class"}):
                try:
                    f(d, **kw)
                except Exception:  # noqa
                    pass
    for d in ([ds] if ds is root else [ds, root]):
        try:
            d.getdim_class()
            d.getshape_class()
        except Exception:  # noqa
            pass
    try:
        s = build_real(case, 0, max(case.get("W") or 1, 1), ds=ds)
        s.set_epoch(1)
        list(itertools.islice(iter(s), MAX_OUT))
        len(s)
    except Exception:  # noqa
        pass
    try:
        from kappadata.wrappers import OversamplingWrapper
        OversamplingWrapper(ds)
    except Exception:  # noqa
        pass


def _class_ds(case):
    """the dataset of a case. `view`: the sampler is built on a view (SubsetWrapper, 2 = view of a view) of a root object whose labels
    were loaded before; `prev`: the dataset object carried the labels `prev` first, was looked at by the package (`_warm_up`), then its
    labels changed to the case's class list (`mut`: in place / rebound; `newview`: the view is re-created afterwards). The sampler
    under test is always constructed AFTER the change, so the class list it has to follow is the case's."""
    from kappadata.wrappers import SubsetWrapper
    from kappadata.utils.getall_as_tensor import getall_as_tensor
    bulk, nobulk = _ds_classes()
    fmt = case.get("fmt", "list")
    DS = nobulk if fmt == "none" else bulk
    classes = list(case["classes"])
    prev = case.get("prev")
    view = case.get("view")
    if view and prev is not None and len(prev) != len(classes):
        prev = (list(prev) + classes)[:len(classes)]
    first = list(prev) if prev is not None else classes
    if view:
        # history: the labels of the ROOT dataset were loaded before (a sampler on the full dataset), then the sampler under test
        # is built on a view (SubsetWrapper) of the same root object; the view's class list is the case's class list
        n_cls = max(case.get("n_classes") or (max(classes) + 1 if classes else 1), 1)     # all-unlabeled layouts: max + 1 = 0
        extra = [(k * 2 + 1) % n_cls for k in range(len(classes) + 2)]
        root = DS(extra + first[::-1], n_cls, fmt)
        getall_as_tensor(root, item="class")

        def mkview():
            if view == 2:
                inner = SubsetWrapper(root, indices=list(range(len(extra), len(extra) + len(classes))))
                return SubsetWrapper(inner, indices=[len(classes) - 1 - i for i in range(len(classes))])
            return SubsetWrapper(root, indices=[len(extra) + len(classes) - 1 - i for i in range(len(classes))])
        ds = mkview()
    else:
        root = ds = DS(first, case.get("n_classes"), fmt)
    if prev is not None:
        _warm_up({k: v for k, v in case.items() if k not in ("prev", "env")}, ds, root)
        root.set_labels((extra + classes[::-1]) if view else classes, case.get("mut", "rebind"))
        if view and case.get("newview"):
            ds = mkview()
    return ds


def _exc_kind(e):
    if isinstance(e, AssertionError):
        return "assert"
    if isinstance(e, ValueError):
        return "value"
    if isinstance(e, IndexError):
        return "index"
    if isinstance(e, _TooManyDraws):
        return "nonterm"
    return f"exc:{type(e).__name__}"


def _weights(case):
    import torch
    return torch.tensor(case["weights"], dtype=torch.float32 if case.get("wdtype") == "float32" else torch.float64)


def build_real(case, rank, W=None, ds=None, weights=None):
    """constructs the real sampler of `case` for `rank` (world size W, default the case's); `ds` / `weights`: input objects that
    are shared with other samplers (default: fresh ones)"""
    import torch
    kind = case["kind"]
    W = case.get("W") if W is None else W
    if kind == "dist":
        from kappadata.samplers.distributed_sampler import DistributedSampler
        return DistributedSampler(_LenDS(case["n"]), num_replicas=W, rank=rank, shuffle=case["shuffle"], seed=case["seed"],
                                  drop_last=case["dl"], num_repeats=case["R"])
    if kind == "rand":
        from kappadata.samplers.random_sampler import RandomSampler
        gen = torch.Generator().manual_seed(case["seed"]) if case["user_gen"] else None
        return RandomSampler(_LenDS(case["n"]), replacement=case["replacement"], num_samples=case["num_samples"], generator=gen,
                             num_repeats=case["R"])
    if kind == "cb":
        from kappadata.samplers.class_balanced_sampler import ClassBalancedSampler
        return ClassBalancedSampler(_class_ds(case) if ds is None else ds, shuffle=case["shuffle"], samples_per_class=case["spc"],
                                    seed=case["seed"], rank=rank, world_size=W)
    if kind == "weighted":
        from kappadata.samplers.weighted_sampler import WeightedSampler
        return WeightedSampler(_LenDS(case["n"]), weights=_weights(case) if weights is None else weights, size=case["size"],
                               seed=case["seed"], rank=rank, world_size=W)
    if kind == "semi":
        from kappadata.samplers.semi_sampler import SemiSampler
        return SemiSampler(_class_ds(case) if ds is None else ds, num_labeled=case["L"], num_unlabeled=case["U"], rank=rank,
                           world_size=W, seed=case["seed"], length_mode=case["mode"])
    raise ValueError(kind)


def ranks_of(case):
    if case["kind"] == "rand":
        return [None]
    if "ranks" in case:
        return case["ranks"]
    W = case["W"]
    return list(range(W)) if W else [None]


def run_one(sampler, rec, epoch, kind, poke=None):
    """one `list(sampler)` after set_epoch(epoch) under the recording proxy; `poke()` drives OTHER live objects between set_epoch
    and the iteration and again after the first index"""
    rec.reset()
    r = {"epoch": epoch}
    with recording(rec):
        try:
            r["len"] = len(sampler)
        except Exception as e:
            r["len"] = _exc_kind(e)
        try:
            if kind != "rand":
                sampler.set_epoch(epoch)
            if poke is not None:
                poke()
            out = []
            for i in itertools.islice(iter(sampler), MAX_OUT + 1):
                out.append(int(i))
                if poke is not None and len(out) == 1:
                    poke()
            if len(out) > MAX_OUT:
                r["iter"] = "nonterm"
            else:
                r["iter"], r["out"] = "ok", out
        except Exception as e:
            r["iter"] = _exc_kind(e)
    r["reqs"], r["tape"] = rec.reqs, rec.tape
    return r


def _bystander_case(case):
    """another configuration of the same sampler class (other seed / sizes / world) that is alive and active while the case runs"""
    k = case["kind"]
    c = {x: v for x, v in case.items() if x not in ("prev", "env", "bystander", "copies", "ranks", "epochs")}
    c["seed"] = case["seed"] + 1
    c["W"] = (case.get("W") or 1) + 1
    if k == "dist":
        c["shuffle"], c["R"], c["dl"] = True, 1 + case["R"] % 3, not case["dl"]
    elif k == "cb":
        c["shuffle"], c["spc"] = not case["shuffle"], (case["spc"] or 0) + 1
    elif k == "weighted":
        c["size"] = max(1, (case["n"] if case["size"] is None else case["size"]) - 1)
        c["weights"] = list(reversed(case["weights"]))
    elif k == "semi":
        c["L"], c["U"] = case["L"] + 1, case["U"] + 1
        c["mode"] = {"labeled": "unlabeled", "unlabeled": "all"}.get(case["mode"], "labeled")
    return c


class _Bystander:
    """a second, differently configured sampler of the same class (on the SAME dataset object when the case shares its inputs); it is
    stepped while the sampler under test runs. Its own output is not judged; exceptions it raises are its own business."""

    def __init__(self, case, ds):
        self.s, self.it, self.k = None, None, 3
        try:
            bc = _bystander_case(case)
            self.s = build_real(bc, bc["W"] - 1, bc["W"], ds=ds)
            self.s.set_epoch(self.k)
            self.it = iter(self.s)
            next(self.it, None)
        except Exception:  # noqa
            self.s = None

    def poke(self):
        if self.s is None:
            return
        with unrecorded():
            try:
                self.k += 1
                self.s.set_epoch(self.k)
                len(self.s)
                next(self.it, None)
                if self.k % 3 == 0:
                    self.it = iter(self.s)
                    next(self.it, None)
            except Exception:  # noqa
                pass


def _copies(s):
    """(how, copy or None) for a deep copy and a pickle round trip of a USED sampler object (None: the object cannot be copied that
    way -- not judged)"""
    out = []
    for how, f in (("deepcopy", copy.deepcopy), ("pickle", lambda o: pickle.loads(pickle.dumps(o)))):
        try:
            out.append((how, f(s)))
        except BaseException as e:  # noqa
            if isinstance(e, (KeyboardInterrupt, SystemExit)):
                raise
            out.append((how, None))
    del _PICKLED_GENS[:]
    return out


def _peek_then_full(s, rec, k, hold):
    """history step on a USED object: an iterator is started, `k` entries are taken and the iterator is ABANDONED (next(iter(s)), zip
    with a shorter iterable, for/break; `hold`: it stays alive, suspended, else it is closed), then -- without any set_epoch -- a
    new iterator runs the epoch. {'peek': [...], 'full': [...], 'len': ...} or {'exc': kind}"""
    out = {}
    rec.reset()
    with recording(rec):
        try:
            it = iter(s)
            out["peek"] = [int(i) for i in itertools.islice(it, k)]
            if not hold:
                if hasattr(it, "close"):
                    it.close()
                del it
            rec.reset()
            out["full"] = [int(i) for i in itertools.islice(iter(s), MAX_OUT + 1)]
            rec.reset()
            out["len"] = len(s)
        except Exception as ex:  # noqa
            out["exc"] = _exc_kind(ex)
    rec.reset()
    return out


def run_real(case, W=None, ranks=None, epochs=None):
    """{'ctor': ..., 'runs': [{rank, epoch, len, iter, out, reqs, tape}]} — one sampler object per rank, epochs via set_epoch.
    Case attributes that describe the SITUATION the samplers run in (all optional, never an input of the model):
      env        process environment (launcher variables) during construction and iteration
      share      all sampler objects of the case (ranks, fresh/re-used, reference, bystander) get ONE dataset object / weights tensor
      prev, mut, newview, view, fmt   see _class_ds (label history of the dataset object, views, label containers)
      bystander  a differently configured sampler of the same class is alive and stepped in between
      copies     the used object of every rank is deep-copied and pickled; the copies run again ('copies' in the result)"""
    with environment(case.get("env")):
        return _run_real(case, W, ranks, epochs)


def _run_real(case, W, ranks, epochs):
    rec = Recorder()
    res = {"ctor": "ok", "runs": []}
    kind = case["kind"]
    ranks = ranks_of(case) if ranks is None else ranks
    epochs = case.get("epochs", list(EPOCHS)) if epochs is None else epochs
    if kind == "cb" and "dim" not in case:
        case["dim"] = int(_class_ds(case).getdim_class())      # an input of the model (the dataset is not under test)
    ds = weights = None
    if case.get("share") or case.get("prev") is not None:
        if kind in ("cb", "semi"):
            ds = _class_ds(case)
        elif kind == "weighted":
            weights = _weights(case)
    poke = None
    if case.get("bystander") and kind != "rand":
        poke = _Bystander(case, ds).poke
    for rank in ranks:
        try:
            with recording(rec):
                s = build_real(case, rank, W, ds=ds, weights=weights)
        except Exception as e:
            res["runs"].append({"rank": rank, "ctor": _exc_kind(e)})
            continue
        for e in epochs:
            if kind == "rand":
                # RandomSampler draws its seed from the process-global torch state on every pass: one object, judged per pass
                r = run_one(s, rec, e, kind)
            else:
                # model-vs-code (requests + tape, exact) on a FRESH object for every epoch; the object that is re-used over the
                # epochs (`s`) must give the same length and stream -- its internal call pattern may differ (correct memoisation),
                # its output may not (stale state)
                try:
                    with recording(rec):
                        fresh = build_real(case, rank, W, ds=ds, weights=weights)
                    r = run_one(fresh, rec, e, kind, poke)
                except Exception as ex:  # noqa
                    r = {"epoch": e, "len": _exc_kind(ex), "iter": _exc_kind(ex), "reqs": [], "tape": []}
                rs = run_one(s, rec, e, kind, poke)
                r["_reused"] = {"len": rs["len"], "iter": rs["iter"], "out": rs.get("out")}
                # a second pass in the SAME epoch without another set_epoch: equal (seed, epoch) must reproduce the draw
                try:
                    r["_reused"]["again"] = [int(i) for i in itertools.islice(iter(s), MAX_OUT + 1)]
                except Exception as ex:  # noqa
                    r["_reused"]["again"] = _exc_kind(ex)
                # an abandoned PARTIAL pass (a peek at the first entries), then the epoch is run with the same object and no set_epoch:
                # a new iterator starts at the first entry of the draw of (seed, epoch) and yields all len(sampler) entries
                nth = len(res["runs"])
                r["_reused"]["peeked"] = _peek_then_full(s, rec, 1 + nth % 3, hold=nth % 2 == 1)
            r["rank"], r["ctor"] = rank, "ok"
            res["runs"].append(r)
        if case.get("copies") and kind != "rand":
            # a copy of the used object (what a DataLoader worker / a checkpointed trainer holds) with equal (seed, epoch)
            # ... taken while an iterator of the original is abandoned mid-epoch; the copy is first asked for the epoch the original is in
            held = None
            try:
                with recording(rec):
                    held = iter(s)
                    next(held, None)
            except Exception:  # noqa
                pass
            cps = _copies(s)
            del held
            for how, c in cps:
                if c is None:
                    res.setdefault("copies", []).append({"rank": rank, "how": how, "copy": "failed"})
                    continue
                for e in list(dict.fromkeys(list(epochs[-1:]) + list(epochs)))[:2]:
                    rc = run_one(c, rec, e, kind)
                    res.setdefault("copies", []).append({"rank": rank, "how": how, "copy": "ok", "epoch": e, "len": rc["len"],
                                                         "iter": rc["iter"], "out": rc.get("out")})
    return res


def model_request(case, real):
    """the line for the Lean driver: configuration + (rank, epoch, recorded tape) of every real run"""
    kind = case["kind"]
    runs = []
    for r in real["runs"]:
        if r["ctor"] != "ok":
            runs.append({"rank": r["rank"], "epoch": 0, "tape": []})
        else:
            runs.append({"rank": r["rank"], "epoch": r["epoch"], "tape": r["tape"]})
    if kind == "dist":
        return {"op": "s.dist", "n": case["n"], "W": case["W"], "shuffle": case["shuffle"], "seed": case["seed"], "dl": case["dl"],
                "R": case["R"], "runs": runs}
    if kind == "rand":
        return {"op": "s.rand", "n": case["n"], "replacement": case["replacement"], "num_samples": case["num_samples"],
                "user_gen": case["user_gen"], "R": case["R"], "runs": runs}
    if kind == "cb":
        return {"op": "s.cb", "classes": case["classes"], "dim": case.get("dim", 0), "shuffle": case["shuffle"], "spc": case["spc"],
                "seed": case["seed"], "W": case["W"], "runs": runs}
    if kind == "weighted":
        return {"op": "s.weighted", "n": case["n"], "nw": len(case["weights"]), "size": case["size"], "seed": case["seed"],
                "W": case["W"], "runs": runs}
    if kind == "semi":
        return {"op": "s.semi", "classes": case["classes"], "L": case["L"], "U": case["U"], "seed": case["seed"], "W": case["W"],
                "mode": case["mode"], "runs": runs}


def canon_model_reqs(reqs):
    """the model numbers generators by creation order and seeds each right after creating it: replace the ordinal in every draw
    request by the seed value of that generator (the form the recorder uses for the real code)"""
    seeds, out = [], []
    for q in reqs:
        if q and q[0] == "seed":
            seeds.append(q[1])
            out.append(q)
        elif len(q) >= 2 and isinstance(q[1], int) and 0 <= q[1] < len(seeds):
            out.append([q[0], ["seeded", seeds[q[1]]]] + list(q[2:]))
        else:
            out.append(q)
    return out


def canon_real(r):
    """a real run in the layout of the driver's answer"""
    if r["ctor"] != "ok":
        return {"ctor": r["ctor"]}
    if r["iter"] != "ok":
        return {"ctor": "ok", "len": r["len"], "iter": r["iter"]}
    return {"ctor": "ok", "len": r["len"], "iter": "ok", "reqs": r["reqs"], "out": r["out"]}


# ----------------------------------------------------------------------------------------------
# domains (what the properties quantify over; everything else is compared, never judged)
# ----------------------------------------------------------------------------------------------
def in_domain(case):
    k = case["kind"]
    W = case.get("W")
    if k != "rand":
        if not (isinstance(W, int) and W >= 1):
            return False
        if "ranks" in case and case["ranks"] != list(range(W)):
            return False
    if k == "dist":
        return case["n"] >= 1 and case["R"] >= 1 and (case["shuffle"] or case["R"] == 1)
    if k == "rand":
        return case["n"] >= 1 and case["R"] >= 2 and case["num_samples"] in (None, case["n"])
    if k == "cb":
        cl = case["classes"]
        C = max(cl) + 1 if cl else 0
        nc = case.get("n_classes")
        return (C >= 2 and sorted(set(cl)) == list(range(C)) and nc in (None, C)
                and (case["spc"] is None or case["spc"] >= 1))
    if k == "weighted":
        n = case["n"]
        eff = n if case["size"] is None else case["size"]
        return (n >= 1 and len(case["weights"]) == n and 1 <= eff <= n and all(w >= 0 for w in case["weights"])
                and sum(1 for w in case["weights"] if w > 0) >= eff)
    if k == "semi":
        cl = case["classes"]
        return (case["L"] >= 1 and case["U"] >= 1 and case["mode"] in ("labeled", "unlabeled", "all")
                and any(c == -1 for c in cl) and any(c != -1 for c in cl) and all(c >= -1 for c in cl))
    return False


def case_tag(case):
    c = {k: v for k, v in case.items() if k not in ("epochs", "dim", "weights", "env")}
    if case.get("env"):
        c["env"] = "RANK=%s,WORLD_SIZE=%s,..." % (case["env"].get("RANK"), case["env"].get("WORLD_SIZE"))
    return " ".join(f"{k}={v}" for k, v in c.items())


def _by(real):
    d = {}
    for r in real["runs"]:
        d[(r["rank"], r.get("epoch"))] = r
    return d


def _unexpected(case, real, pid):
    """an in-domain run must neither raise nor hang; a sampler object re-used over several epochs must give what a fresh one gives"""
    for r in real["runs"]:
        ru = r.get("_reused")
        if ru is not None and r.get("ctor") == "ok" and r.get("iter") == "ok" and \
                (ru["iter"] != "ok" or ru["out"] != r.get("out") or ru["len"] != r.get("len") or ru.get("again", r.get("out")) != r.get("out")):
            return Failure(f"{case['kind']}:reused-object", f"a sampler object re-used over the epochs gives another stream / length in epoch "
                           f"{r.get('epoch')} (rank {r['rank']}) than a fresh object with equal (seed, epoch) for {case_tag(case)}", case,
                           {"len": r.get("len"), "out": r.get("out")}, ru)
    for r in real["runs"]:
        pk = (r.get("_reused") or {}).get("peeked")
        if pk is None or r.get("ctor") != "ok" or r.get("iter") != "ok" or not isinstance(r.get("len"), int):
            continue
        out = r["out"]
        if "exc" in pk or pk["full"] != out or pk["len"] != r["len"] or pk["peek"] != out[:len(pk["peek"])]:
            return Failure(f"{case['kind']}:abandoned-iterator", f"after an abandoned partial pass ({len(pk.get('peek', []))} entries taken) a new iterator "
                           f"of the same object does not yield the stream of the epoch from its first entry (epoch {r.get('epoch')}, rank {r['rank']}; fresh "
                           f"object with equal (seed, epoch) as reference) for {case_tag(case)}", case, {"len": r["len"], "out": out}, pk)
    fresh = {(r["rank"], r.get("epoch")): r for r in real["runs"] if r.get("ctor") == "ok" and r.get("iter") == "ok"}
    for c in real.get("copies", ()):
        r = fresh.get((c["rank"], c.get("epoch")))
        if c.get("copy") != "ok" or r is None:
            continue
        if c["iter"] != "ok" or c["out"] != r["out"] or c["len"] != r["len"]:
            return Failure(f"{case['kind']}:copied-object", f"a {c['how']} copy of a used sampler object gives another stream / length in epoch "
                           f"{c['epoch']} (rank {c['rank']}) than a fresh object with equal (seed, epoch) for {case_tag(case)}", case,
                           {"len": r["len"], "out": r["out"]}, {"len": c["len"], "iter": c["iter"], "out": c["out"]})
    for r in real["runs"]:
        bad = None
        if r["ctor"] != "ok":
            bad = f"constructor raised {r['ctor']}"
        elif r["iter"] != "ok":
            bad = f"iteration raised {r['iter']}"
        elif not isinstance(r["len"], int):
            bad = f"len() raised {r['len']}"
        if bad:
            kind = r["ctor"] if r["ctor"] != "ok" else (r["iter"] if r["iter"] != "ok" else r["len"])
            return Failure(f"{case['kind']}:exception:{kind}", f"{bad} on rank {r['rank']} epoch {r.get('epoch')} for {case_tag(case)}",
                           case, "an index stream", bad)
    return None


def _plain(case):
    """the case without the extra legs that are judged on the main run only (copies, bystander); environment, shared inputs and the
    history of the dataset object stay"""
    return {k: v for k, v in case.items() if k not in ("copies", "bystander")}


def _reference(case, epoch):
    """the whole global draw of the epoch as the implementation itself produces it on a single rank (world size 1)"""
    ref = run_real(_plain(case), W=1, ranks=[0], epochs=[epoch])["runs"][0]
    if ref.get("ctor") != "ok" or ref.get("iter") != "ok":
        return None
    return ref


# ----------------------------------------------------------------------------------------------
# oracle C12
# ----------------------------------------------------------------------------------------------
def oracle_c12(case, real):
    k = case["kind"]
    if k not in ("dist", "cb", "weighted", "rand") or not in_domain(case):
        return None
    f = _unexpected(case, real, "C12")
    if f:
        return f
    tag = case_tag(case)
    if k == "rand":
        # repeated augmentation: slot j holds the (j // R)-th drawn sample
        for r in real["runs"]:
            n, R = case["n"], case["R"]
            if r["tape"] and len(r["tape"][-1]) >= -(-n // R):
                draw = r["tape"][-1]
                exp = [draw[j // R] for j in range(n)]
            else:      # no recorded draw to compare with: slot j holds what the first slot of its group holds
                exp = [r["out"][j // R * R] for j in range(min(n, len(r["out"])))] if len(r["out"]) >= n else f"{n} slots in groups of {R}"
            if r["out"] != exp:
                return Failure("rand:repeats", f"drawn samples do not occupy {R} consecutive slots for {tag}", case, exp, r["out"])
        return None
    W = case["W"]
    runs = _by(real)
    epochs = sorted({e for (_, e) in runs})
    seeds = {}
    for e in epochs:
        lens = [runs[(r, e)]["len"] for r in range(W)]
        outs = [runs[(r, e)]["out"] for r in range(W)]
        if len(set(lens)) != 1:
            return Failure(f"{k}:len-differs", f"len(sampler) differs between ranks in epoch {e} for {tag}", case, None, lens)
        ln = lens[0]
        if any(len(o) != ln for o in outs):
            return Failure(f"{k}:stream-length", f"a rank stream does not have len(sampler)={ln} entries in epoch {e} for {tag}", case,
                           ln, [len(o) for o in outs])
        G = [outs[j % W][j // W] for j in range(ln * W)]
        ref = _reference(case, e)
        if ref is None:
            return Failure(f"{k}:reference", f"single-rank run fails for {tag}", case, None, None)
        g1 = ref["out"]
        E = len(g1)
        if k == "dist" and not case["dl"]:
            exp = [g1[j % E] for j in range(ln * W)]
            if ln * W < E or ln * W - E >= W:
                return Failure("dist:padding-amount", f"padded size {ln * W} for {E} indices on {W} ranks in {tag}", case, None, ln * W)
            if G != exp:
                return Failure("dist:interleave", f"rank streams do not interleave back into the wrapped-around global draw in epoch {e} for {tag}",
                               case, exp, G)
        else:
            if ln * W > E or E - ln * W >= W:
                return Failure(f"{k}:dropped-amount", f"{ln * W} of {E} global indices kept on {W} ranks in {tag}", case, None, ln * W)
            if G != g1[:ln * W]:
                return Failure(f"{k}:interleave", f"rank streams do not interleave back into a prefix of the global draw in epoch {e} for {tag}",
                               case, g1[:ln * W], G)
        # the same draw on every rank: same generator seed, same raw draws
        sd = [[q[1] for q in runs[(r, e)]["reqs"] if q[0] == "seed"] for r in range(W)]
        tp = [runs[(r, e)]["tape"] for r in range(W)]
        if any(s != sd[0] for s in sd) or any(t != tp[0] for t in tp):
            return Failure(f"{k}:rank-dependent-draw", f"ranks do not make the same global draw in epoch {e} for {tag}", case, sd[0], sd)
        seeds[e] = sd[0]
        if k == "dist" and case["shuffle"]:
            R, n = case["R"], case["n"]
            if ref["tape"] and len(ref["tape"][0]) == n:
                perm = ref["tape"][0]
                exp = [perm[j // R] for j in range(n)]
            else:
                # the single-rank run made no recorded draw of its own (a draw that is computed elsewhere / earlier): the clause is judged
                # on the global draw itself -- slot j holds the sample of the first slot of its group, groups hold distinct samples
                exp = [g1[j // R * R] for j in range(min(n, len(g1)))]
                firsts = exp[::R]
                if len(g1) < n or len(set(firsts)) != len(firsts):
                    exp = f"{n} slots, groups of {R} equal entries, distinct samples per group"
            if g1[:n] != exp or (ref["tape"] and g1 != exp):
                return Failure("dist:repeats", f"drawn samples do not occupy {R} consecutive slots of the global draw for {tag}", case, exp, g1)
    draws = k != "dist" or case["shuffle"]
    if draws:
        if any(len(s) != 1 for s in seeds.values()):
            return Failure(f"{k}:seeding", f"epoch generator is not seeded exactly once for {tag}", case, None, seeds)
        vals = [seeds[e][0] for e in epochs]
        if len(set(vals)) != len(vals):
            return Failure(f"{k}:epoch-seed", f"set_epoch does not change the seed of the draw for {tag}", case, "distinct seeds per epoch", vals)
        # equal (seed, epoch) reproduces the draw: a fresh object on the last rank, epochs in reverse order
        again = run_real(_plain(case), ranks=[W - 1], epochs=list(reversed(epochs)))
        for r in again["runs"]:
            if r.get("out") != runs[(W - 1, r["epoch"])]["out"]:
                return Failure(f"{k}:reproduce", f"equal (seed, epoch) does not reproduce the stream for {tag}", case,
                               runs[(W - 1, r["epoch"])]["out"], r.get("out"))
    return None


# ----------------------------------------------------------------------------------------------
# oracle C13
# ----------------------------------------------------------------------------------------------
def oracle_c13(case, real):
    k = case["kind"]
    if k not in ("cb", "weighted", "semi") or not in_domain(case):
        return None
    f = _unexpected(case, real, "C13")
    if f:
        return f
    tag = case_tag(case)
    W = case["W"]
    runs = _by(real)
    epochs = sorted({e for (_, e) in runs})
    n = len(case["classes"]) if k != "weighted" else case["n"]
    for (r, e), run in runs.items():
        if any(not (0 <= i < n) for i in run["out"]):
            return Failure(f"{k}:invalid-index", f"index outside the dataset on rank {r} epoch {e} for {tag}", case, f"0 <= i < {n}", run["out"])
    if k == "cb":
        cl = case["classes"]
        C = max(cl) + 1
        spc = case["spc"] if case["spc"] is not None else max(cl.count(c) for c in range(C))
        E = C * spc
        for e in epochs:
            for r in range(W):
                if runs[(r, e)]["len"] != E // W:
                    return Failure("cb:len", f"len(sampler) is not classes*samples_per_class // world_size for {tag}", case, E // W, runs[(r, e)]["len"])
            allr = [i for r in range(W) for i in runs[(r, e)]["out"]]
            per_class = [sum(1 for i in allr if cl[i] == c) for c in range(C)]
            if E % W == 0:
                if per_class != [spc] * C:
                    return Failure("cb:class-counts", f"ranks together do not hold samples_per_class={spc} indices of every class in epoch {e} for {tag}",
                                   case, [spc] * C, per_class)
            elif any(x > spc for x in per_class) or sum(per_class) != E - E % W:
                return Failure("cb:class-counts", f"per-class counts exceed samples_per_class / wrong total in epoch {e} for {tag}", case,
                               f"<= {spc} each, {E - E % W} in total", per_class)
            ref = _reference(case, e)
            if ref is None:
                return Failure("cb:reference", f"single-rank run fails for {tag}", case, None, None)
            g1 = ref["out"]
            if any(not (0 <= i < n) for i in g1):
                return Failure("cb:invalid-index", f"index outside the dataset in the single-rank draw of epoch {e} for {tag}", case, f"0 <= i < {n}", g1)
            pc = [sum(1 for i in g1 if cl[i] == c) for c in range(C)]
            if pc != [spc] * C:
                return Failure("cb:class-counts", f"global draw does not hold samples_per_class={spc} indices of every class in epoch {e} for {tag}",
                               case, [spc] * C, pc)
            for c in range(C):
                mult = [g1.count(i) for i in range(n) if cl[i] == c]
                if max(mult) - min(mult) > 1:
                    return Failure("cb:even-reuse", f"samples of class {c} are not reused evenly in epoch {e} for {tag}", case,
                                   "multiplicities differ by at most 1", mult)
    if k == "weighted":
        eff = case["n"] if case["size"] is None else case["size"]
        for e in epochs:
            for r in range(W):
                if runs[(r, e)]["len"] != eff // W or len(runs[(r, e)]["out"]) != eff // W:
                    return Failure("weighted:len", f"epoch length is not size // world_size for {tag}", case, eff // W,
                                   [runs[(r, e)]["len"], len(runs[(r, e)]["out"])])
            allr = [i for r in range(W) for i in runs[(r, e)]["out"]]
            if len(set(allr)) != len(allr):
                return Failure("weighted:repeat", f"an index is repeated within epoch {e} for {tag}", case, "no repeats", allr)
    if k == "semi":
        cl = case["classes"]
        L, U = case["L"], case["U"]
        lab = [i for i, c in enumerate(cl) if c != -1]
        unl = [i for i, c in enumerate(cl) if c == -1]
        chunks = {"labeled": len(lab) // L, "unlabeled": len(unl) // U, "all": (len(lab) + len(unl)) // (L + U)}[case["mode"]]
        ln = chunks * (L + U) // W
        seeds = {}
        for (r, e), run in sorted(runs.items()):
            out = run["out"]
            if run["len"] != ln or len(out) != ln:
                return Failure("semi:len", f"epoch length does not match length mode {case['mode']} on rank {r} for {tag}", case, ln,
                               [run["len"], len(out)])
            for i, idx in enumerate(out):
                if (cl[idx] != -1) != (i % (L + U) < L):
                    return Failure("semi:alternation", f"position {i} on rank {r} epoch {e} is {'labeled' if cl[idx] != -1 else 'unlabeled'} for {tag}",
                                   case, f"{L} labeled then {U} unlabeled", [cl[j] for j in out])
            for name, pool, sub in (("labeled", lab, [i for i in out if cl[i] != -1]), ("unlabeled", unl, [i for i in out if cl[i] == -1])):
                for b in range(0, len(sub), len(pool)):
                    blk = sub[b:b + len(pool)]
                    if len(set(blk)) != len(blk):
                        return Failure("semi:pool-exhaustion", f"{name} index repeated before the pool was used up on rank {r} epoch {e} for {tag}",
                                       case, "distinct within each pass over the pool", sub)
            seeds[(r, e)] = tuple(q[1] for q in run["reqs"] if q[0] == "seed")[-1:]
        # differently seeded per rank (within an epoch) and per epoch (on a rank); NOT demanded: (rank a, epoch b) vs (rank b, epoch a)
        for e in epochs:
            col = [seeds[(r, e)] for r in range(W)]
            if len(set(col)) != len(col) or any(len(x) != 1 for x in col):
                return Failure("semi:rank-seed", f"two ranks share the generator seed in epoch {e} for {tag}", case, "pairwise distinct seeds", col)
        for r in range(W):
            row = [seeds[(r, e)] for e in epochs]
            if len(set(row)) != len(row):
                return Failure("semi:epoch-seed", f"set_epoch does not change the generator seed on rank {r} for {tag}", case, "pairwise distinct seeds", row)
    return None


def seed_table_failure(n):
    """'differently seeded per rank': the int32 value SemiSampler draws from Generator().manual_seed(k) is pairwise distinct for
    k < n, hence seed + rank_seed + epoch_seed differs between any two ranks of one epoch and between any two epochs of one rank
    (a table test on the real draws, labelled as such; not a theorem)"""
    import torch
    seen = {}
    for k in range(n):
        v = int(torch.empty((), dtype=torch.int32).random_(generator=torch.Generator().manual_seed(k)).item())
        if v in seen:
            return [seen[v], k]
        seen[v] = k
    return None


# ----------------------------------------------------------------------------------------------
# a process that was STARTED by a launcher: the environment is there before the package is imported
# ----------------------------------------------------------------------------------------------
_ORACLES = {"C12": oracle_c12, "C13": oracle_c13}


def _streams(real):
    return {f"{r['rank']}/{r.get('epoch')}": [r.get("len"), r.get("iter"), r.get("out")] for r in real["runs"] if r.get("ctor") == "ok"}


def _child_main():
    """entry point of the child: stdin = {"pid", "cases"}; stdout = one JSON line with, per case, the oracle's verdict and the streams"""
    req = json.loads(sys.stdin.read())
    oracle = _ORACLES[req["pid"]]
    out = []
    for case in req["cases"]:
        try:
            real = run_real(case)
            f = oracle(case, real)
            out.append({"failure": None if f is None else {"key": f.key, "what": f.what, "expected": f.expected, "actual": f.actual},
                        "streams": _streams(real)})
        except Exception as e:  # noqa
            out.append({"crash": f"{type(e).__name__}: {e}"[:300]})
    sys.stdout.write("\nKDV-CHILD-RESULT " + json.dumps(out, default=str) + "\n")


def _run_child(pid, cases, env):
    """None when the child did not deliver"""
    try:
        p = subprocess.run([sys.executable, "-c", "from kdv import samplers as S; S._child_main()"],
                           input=json.dumps({"pid": pid, "cases": cases}), env={**os.environ, **{k: str(v) for k, v in env.items()}},
                           capture_output=True, text=True, timeout=300)
    except subprocess.TimeoutExpired:
        return None, "timeout"
    for line in p.stdout.splitlines():
        if line.startswith("KDV-CHILD-RESULT "):
            try:
                return json.loads(line[len("KDV-CHILD-RESULT "):]), ""
            except ValueError:
                break
    return None, (p.stderr or "")[-600:]


def launcher_process_failures(pid, cases, env):
    """the property oracle on `cases` in a NEW python process whose environment carries the launcher variables from the start (no
    process group is initialised): explicitly constructed ranks must behave as in this process. [Failure]"""
    from .common import Infra
    cases = [{k: v for k, v in c.items() if k not in ("env", "dim")} for c in cases]
    if not cases:
        return []
    got, err = _run_child(pid, cases, env)
    if got is None:
        plain, err2 = _run_child(pid, cases, {})
        if plain is None:
            raise Infra(f"sampler child process does not run: {err2 or err}")
        return [Failure("launcher-process:crash", "the sampler cases run in a plain child process but not in one started with the launcher "
                        f"environment {env}: {err[-300:]}", {**cases[0], "launcher_process": env}, "as in a plain process", err[-300:])]
    out = []
    for case, g in zip(cases, got):
        inp = {**case, "launcher_process": env}
        if "crash" in g:
            out.append(Failure(f"{case['kind']}:launcher-process", f"case crashes in a process started by a launcher: {g['crash']}", inp, None, g["crash"]))
        elif g["failure"] is not None:
            f = g["failure"]
            out.append(Failure(f["key"], f["what"] + " [in a process started with launcher environment]", inp, f["expected"], f["actual"]))
        elif case["kind"] != "rand":
            here = json.loads(json.dumps(_streams(run_real(dict(case))), default=str))
            if here != g["streams"]:
                out.append(Failure(f"{case['kind']}:launcher-process", "explicitly constructed ranks give other streams in another python process (started "
                                   f"with launcher environment, own hash salt PYTHONHASHSEED={env.get('PYTHONHASHSEED', 'inherited')}) than in this one for equal "
                                   f"(seed, epoch): {case_tag(case)}", inp, here, g["streams"]))
    return out


# ----------------------------------------------------------------------------------------------
# case generation
# ----------------------------------------------------------------------------------------------
def dist_sweep(nmax=12, wmax=5):
    for n in range(1, nmax + 1):
        # world sizes far beyond the dataset size for tiny datasets: the padding branch `padding_size > len(indices)`
        # (tiling of the global draw) only runs when the world is more than twice as large as the (repeated) dataset
        for W in range(1, (14 if n <= 4 else wmax + 1)):
            for dl in (False, True):
                for R in (1, 2, 3, 4):
                    for shuffle in ((True, False) if R == 1 else (True,)):
                        yield {"kind": "dist", "n": n, "W": W, "shuffle": shuffle, "seed": 0, "dl": dl, "R": R}


def rand_sweep():
    for n in range(1, 13):
        for R in (1, 2, 3, 4):
            for repl in (False, True):
                for ug in (False, True):
                    yield {"kind": "rand", "n": n, "replacement": repl, "num_samples": None, "user_gen": ug, "R": R, "seed": n + R, "epochs": [0]}


def gen_layout(rng, C, n):
    """class list of length n in which every class 0..C-1 occurs"""
    cl = list(range(C)) + [rng.randrange(C) for _ in range(n - C)]
    rng.shuffle(cl)
    return cl


LABEL_FMTS = ["list", "list", "tensor", "numpy", "none", "none", "tensor32", "numpy32", "list-own", "tensor-own", "numpy-own"]


def launcher_env(rng):
    """what torchrun / SLURM / mpirun export into a worker process (the process group is NOT initialised in this harness)"""
    w = rng.choice([2, 2, 3, 4, 8])
    r = rng.randrange(1, w)
    return {"RANK": str(r), "LOCAL_RANK": str(r), "WORLD_SIZE": str(w), "LOCAL_WORLD_SIZE": str(w), "SLURM_PROCID": str(r),
            "SLURM_LOCALID": str(r), "SLURM_NTASKS": str(w), "OMPI_COMM_WORLD_RANK": str(r), "OMPI_COMM_WORLD_SIZE": str(w),
            "PMI_RANK": str(r), "PMI_SIZE": str(w), "MASTER_ADDR": "127.0.0.1", "MASTER_PORT": "29500"}


def gen_prev(rng, classes, lowest, view):
    """an earlier labelling of the same dataset object: a few labels differ / another layout / another number of samples"""
    n = len(classes)
    pool = list(range(lowest, max(max(classes, default=0) + 1, 2)))
    z = rng.random()
    if z < 0.5 or n < 2:
        prev = list(classes)
        for i in rng.sample(range(n), min(n, rng.randint(1, 3))):
            prev[i] = rng.choice([x for x in pool if x != prev[i]])
        return prev
    if z < 0.8 or view:
        prev = list(classes)
        rng.shuffle(prev)
        if prev == list(classes):
            prev[0] = rng.choice([x for x in pool if x != prev[0]])
        return prev
    if rng.random() < 0.5:
        return list(classes[:rng.randint(1, n - 1)])
    return list(classes) + [rng.choice(pool) for _ in range(rng.randint(1, 3))]


def add_situation(rng, c):
    """the situation a configuration runs in (see run_real): process environment, shared input objects, label history of the
    dataset object, a live bystander, copies of used objects. None of it is an input of the model or of the property."""
    k = c["kind"]
    if rng.random() < 0.2:
        c["env"] = launcher_env(rng)
    if k == "rand":
        return c
    if rng.random() < 0.25:
        c["bystander"] = True
    if rng.random() < 0.3:
        c["copies"] = True
    if k in ("cb", "semi", "weighted") and rng.random() < 0.4:
        c["share"] = True
    if k == "weighted" and rng.random() < 0.3:
        c["wdtype"] = "float32"
    if k in ("cb", "semi"):
        if c.get("view") and rng.random() < 0.3:
            c["view"] = 2
        if rng.random() < 0.3 and c["classes"]:
            c["prev"] = gen_prev(rng, c["classes"], -1 if k == "semi" else 0, bool(c.get("view")))
            c["mut"] = rng.choice(["inplace", "rebind"])
            if c.get("view"):
                c["newview"] = rng.random() < 0.5
    return c


def gen_case(rng, kind, big=False):
    return add_situation(rng, _gen_config(rng, kind, big))


def _gen_config(rng, kind, big=False):
    """`big`: thorough-tier scope (sizes up to 24, world sizes up to 8)"""
    seed = rng.choice([0, 0, 1, 5, 42, 9243])
    W = rng.choice([1, 2, 2, 3, 3, 4, 5] + ([6, 7, 8] if big else []))
    N = 24 if big else 12
    odd = rng.random() < 0.08       # out-of-domain / rejection corner: compared with the model, never judged
    if kind == "dist":
        c = {"kind": "dist", "n": rng.randint(1, N), "W": W, "shuffle": True, "seed": seed, "dl": rng.random() < 0.5,
             "R": rng.choice([1, 2, 2, 3, 4])}
        if rng.random() < 0.15:
            c["n"], c["W"] = rng.randint(1, 5), rng.randint(6, 16)     # dataset much smaller than the world
        if c["R"] == 1:
            c["shuffle"] = rng.random() < 0.6
        if odd:
            z = rng.choice(["R0", "noshuffle", "rank"])
            if z == "R0":
                c["R"] = 0
            elif z == "noshuffle":
                c["shuffle"], c["R"] = False, rng.choice([2, 3])
            else:
                c["ranks"] = [0, W, W + 1]
        return c
    if kind == "rand":
        n = rng.randint(1, N)
        c = {"kind": "rand", "n": n, "replacement": rng.random() < 0.4, "num_samples": None, "user_gen": rng.random() < 0.5,
             "R": rng.choice([1, 2, 3, 4]), "seed": seed, "epochs": [0]}
        if rng.random() < 0.35:
            c["num_samples"] = rng.choice([1, n, n + 1, 2 * n, 2 * n + 1, 33, 64, 70])
        if odd:
            c["R"] = 0
        return c
    if kind == "cb":
        C = rng.choice([2, 2, 3, 3, 4])
        n = rng.randint(C, N)
        c = {"kind": "cb", "classes": gen_layout(rng, C, n), "n_classes": None, "shuffle": rng.random() < 0.75,
             "spc": rng.choice([None, None, 1, 2, 3, 4, 5, 6, 7] + ([9, 12, 17] if big else [])), "seed": seed, "W": W, "fmt": rng.choice(LABEL_FMTS),
             "view": rng.random() < 0.3}
        if odd:
            z = rng.choice(["one-class", "gap", "spc0", "W0", "rank"])
            if z == "one-class":
                c["classes"] = [0] * rng.randint(1, 4)
            elif z == "gap":
                c["classes"] = [x if x < C - 1 else C for x in c["classes"]]     # a label is skipped: constructor asserts
            elif z == "spc0":
                c["spc"] = 0
            elif z == "W0":
                c["W"] = rng.choice([0, None])
            else:
                c["ranks"] = [None, W]
        return c
    if kind == "weighted":
        n = rng.randint(1, N)
        size = rng.choice([None, None, rng.randint(1, n)])
        ws = [rng.choice([1, 1, 2, 3, 10]) for _ in range(n)]
        eff = n if size is None else size
        if eff < n and rng.random() < 0.4:
            for i in rng.sample(range(n), rng.randint(1, n - eff)):
                ws[i] = 0
        c = {"kind": "weighted", "n": n, "weights": ws, "size": size, "seed": seed, "W": W}
        if odd:
            z = rng.choice(["size>n", "nw", "W0"])
            if z == "size>n":
                c["size"] = n + rng.randint(1, 3)
            elif z == "nw":
                c["weights"] = ws + [1]
            else:
                c["W"] = rng.choice([0, None])
        return c
    if kind == "semi":
        n = rng.randint(2, N)
        nu = rng.randint(1, n - 1)
        C = rng.choice([1, 2, 3, 4])
        cl = [-1] * nu + [rng.randrange(C) for _ in range(n - nu)]
        rng.shuffle(cl)
        c = {"kind": "semi", "classes": cl, "L": rng.randint(1, 3), "U": rng.randint(1, 3), "seed": seed, "W": W,
             "mode": rng.choice(["labeled", "unlabeled", "all"]), "fmt": rng.choice(LABEL_FMTS),
             "view": rng.random() < 0.3}
        if odd:
            z = rng.choice(["L0", "U0", "mode", "nounl", "nolab", "W0"])
            if z == "L0":
                c["L"] = 0
            elif z == "U0":
                c["U"] = 0
            elif z == "mode":
                c["mode"] = "both"
            elif z == "nounl":
                c["classes"] = [abs(x) for x in cl]
            elif z == "nolab":
                c["classes"] = [-1] * n
            else:
                c["W"] = rng.choice([0, None])
        return c
    raise ValueError(kind)


def signature(case, real):
    k = case["kind"]
    r0 = real["runs"][0] if real["runs"] else {}
    out = (r0.get("ctor"), r0.get("iter"), len(r0.get("reqs", [])))
    W = case.get("W")
    if k == "dist":
        n = case["n"]
        tot = -(-n // W) * W if W else 0
        pad = tot - n
        branch = "drop" if case["dl"] else ("pad0" if pad == 0 else ("pad<=n" if pad <= n else "pad>n"))
        return (k, n, W, branch, case["R"], case["shuffle"]) + out
    if k == "rand":
        return (k, case["n"], case["R"], case["replacement"], case["user_gen"], case["num_samples"] is None) + out
    if k == "cb":
        cl = case["classes"]
        return (k, len(set(cl)), tuple(sorted(cl.count(c) for c in set(cl))), case["spc"], W, case["shuffle"]) + out
    if k == "weighted":
        return (k, case["n"], case["size"], W, sum(1 for w in case["weights"] if w == 0)) + out
    if k == "semi":
        cl = case["classes"]
        return (k, len(cl), sum(1 for c in cl if c == -1), case["L"], case["U"], case["mode"], W) + out


# ----------------------------------------------------------------------------------------------
# checks
# ----------------------------------------------------------------------------------------------
SAMPLER_FILES = ["kappadata/samplers/distributed_sampler.py", "kappadata/samplers/random_sampler.py",
                 "kappadata/samplers/class_balanced_sampler.py", "kappadata/samplers/weighted_sampler.py",
                 "kappadata/samplers/semi_sampler.py", "kappadata/utils/distributed.py", "kappadata/utils/getall_as_tensor.py"]


class SamplersCheck(PropertyCheck):
    kinds = ()
    oracle = staticmethod(lambda case, real: None)
    extra_build = ["KDVerif.Driver.Samplers"]
    driver_main = "mains/Samplers.lean"
    design_ref = "DESIGN.md 3 (C12/C13)"
    technique = "Lean 4 proof over hand model + differential correspondence"
    n_random = {"quick": 500, "thorough": 12000}     # per kind

    def cases(self):
        out = []
        cdir = Path(__file__).resolve().parents[2] / "corpus" / "samplers"
        ncorp = 0
        if cdir.exists():
            for p in sorted(cdir.glob("*.json")):
                c = json.loads(p.read_text())
                if c.get("kind") in self.kinds:
                    out.append(c)
                    ncorp += 1
        sweep = []
        if "dist" in self.kinds:
            sweep += list(dist_sweep() if self.tier == "quick" else dist_sweep(16, 8))
        if "rand" in self.kinds:
            sweep += list(rand_sweep())
        if self.tier == "quick":
            # the quick tier walks the sweep with two of the four epochs per case (all four in thorough)
            for i, c in enumerate(sweep):
                if c["kind"] == "dist":
                    c["epochs"] = [i % 2, 2 + (i // 2) % 2]
        srng = random.Random(f"sweep:{self.seed}")
        for i, c in enumerate(sweep):
            # a share of the sweep runs in a launcher environment / next to a bystander / again on copies of the used objects
            if i % 7 == 3:
                c["env"] = launcher_env(srng)
            if c["kind"] == "dist" and i % 6 == 2:
                c["bystander"] = True
            if c["kind"] == "dist" and i % 8 == 5:
                c["copies"] = True
        out += sweep
        for k in self.kinds:
            for i in range(self.n_random[self.tier]):
                out.append(gen_case(self.rng, k, big=(self.tier == "thorough" and i % 3 == 0)))
        return out, ncorp, len(sweep)

    def judge(self, case, real, res):
        f = type(self).oracle(case, real)
        if f is not None and len(res.failures) < 50:
            if not any(g.key == f.key for g in res.failures) or len(res.failures) < 5:
                res.failures.append(f)

    def correspond(self):
        res = CorrResult()
        cases, ncorp, nsweep = self.cases()
        res.rule = (f"{ncorp} corpus + {nsweep} sweep cases (DistributedSampler: every n<=12, W<=5 (thorough: n<=16, W<=8), drop_last, num_repeats<=4, shuffle; RandomSampler: "
                    f"n<=12, num_repeats<=4, replacement, generator given or not) + {self.n_random[self.tier]} seeded random cases per sampler kind "
                    f"{list(self.kinds)} (class layouts <=4 classes, samples_per_class None|1..7, L,U<=3, three length modes, size None|k, W<=5 incl. W>n; thorough: a third of the cases with sizes <=24, W<=8, "
                    "~8% rejection corners); every case = all ranks 0..W-1 as separate objects x epochs via set_epoch; torch draws recorded and replayed "
                    "into the model; distinct = (kind, sizes, branch, outcome). Situations (shares of the cases, never inputs of the model): launcher environment "
                    "(RANK/WORLD_SIZE/SLURM_*/OMPI_*/PMI_* set, no process group) in-process and once in a child process started with it; one dataset "
                    "object / weights tensor shared by all sampler objects of the case; label history of the dataset object (earlier labels read by the "
                    "package's helpers, a sampler, a wrapper; labels then changed in place / rebound; views re-created or kept); label containers list / "
                    "int64+int32 tensor / ndarray / none / the dataset's own storage; a live differently configured bystander sampler stepped in between; "
                    "deep copy + pickle round trip of every used sampler object (taken while an iterator of it is abandoned mid-epoch, asked first for the "
                    "epoch the original is in); on every re-used object after every epoch an abandoned partial pass (1-3 entries, iterator closed or kept "
                    "alive) followed by a full pass without set_epoch; the child process has its own string-hash salt (PYTHONHASHSEED differs from this process)")
        res.exhaustive = self.tier == "thorough"     # the DistributedSampler / RandomSampler sweeps are complete; quick walks them with 2 of 4 epochs
        reals = [run_real(c) for c in cases]
        answers = self.driver.run([model_request(c, r) for c, r in zip(cases, reals)])
        for case, real, ans in zip(cases, reals, answers):
            res.cases += 1
            res.nontrivial.add(signature(case, real))
            res.bump(f"kind={case['kind']}")
            for sit in ("env", "share", "prev", "bystander", "copies"):
                if case.get(sit):
                    res.bump(f"situation:{sit}")
            for c in real.get("copies", ()):
                res.bump(f"copy:{c['how']}={c['copy']}")
            if "runs" not in ans:
                res.disagreements.append(Disagreement(case, ans, None, "driver error"))
                continue
            bad = None
            for r, m in zip(real["runs"], ans["runs"]):
                if isinstance(m, dict) and isinstance(m.get("reqs"), list):
                    m = dict(m, reqs=canon_model_reqs(m["reqs"]))
                cr = canon_real(r)
                res.bump(f"{case['kind']}:ctor={cr.get('ctor')}" + (f":iter={cr.get('iter')}" if "iter" in cr else ""))
                if cr != m and bad is None:
                    bad = ({"rank": r["rank"], "epoch": r.get("epoch"), "tape": r.get("tape"), **m}, {"rank": r["rank"], "epoch": r.get("epoch"), **cr})
            if case["kind"] == "dist":
                res.bump("dist:" + signature(case, real)[3])
            if bad is not None and len(res.disagreements) < 50:
                res.disagreements.append(Disagreement(case, bad[0], bad[1]))
            self.judge(case, real, res)
            if len(res.samples) < 4 and case["kind"] not in [s["case"]["kind"] for s in res.samples] and real["runs"] and real["runs"][0].get("iter") == "ok" \
                    and in_domain(case):
                res.samples.append({"case": case, "streams": {f"rank{r['rank']}/epoch{r['epoch']}": r["out"] for r in real["runs"][:6]}})
        self.launcher_leg(res, cases)
        self.extra(res)
        res.failures.sort(key=lambda f: len(json.dumps(f.input, default=str)))
        return res

    def launcher_leg(self, res, cases):
        """a few in-domain cases of every kind once more in a child process that is started with the launcher environment"""
        per_kind = 12 if self.tier == "quick" else 60
        pick = []
        for k in self.kinds:
            if k == "rand":      # not rank aware, and its draw depends on the process-global torch state: nothing to compare across processes
                continue
            cand = [c for c in cases if c["kind"] == k and in_domain(c) and c.get("W", 1) >= 2]
            pick += cand[-per_kind:]
        lrng = random.Random(f"launcher:{self.seed}")
        env = launcher_env(lrng)
        # every rank of a real job is its OWN interpreter: its own string-hash salt (python's default is a random one per process; a
        # fixed value different from this process's keeps the replay deterministic), its own object addresses, its own import order
        here = os.environ.get("PYTHONHASHSEED", "")
        env["PYTHONHASHSEED"] = str(lrng.choice([x for x in (1, 2, 3, 4711, 123456789) if str(x) != here]))
        fails = launcher_process_failures(self.pid, pick, env)
        res.bump("launcher-process cases", len(pick))
        for f in fails[:5]:
            res.failures.append(f)

    def extra(self, res):
        pass

    def replay_input(self, inp):
        inp = dict(inp)
        inp.pop("dim", None)
        if inp.get("launcher_process"):
            env = inp.pop("launcher_process")
            return (launcher_process_failures(self.pid, [inp], env) or [None])[0]
        return type(self).oracle(inp, run_real(inp))

    def search(self, budget_s, hints):
        t0 = time.time()
        out = []
        for h in hints:
            f = self.replay_input(h)
            if f:
                out.append(f)
        rng = random.Random(self.seed + 1213)
        sweep = [c for c in itertools.chain(dist_sweep(), rand_sweep()) if c["kind"] in self.kinds]
        rng.shuffle(sweep)
        it = iter(sweep)
        while not out and time.time() - t0 < budget_s:
            c = next(it, None) or gen_case(rng, rng.choice(self.kinds))
            f = self.replay_input(c)
            if f:
                out.append(f)
        return out


class C12(SamplersCheck):
    pid = "C12"
    claimed = True
    kinds = ("dist", "rand", "cb", "weighted")
    oracle = staticmethod(oracle_c12)
    props_modules = ["KDVerif.Props.C12"]
    anchored = ["kappadata/samplers/distributed_sampler.py", "kappadata/samplers/random_sampler.py",
                "kappadata/samplers/class_balanced_sampler.py", "kappadata/samplers/weighted_sampler.py", "kappadata/utils/distributed.py"]
    assumptions = [
        "torch.randperm(n, generator=g) returns n entries (checked on every recorded draw) that form a permutation of range(n) (hypothesis of the theorems)",
        "a torch.Generator seeded with equal seeds yields equal draws, with different seeds different streams (not carried; the oracle compares recorded seeds and draws across ranks/epochs)",
        "outside a process group get_rank() = 0 and get_world_size() = 1; all ranks are instantiated explicitly with rank=r, world_size=W",
        "math.ceil(a / b) on the small non-negative integers in scope equals exact ceiling division",
    ]
    trusted_extra = [
        "modelled by hand: kappadata DistributedSampler.__init__/__iter__ + inherited torch DistributedSampler.__init__/__iter__/__len__, RandomSampler.__iter__ "
        "(+ inherited torch RandomSampler.__iter__), ClassBalancedSampler.__init__/__len__/__iter__, WeightedSampler.effective_length/__len__/__iter__, "
        "Python slicing xs[a:b:s] (pointwise definition), `x or default`",
        "not modelled: torch's generators (draws are a recorded tape), DataLoader, real multi-process groups (torch.distributed)",
    ]
    level_text = ("Lean theorems (KDVerif.Props.C12), for all sizes / world sizes / ranks / tapes: every rank stream has exactly len entries (len has no rank argument); "
                  "the W rank streams interleave back into the first len*W entries of one global draw, which for the distributed sampler is the base list wrapped "
                  "around (all three padding branches) or cut at the tail; the global draw and the requests to torch do not depend on the rank; the epoch enters only "
                  "through the generator seed seed+epoch (injective in the epoch); repeat_interleave puts sample j//R into slot j. Model tied to the code by "
                  "differential correspondence on recorded torch draws each run, plus an independent oracle on the real streams.")
    level_note = ("trusted: Lean kernel + standard axioms; correspondence harness; torch RNG contract (permutation, seed determinism) is a hypothesis / recorded, "
                  "'different seed gives a different draw' is not carried (set_epoch_changes_seed is about the seed); theorems about the class-balanced / weighted "
                  "samplers speak about accepted runs (model result ok) - that recorded tapes are accepted is what the correspondence checks; RandomSampler is "
                  "covered for the repeated-augmentation clause only (its len/num_samples mismatch with num_repeats>1 is outside the claim)")


class C13(SamplersCheck):
    pid = "C13"
    claimed = True
    kinds = ("cb", "semi", "weighted")
    oracle = staticmethod(oracle_c13)
    props_modules = ["KDVerif.Props.C13"]
    anchored = ["kappadata/samplers/class_balanced_sampler.py", "kappadata/samplers/semi_sampler.py",
                "kappadata/samplers/weighted_sampler.py", "kappadata/utils/getall_as_tensor.py"]
    assumptions = [
        "torch.randperm(m) is a permutation of range(m); torch.multinomial(replacement=False) returns distinct in-range indices (hypotheses of the theorems; shapes checked on every recorded draw)",
        "class labels of the balanced sampler are exactly 0..C-1 (C >= 2), unlabeled samples carry -1 (the constructors' asserts)",
        "different generator seeds give unrelated streams (not carried); that the per-rank seeds rank_seed+epoch_seed are pairwise distinct is a table test on the real draws, not a theorem",
    ]
    trusted_extra = [
        "modelled by hand: ClassBalancedSampler.__init__/__len__/__iter__, SemiSampler.__init__/effective_length/__len__/__iter__ (lazy permutation iterators), "
        "WeightedSampler.effective_length/__len__/__iter__, tensor indexing pool[perm], (mask).nonzero()",
        "not modelled: getall_as_tensor's conversion of list/ndarray/tensor (exercised by the correspondence datasets only), torch's generators",
    ]
    level_text = ("Lean theorems (KDVerif.Props.C13), for all layouts / sizes / tapes made of permutations: the class-balanced global draw holds exactly samples_per_class "
                  "indices of every class, multiplicities inside a class differ by at most 1, ranks keep all but the < W trailing entries; the semi sampler's position i is "
                  "labeled iff i % (L+U) < L, each pool's subsequence is a prefix of a concatenation of permutations of the pool, length is rank independent and follows the "
                  "three length modes; weighted rank streams are duplicate free and pairwise disjoint; all indices valid. Correspondence on recorded torch draws + oracle each run.")
    level_note = ("trusted: Lean kernel + standard axioms; correspondence harness; torch RNG contracts are hypotheses; theorems speak about accepted runs (model "
                  "result ok; the per-class loop is proved never to run out of fuel) - acceptance of recorded tapes is checked by the correspondence; 'differently "
                  "seeded per rank' = theorem semi_seed_per_rank (generator seed injective in the rank seed) + a table test that the real int32 rank/epoch seeds "
                  "of generator seeds 0..N are pairwise distinct, labelled as a test; observation outside the claim: (rank a, epoch b) and (rank b, epoch a) share a seed")

    def extra(self, res):
        n = 1024 if self.tier == "quick" else 4096
        clash = seed_table_failure(n)
        res.bump(f"seed-table {n} {'clash' if clash else 'distinct'}")
        if clash:
            res.failures.append(Failure("semi:seed-table", f"the per-rank / per-epoch int32 seeds of generator seeds {clash} coincide",
                                        {"kind": "seed-table", "n": n}, "pairwise distinct", clash))
        res.observations.append("SemiSampler: generator seed = seed + f(rank) + f(epoch) with the same f, hence (rank a, epoch b) and (rank b, epoch a) "
                                "share one stream (pinned by tests_unit/samplers/test_semi_sampler.py::test_1x1_worldsize2_fulllen); outside the claim "
                                "'differently seeded per rank', which holds within every epoch")

    def replay_input(self, inp):
        if inp.get("kind") == "seed-table":
            clash = seed_table_failure(inp["n"])
            return Failure("semi:seed-table", f"per-rank / per-epoch int32 seeds coincide for {clash}", inp, "pairwise distinct", clash) if clash else None
        return super().replay_input(inp)
