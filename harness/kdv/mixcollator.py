"""C10 — KDMixCollator / MAEFinetuneMixCollator: case generator, real-code runner (recorded RNG tape),
independent property oracle, correspondence with the Lean model (Model/MixCollator.lean).

Feeds / histories exercised besides the configuration space (see `vary`): image dtype float32/float64/float16/bfloat16 as tensors or numpy
arrays, label dtype float32/float64/float16/int64 as tensors, numpy arrays / scalars or python scalars, collator = deep copy or pickle round
trip of the configured object, a differently configured sibling collator in use next to the judged one, warm-up batches on the same object.
All outputs are judged in float64 against exactly representable sample ids; only the tolerance depends on the dtype."""
import json
import random
import time
from fractions import Fraction
from pathlib import Path

from .common import CorrResult, Disagreement, Failure, PropertyCheck, CORPUS_DIR

REL_TOL = 1e-5
SHUFFLES = ["roll", "flip", "random"]
SPLITS = [(1.0, None), (None, 1.0), (0.5, 0.5), (0.2, 0.8), (0.8, 0.2), (1.0, 0.0), (0.0, 1.0)]
MODES = ["x class", "class x", "index x class", "x index class", "x class index"]
# image / label data types and containers the collator accepts (default_collate stacks tensors and numpy arrays alike).
# tolerance = relative error of w*x_i+(1-w)*x_p evaluated in that type (3 roundings + rounding of w), with a 5x margin
PIX_TOL = {"float32": REL_TOL, "float64": REL_TOL, "float16": 4e-3, "bfloat16": 3e-2}
LAB_TOL = {"float32": 2e-5, "float64": 2e-5, "float16": 2e-3, "bfloat16": 1.6e-2}
EXACT_IDS = {"float16": 2047, "bfloat16": 255}     # integers 1..n are exactly representable


def x_dtype_of(case):
    return case.get("x_dtype") or "float32"


def dtype_name(t):
    return str(getattr(t, "dtype", "")).replace("torch.", "")


def pix_tol(case, real=None):
    t = PIX_TOL.get(x_dtype_of(case), REL_TOL)
    if real is not None:
        t = max(t, PIX_TOL.get(real.get("Xo_dtype"), REL_TOL))
    return t


def lab_tol(real):
    return LAB_TOL.get(real.get("Yo_dtype"), 2e-5)


def rat(v):
    f = Fraction(float(v))
    return [f.numerator, f.denominator]


def unrat(p):
    return p[0] / p[1]


# ----------------------------------------------------------------------------------------------
# recording proxy for np.random.Generator
# ----------------------------------------------------------------------------------------------
class RecRng:
    """duck-typed np.random.Generator that records every draw (kind, arguments, values) in order"""

    def __init__(self, gen):
        self._gen = gen
        self.tape = []

    def random(self, size=None, *a, **kw):
        v = self._gen.random(size, *a, **kw)
        if size is None:
            self.tape.append({"k": "unif", "v": rat(v)})
        elif isinstance(size, int):
            self.tape.append({"k": "unifs", "vs": [rat(x) for x in v]})
        else:
            self.tape.append({"k": "other", "what": f"random(size={size!r})"})
        return v

    def beta(self, a, b, size=None):
        v = self._gen.beta(a, b, size=size)
        if a != b:
            self.tape.append({"k": "other", "what": f"beta({a},{b})"})
        elif size is None:
            self.tape.append({"k": "beta", "a": rat(a), "v": rat(v)})
        elif isinstance(size, int):
            self.tape.append({"k": "betas", "a": rat(a), "vs": [rat(x) for x in v]})
        else:
            self.tape.append({"k": "other", "what": f"beta(size={size!r})"})
        return v

    def integers(self, low, high=None, size=None, **kw):
        v = self._gen.integers(low, high, size=size, **kw)
        if high is None and isinstance(size, tuple) and len(size) == 1:
            self.tape.append({"k": "ints", "hi": int(low), "vs": [int(x) for x in v]})
        else:
            self.tape.append({"k": "other", "what": f"integers({low},{high},size={size!r})"})
        return v

    def permutation(self, x, *a, **kw):
        v = self._gen.permutation(x, *a, **kw)
        if isinstance(x, int):
            self.tape.append({"k": "perm", "n": int(x), "l": [int(i) for i in v]})
        else:
            self.tape.append({"k": "other", "what": "permutation(array)"})
        return v

    def __getattr__(self, name):
        def f(*a, **kw):
            self.tape.append({"k": "other", "what": name})
            return getattr(self._gen, name)(*a, **kw)
        return f


# ----------------------------------------------------------------------------------------------
# inputs
# ----------------------------------------------------------------------------------------------
def pixel(i, c, r, k):
    """id-encoding: exactly representable in float32, distinct for distinct (sample, channel, row, col)"""
    return 1 + ((i * 3 + c) * 16 + r) * 16 + k


def make_inputs(case):
    import torch
    B, c, h, w = case["B"], case["c"], case["h"], case["w"]
    if case.get("enc") == "compact":
        # half precision images: ids 1..B*c*h*w (exactly representable in float16 up to 2047, in bfloat16 up to 255)
        X = (torch.arange(B * c * h * w, dtype=torch.float64) + 1.0).reshape(B, c, h, w)
    else:
        # the true values are kept in float64 (exact for every id); build_samples casts to the image dtype of the case
        X = torch.tensor([[[[pixel(i, ci, r, k) for k in range(w)] for r in range(h)] for ci in range(c)] for i in range(B)],
                         dtype=torch.float64).reshape(B, c, h, w)
    lk, C = case["label_kind"], case["C"]
    rng = random.Random(case["seed"] * 7919 + 13)
    if lk == "onehot":
        cls = [(i * case.get("cls_stride", 1) + case.get("cls_off", 0)) % C for i in range(B)]
        Y = [[1.0 if j == cl else 0.0 for j in range(C)] for cl in cls]
    elif lk == "soft":
        Y = []
        for i in range(B):
            a = rng.choice([0.0, 0.25, 0.5, 0.75, 1.0])
            row = [0.0] * C
            row[i % C] += a
            row[(i + 1) % C] += 1.0 - a
            Y.append(row)
    elif lk == "binary01":
        Y = [float((i + case.get("cls_off", 0)) % 2) for i in range(B)]
    elif lk == "binaryint":
        Y = [int((i + case.get("cls_off", 0)) % 2) for i in range(B)]
    elif lk == "binaryfloat":
        Y = [rng.choice([0.0, 0.25, 0.5, 1.0]) for _ in range(B)]
    elif lk == "intclass":
        Y = [int(i % max(C, 3)) + (2 if i == 0 else 0) for i in range(B)]
    else:
        Y = None
    return X, Y


def build_samples(case, X, Y):
    import torch
    items_of = []
    mode = case["mode"].split(" ")
    xdt = getattr(torch, x_dtype_of(case))
    ydt = getattr(torch, case.get("y_dtype") or "float32")
    for i in range(case["B"]):
        its = []
        for m in mode:
            if m == "x":
                xi = X[i].clone().to(xdt)
                its.append(xi.numpy() if case.get("x_box") == "numpy" else xi)
            elif m == "class":
                y = Y[i]
                ybox = case.get("y_box")
                if isinstance(y, list):
                    yt = torch.tensor(y, dtype=torch.float64).to(ydt)
                    its.append(yt.numpy() if ybox == "numpy" else yt)
                elif ybox == "tensor":
                    its.append(torch.tensor(y, dtype=torch.float64).to(ydt))       # 0-d tensor
                elif ybox == "numpy":
                    its.append(torch.tensor(y, dtype=torch.float64).to(ydt).numpy()[()])   # numpy scalar
                else:
                    its.append(y)                                                  # python scalar
            elif m == "index":
                its.append(100 + i)
        items_of.append(tuple(its) if len(its) > 1 else its[0])
    return [(it, {}) for it in items_of]


def exc_name(e):
    if isinstance(e, AssertionError):
        return "assert"
    if isinstance(e, NotImplementedError):
        return "notimpl"
    if isinstance(e, TypeError):
        return "type"
    return type(e).__name__


def float_sum(ct):
    return (ct["mixup_p"] or 0.) + (ct["cutmix_p"] or 0.)


def clone_of(col, how):
    """the collator as a user would ship it to a worker / checkpoint it: a deep copy or a pickle round trip of the configured object"""
    if how == "deepcopy":
        import copy
        return copy.deepcopy(col)
    if how == "pickle":
        import pickle
        return pickle.loads(pickle.dumps(col))
    return col


def make_kd(ct, mode):
    from kappadata.collators.kd_mix_collator import KDMixCollator
    kw = {k: ct[k] for k in ("mixup_p", "cutmix_p", "mixup_alpha", "cutmix_alpha") if ct.get(k) is not None}
    return KDMixCollator(apply_mode=ct["apply_mode"], lamb_mode=ct["lamb_mode"], shuffle_mode=ct["shuffle_mode"],
                         dataset_mode=mode, return_ctx=True, **kw)


def build_collator(case, rec):
    """returns (callable on the sample list, dict that will hold the ctx, inner KDMixCollator)"""
    captured = {}
    if case["kind"] == "mae":
        from kappadata.common.collators.mae_finetune_mix_collator import MAEFinetuneMixCollator
        col = clone_of(MAEFinetuneMixCollator(), case.get("clone"))
        col.set_rng(rec)
        inner = col.collators[0]
        orig = inner.collate

        def cap(batch, dataset_mode, ctx=None):
            captured["ctx"] = ctx
            return orig(batch, dataset_mode, ctx)
        inner.collate = cap

        def call(samples):
            return col([s[0] for s in samples])     # return_ctx=False: samples carry no ctx
        return call, captured, inner
    col = clone_of(make_kd(case["ctor"], case["mode"]), case.get("clone"))
    col.set_rng(rec)

    def call(samples):
        out, ctx = col(samples)
        captured["ctx"] = ctx
        return out
    return call, captured, col


def run_sibling(case):
    """a second collator object with ANOTHER configuration (own generator, own layout) is alive next to the judged one and collates a
    batch of its own right before the judged call; objects are independent, so this must not show in the judged batch"""
    import numpy as np
    sib = case.get("sibling")
    if not sib:
        return
    try:
        col = make_kd(sib["ctor"], sib["mode"])
        col.set_rng(np.random.default_rng(sib["seed"]))
        sc = {"B": sib["B"], "c": case["c"], "h": case["h"], "w": case["w"], "C": case["C"], "label_kind": sib["label_kind"],
              "mode": sib["mode"], "seed": sib["seed"], "x_dtype": sib.get("x_dtype")}
        X, Y = make_inputs(sc)
        col(build_samples(sc, X + 7.0, Y))
    except Exception:  # noqa
        pass


MAE_CTOR = {"mixup_p": 0.5, "cutmix_p": 0.5, "mixup_alpha": 0.8, "cutmix_alpha": 1.0,
            "apply_mode": "batch", "lamb_mode": "batch", "shuffle_mode": "flip"}


def effective_ctor(case):
    return MAE_CTOR if case["kind"] == "mae" else case["ctor"]


def run_real(case):
    """runs the real collator; returns dict with outcome, outputs (as python lists), ctx, recorded tape, float front end"""
    import numpy as np
    import torch
    rec = RecRng(np.random.default_rng(case["seed"]))
    out = {"tape": rec.tape, "halves": []}
    try:
        call, captured, inner = build_collator(case, rec)
    except Exception as e:  # noqa
        out["ctor"] = exc_name(e)
        return out
    out["ctor"] = "ok"
    # float front end of get_random_bbox, evaluated on the lambdas the real run passes in (same dtype, same ops)
    orig_bbox = inner.get_random_bbox
    import inspect
    try:
        bbox_sig = inspect.signature(orig_bbox)
    except (TypeError, ValueError):
        bbox_sig = None

    def rec_bbox(*a, **kw):
        # transparent: the arguments are forwarded verbatim (positional stays positional) so that the call site and the
        # callee meet exactly as they do without the recorder; the float front end is evaluated for the TRUE image extent
        r = orig_bbox(*a, **kw)
        lamb = kw.get("lamb")
        if lamb is None and bbox_sig is not None:
            try:
                lamb = bbox_sig.bind(*a, **kw).arguments.get("lamb")
            except TypeError:
                lamb = None
        if lamb is None and a:
            lamb = a[-1]
        area_half = 0.5 * (1.0 - lamb).sqrt()
        hh = (area_half * case["h"]).floor()
        wh = (area_half * case["w"]).floor()
        out["halves"] += [[int(x), int(y)] for x, y in zip(hh.tolist(), wh.tolist())]
        out.setdefault("bbox", []).extend(r[0].tolist())
        return r
    inner.get_random_bbox = rec_bbox
    X, Y = make_inputs(case)
    out["X"], out["Y"] = X, Y
    samples = build_samples(case, X, Y)
    # state carried across calls: the SAME collator object first collates `warm` other batches of the same shape but other
    # content (ids shifted); the judged batch must not depend on them (the model is a function of batch + tape only)
    for j in range(case.get("warm", 0)):
        try:
            call(build_samples(case, X + 4096.0 * (j + 1), Y[::-1] if isinstance(Y, list) else Y))
        except Exception:  # noqa
            break
    run_sibling(case)
    del rec.tape[:]
    del out["halves"][:]
    out.pop("bbox", None)
    try:
        res = call(samples)
    except Exception as e:  # noqa
        out["res"] = exc_name(e)
        return out
    out["res"] = "ok"
    ctx = captured.get("ctx") or {}
    mode = case["mode"].split(" ")
    if len(mode) == 1:
        out["single"] = True
        out["raw"] = res
        return out
    out["n_items"] = len(res)
    out["is_tuple"] = isinstance(res, tuple)
    for m, it in zip(mode, res):
        if m == "x":
            # judged in float64 (exact for every id and every image dtype); the emitted dtype only selects the tolerance
            out["Xo_dtype"] = dtype_name(it)
            out["Xo"] = torch.as_tensor(it).detach().to(torch.float64)
        elif m == "class":
            out["Yo_dtype"] = dtype_name(it)
            out["Yo"] = torch.as_tensor(it).detach().to(torch.float64)
        elif m == "index":
            out["index"] = [int(v) for v in torch.as_tensor(it).tolist()]
    uc = ctx.get("use_cutmix")
    out["use_cutmix"] = [bool(v) for v in uc.tolist()] if torch.is_tensor(uc) else [bool(uc)]
    out["apply"] = [bool(v) for v in ctx["apply"].tolist()]
    out["lambda"] = [float(v) for v in ctx["lambda"].tolist()]
    return out


# ----------------------------------------------------------------------------------------------
# model request / canonical comparison
# ----------------------------------------------------------------------------------------------
def model_request(case, real):
    ct = effective_ctor(case)
    X, Y = make_inputs(case) if "X" not in real else (real["X"], real["Y"])
    items = []
    for m in case["mode"].split(" "):
        if m == "x":
            items.append({"t": "x", "h": case["h"], "w": case["w"],
                          "imgs": [[[[int(v) for v in row] for row in ch] for ch in img] for img in X.tolist()]})
        elif m == "class":
            if Y is not None and isinstance(Y[0], list):
                items.append({"t": "cls2", "rows": [[rat(v) for v in row] for row in Y]})
            else:
                items.append({"t": "cls1", "ys": [rat(v) for v in Y]})
        else:
            items.append({"t": "other", "tag": 7})
    return {"op": "mc.collate",
            "ctor": {"mixup_p": None if ct.get("mixup_p") is None else rat(ct["mixup_p"]),
                     "cutmix_p": None if ct.get("cutmix_p") is None else rat(ct["cutmix_p"]),
                     "mixup_alpha": None if ct.get("mixup_alpha") is None else rat(ct["mixup_alpha"]),
                     "cutmix_alpha": None if ct.get("cutmix_alpha") is None else rat(ct["cutmix_alpha"]),
                     "float_sum": rat(float_sum(ct)),
                     "apply_mode": ct["apply_mode"], "lamb_mode": ct["lamb_mode"], "shuffle_mode": ct["shuffle_mode"]},
            "mode": case["mode"].split(" "), "items": items, "c": case["c"],
            "tape": [{k: v for k, v in d.items() if k != "what"} for d in real["tape"]],
            "halves": real["halves"]}


def close(a, b, scale=1.0):
    return abs(a - b) <= REL_TOL * max(abs(a), abs(b), scale)


def compare(case, real, model):
    """returns a description of the first difference or None. integers exactly, reals within REL_TOL"""
    if real.get("ctor") != model.get("ctor"):
        return f"ctor: impl={real.get('ctor')} model={model.get('ctor')}"
    if real.get("ctor") != "ok":
        return None
    if real.get("res") != model.get("res"):
        return f"outcome: impl={real.get('res')} model={model.get('res')}"
    if real.get("res") != "ok":
        return None
    mode = case["mode"].split(" ")
    if real["n_items"] != len(model["items"]):
        return "number of items"
    for name in ("use_cutmix", "apply"):
        if real[name] != model[name]:
            return f"ctx {name}: impl={real[name]} model={model[name]}"
    ml = [unrat(p) for p in model["lambda"]]
    if len(ml) != len(real["lambda"]) or not all(close(a, b) for a, b in zip(ml, real["lambda"])):
        return f"ctx lambda: impl={real['lambda']} model={ml}"
    perm = None
    for d in real["tape"]:
        if d["k"] == "perm":
            perm = d["l"]
    if model["perm"] != perm:
        return f"permutation state: impl tape={perm} model={model['perm']}"
    for m, it in zip(mode, model["items"]):
        if m == "x":
            if it["t"] != "x":
                return "layout x"
            xo = real["Xo"].tolist()
            # rounding error of w*x_i+(1-w)*x_j in the image dtype (incl. rounding w) is relative to the operands, not to the result
            xmax = float(real["X"].abs().max())
            ptol = pix_tol(case, real)
            if list(real["Xo"].shape) != [case["B"], case["c"], case["h"], case["w"]]:
                return "x shape"
            for i, img in enumerate(it["imgs"]):
                for ci, ch in enumerate(img):
                    for r, row in enumerate(ch):
                        for k, p in enumerate(row):
                            if not abs(unrat(p) - xo[i][ci][r][k]) <= ptol * max(abs(unrat(p)), abs(xo[i][ci][r][k]), xmax):
                                return f"pixel sample={i} c={ci} r={r} col={k}: impl={xo[i][ci][r][k]} model={unrat(p)}"
            if list(real["Xo"].shape) != [case["B"], case["c"], case["h"], case["w"]]:
                return "x shape"
        elif m == "class":
            yo = real["Yo"].tolist()
            ltol = max(REL_TOL, lab_tol(real) / 2)

            def lclose(a, b):
                return abs(a - b) <= ltol * max(abs(a), abs(b), 1.0)
            if it["t"] == "cls2":
                if real["Yo"].ndim != 2 or len(yo) != len(it["rows"]):
                    return "label layout"
                for i, row in enumerate(it["rows"]):
                    if len(row) != len(yo[i]) or not all(lclose(unrat(p), v) for p, v in zip(row, yo[i])):
                        return f"label row {i}: impl={yo[i]} model={[unrat(p) for p in row]}"
            elif it["t"] == "cls1":
                if real["Yo"].ndim != 1 or len(yo) != len(it["ys"]) or not all(lclose(unrat(p), v) for p, v in zip(it["ys"], yo)):
                    return f"binary labels: impl={yo} model={[unrat(p) for p in it['ys']]}"
            else:
                return "layout class"
        else:
            if it["t"] != "other" or real["index"] != [100 + i for i in range(case["B"])]:
                return "index item changed"
    return None


# ----------------------------------------------------------------------------------------------
# independent oracle: the property statement checked on the real outputs (no Lean model involved)
# ----------------------------------------------------------------------------------------------
def in_domain(case):
    mode = case["mode"].split(" ")
    return "x" in mode and "class" in mode and case["B"] >= 1 and case["label_kind"] in ("onehot", "soft", "binary01", "binaryint", "binaryfloat")


def decode_image(Xi, Xj, Xo, same, tol=REL_TOL):
    """how can the emitted image be read w.r.t. partner j: returns list of ('mix', w, w_tolerance) / ('cut', retained_fraction, box).
    All tensors are float64 (ids exact); tol = relative rounding error of the image dtype"""
    import torch
    forms = []
    if same:
        # partner = the sample itself: any weight / box gives the sample back (up to rounding of w*x+(1-w)*x)
        if bool(torch.all(torch.abs(Xo - Xi) <= tol * Xi.abs() + 1e-6)):
            forms.append(("self", None))
        return forms
    # cutmix reading: every pixel is the own or the partner's; partner pixels form one box, identical over channels
    from_j = Xo == Xj
    from_i = Xo == Xi
    if bool((from_j | from_i).all()):
        m = from_j & ~from_i
        m2 = m[0]
        if bool((m == m2.unsqueeze(0)).all()):
            h, w = m2.shape
            n = int(m2.sum())
            if n == 0:
                forms.append(("cut", 1.0, None))
            else:
                rows = m2.any(dim=1).nonzero().flatten().tolist()
                cols = m2.any(dim=0).nonzero().flatten().tolist()
                top, bot, left, right = rows[0], rows[-1] + 1, cols[0], cols[-1] + 1
                if n == (bot - top) * (right - left):
                    forms.append(("cut", 1.0 - n / (h * w), [top, left, bot, right]))
    # mixup reading: one weight for all pixels
    d = (Xi - Xj)
    if bool((d != 0).all()):
        scale = torch.maximum(Xi.abs(), Xj.abs())
        wts = ((Xo - Xj) / d).flatten()
        wm = float(wts.double().mean())
        # every pixel estimates the weight up to tol*scale/|d|, so does their mean; the residual is at most twice the pixel error
        if bool(torch.all(torch.abs(Xo - (wm * Xi + (1 - wm) * Xj)) <= (tol if tol <= REL_TOL else 2 * tol) * scale + 1e-6)):
            wtol = REL_TOL if tol <= REL_TOL else float((tol * scale / d.abs()).max())
            forms.append(("mix", wm, wtol))
    return forms


def oracle(case, real):
    """Failure or None"""
    import torch
    if not in_domain(case) or real.get("ctor") != "ok" or real.get("res") != "ok" or real.get("single"):
        return None
    ct = effective_ctor(case)
    lm, sm = ct["lamb_mode"], ct["shuffle_mode"]
    tag = f"{case['kind']} lamb={lm} shuffle={sm} B={case['B']} {case['c']}x{case['h']}x{case['w']} labels={case['label_kind']} seed={case['seed']}"
    if x_dtype_of(case) != "float32" or case.get("x_box") or case.get("y_dtype") or case.get("y_box"):
        tag += f" image={x_dtype_of(case)}/{case.get('x_box') or 'tensor'} label={case.get('y_dtype') or 'float32'}/{case.get('y_box') or 'default'}"
    if case.get("clone") or case.get("sibling"):
        tag += f" history={case.get('clone') or ''}{'+sibling' if case.get('sibling') else ''}"
    B = case["B"]
    X, Xo, Yo = real["X"], real["Xo"], real["Yo"]
    mode = case["mode"].split(" ")
    # layout / pass-through
    if real["n_items"] != len(mode) or not real["is_tuple"]:
        return Failure("mixcollator:layout", f"output layout differs from the mode for {tag}", case, len(mode), real["n_items"])
    if "index" in mode and real["index"] != [100 + i for i in range(B)]:
        return Failure("mixcollator:passthrough", f"index item changed for {tag}", case, [100 + i for i in range(B)], real["index"])
    if list(Xo.shape) != list(X.shape):
        return Failure("mixcollator:layout", f"image tensor shape changed for {tag}", case, list(X.shape), list(Xo.shape))
    binary = not isinstance(real["Y"][0], list)
    Y = torch.tensor(real["Y"], dtype=torch.float64)
    ptol, ltol = pix_tol(case, real), lab_tol(real)
    if Xo.dtype != torch.float64 or Yo.dtype != torch.float64:      # replay of an older record
        Xo, Yo = Xo.double(), Yo.double()
    X = X.double()
    if binary:
        if Yo.ndim != 1 or len(Yo) != B:
            return Failure("mixcollator:layout", f"binary labels do not come back as a 1-d tensor for {tag}", case, [B], list(Yo.shape))
        Y2, Yo2 = Y.unsqueeze(1), Yo.unsqueeze(1)
    else:
        if list(Yo.shape) != list(Y.shape):
            return Failure("mixcollator:layout", f"label tensor shape changed for {tag}", case, list(Y.shape), list(Yo.shape))
        Y2, Yo2 = Y, Yo
    lam = real["lambda"]
    if len(lam) not in (1, B):
        return Failure("mixcollator:ctx-weight", f"context lambda has {len(lam)} entries for {tag}", case, B, len(lam))
    decoded = []
    for i in range(B):
        w = lam[i] if len(lam) == B else lam[0]
        if not (-1e-6 <= w <= 1 + 1e-6):
            return Failure("mixcollator:ctx-weight", f"reported weight {w} outside [0,1] for {tag}", case, "[0,1]", w)
        if B == 1:
            cands = [0]
        elif sm == "roll":
            cands = [(i - 1) % B]
        elif sm == "flip":
            cands = [B - 1 - i]
        else:
            cands = list(range(B))
        ok_js, why = [], []
        for j in cands:
            forms = decode_image(X[i], X[j], Xo[i], j == i, ptol)
            img_ok = False
            for f in forms:
                if f[0] == "self":
                    img_ok = True
                elif f[0] == "mix" and abs(f[1] - w) <= max(f[2], REL_TOL * max(abs(f[1]), abs(w), 1.0)):
                    img_ok = True
                elif f[0] == "cut" and close(f[1], w, 1.0):
                    img_ok = True
            exp_y = w * Y2[i] + (1 - w) * Y2[j]
            lab_ok = bool(torch.all(torch.abs(Yo2[i] - exp_y) <= ltol))
            if img_ok and lab_ok:
                ok_js.append(j)
            else:
                why.append({"partner": j, "image_readings": [list(map(lambda v: v if not hasattr(v, 'tolist') else v.tolist(), f)) for f in forms],
                            "ctx_weight": w, "label": Yo2[i].tolist(), "label_expected_with_ctx_weight": exp_y.tolist()})
        if not ok_js:
            # was it at least a valid image for the shuffle partner (then the label / weight disagrees), or not even that
            any_form = any(len(d["image_readings"]) > 0 for d in why)
            key = f"mixcollator:image-label-mismatch:lamb={lm}" if any_form else f"mixcollator:partner-or-image-form:shuffle={sm}"
            what = (f"sample {i}: image and label are not mixed with the same partner/weight (ctx weight {w:.6f}) for {tag}"
                    if any_form else f"sample {i}: emitted image is neither mixup nor one-box cutmix with the partner of shuffle mode {sm} for {tag}")
            return Failure(key, what, case, "label_i = w*y_i+(1-w)*y_p(i) and image_i mixed with the same w, p(i)", why[:3])
        decoded.append(ok_js)
    if sm == "random" and B > 1:
        # the uniquely decoded partners must be pairwise different (p is a permutation)
        uniq = [js[0] for js in decoded if len(js) == 1]
        if len(set(uniq)) != len(uniq):
            return Failure("mixcollator:partner-not-permutation", f"random partners are not a permutation for {tag}", case, "injective", decoded)
    # label rows stay on the simplex
    eps = 1e-6 if ltol <= 2e-5 else ltol
    if not binary:
        sums = Yo.sum(dim=1)
        if bool((Yo < -eps).any()) or bool((torch.abs(sums - 1) > ltol * (1 if ltol <= 2e-5 else Yo.shape[1])).any()):
            return Failure("mixcollator:label-simplex", f"label rows are not non-negative / do not sum to one for {tag}", case, 1.0, sums.tolist())
    else:
        if bool((Yo < -eps).any()) or bool((Yo > 1 + eps).any()):
            return Failure("mixcollator:label-simplex", f"binary labels leave [0,1] for {tag}", case, "[0,1]", Yo.tolist())
    return None


# ----------------------------------------------------------------------------------------------
# case generation
# ----------------------------------------------------------------------------------------------
def gen_case(rng, big=False):
    r = rng.random()
    B = rng.choice([1, 2, 2, 3, 4, 4, 5, 6])
    c = rng.choice([1, 3])
    if big:
        h, w = rng.choice([(16, 16), (16, 5), (7, 16)])
    else:
        h, w = rng.randint(1, 6), rng.randint(1, 6)
    lk = rng.choice(["onehot", "onehot", "onehot", "soft", "binary01", "binaryfloat", "binaryint"])
    C = rng.randint(2, 5)
    mode = rng.choice(MODES)
    case = {"kind": "kd", "B": B, "c": c, "h": h, "w": w, "C": C, "label_kind": lk, "mode": mode,
            "cls_off": rng.randint(0, 3), "cls_stride": rng.choice([1, 1, 2]), "seed": rng.randint(0, 10 ** 6),
            "warm": rng.choice([0, 0, 1, 2])}
    if r < 0.06:
        case["kind"] = "mae"
        case["mode"] = "x class"
        case["B"] = rng.choice([1, 2, 4, 6, 3])
        return vary(case)
    mp, cp = rng.choice(SPLITS)
    ct = {"mixup_p": mp, "cutmix_p": cp,
          "mixup_alpha": rng.choice([0.8, 1.0, 0.3, 2.0]) if mp else None,
          "cutmix_alpha": rng.choice([1.0, 0.5, 3.0]) if cp else None,
          "apply_mode": rng.choice(["batch", "sample"]), "lamb_mode": rng.choice(["batch", "sample", "sample"]),
          "shuffle_mode": rng.choice(SHUFFLES)}
    if ct["shuffle_mode"] == "flip" and B % 2 == 1 and B > 1 and rng.random() < 0.8:
        case["B"] = B + 1
    case["ctor"] = ct
    if r < 0.12:
        # out-of-domain / rejected inputs: compared with the model, never judged
        k = rng.choice(["noprob", "sum_lt", "sum_gt", "alpha_missing", "alpha_extra", "badmode", "neg", "intclass", "nox", "alpha0"])
        if k == "noprob":
            ct.update(mixup_p=None, cutmix_p=None, mixup_alpha=None, cutmix_alpha=None)
        elif k == "sum_lt":
            ct.update(mixup_p=0.5, cutmix_p=0.25, mixup_alpha=0.8, cutmix_alpha=1.0)
        elif k == "sum_gt":
            ct.update(mixup_p=0.75, cutmix_p=0.5, mixup_alpha=0.8, cutmix_alpha=1.0)
        elif k == "alpha_missing":
            ct.update(mixup_p=0.5, cutmix_p=0.5, mixup_alpha=None, cutmix_alpha=1.0)
        elif k == "alpha_extra":
            ct.update(mixup_p=1.0, cutmix_p=None, mixup_alpha=0.8, cutmix_alpha=1.0)
        elif k == "alpha0":
            ct.update(mixup_p=1.0, cutmix_p=None, mixup_alpha=0.0, cutmix_alpha=None)
        elif k == "badmode":
            ct[rng.choice(["apply_mode", "lamb_mode", "shuffle_mode"])] = "other"
        elif k == "neg":
            ct.update(mixup_p=-0.5, cutmix_p=1.0, mixup_alpha=0.8, cutmix_alpha=1.0)
        elif k == "intclass":
            case["label_kind"] = "intclass"
        elif k == "nox":
            case["mode"] = rng.choice(["index class", "class index"])
    return vary(case)


IN_DOMAIN_LABELS = ("onehot", "soft", "binary01", "binaryint", "binaryfloat")


def vary(case):
    """feeds and histories the property quantifies over silently (`all inputs`): image / label data type and container, the collator object
    being a copy of the configured one, another differently configured collator alive and in use. Drawn from a generator of its own
    (derived from the case) so that the legacy stream of cases is unchanged; every choice is written into the case (replays are
    self-contained); absent fields = float32 tensors, python scalars for binary labels, fresh object, no sibling."""
    r = random.Random(case["seed"] * 2654435761 % (2 ** 31) + 17 * case["B"] + case["h"])
    n = case["B"] * case["c"] * case["h"] * case["w"]
    u = r.random()
    xdt = "float32" if u < 0.5 else "float64" if u < 0.72 else "float16" if u < 0.9 else "bfloat16"
    if xdt in EXACT_IDS and n > EXACT_IDS[xdt]:
        xdt = "float16" if n <= EXACT_IDS["float16"] else "float64"
    if xdt != "float32":
        case["x_dtype"] = xdt
    if xdt in EXACT_IDS:
        case["enc"] = "compact"
    if xdt != "bfloat16" and r.random() < 0.25:
        case["x_box"] = "numpy"
    lk = case["label_kind"]
    if lk in IN_DOMAIN_LABELS:
        binary = lk.startswith("binary")
        integral = lk in ("onehot", "binary01", "binaryint")
        v = r.random()
        if binary and v < 0.55:
            pass                                    # python scalars (default_collate makes float64 / int64 of them)
        else:
            if binary:
                case["y_box"] = "tensor" if r.random() < 0.65 else "numpy"
            elif r.random() < 0.25:
                case["y_box"] = "numpy"
            ydt = r.choice(["float32", "float32", "float64", "float64", "float16", "int64"])
            if ydt == "int64" and not integral:
                ydt = "float64"
            if ydt != "float32":
                case["y_dtype"] = ydt
    h = r.random()
    if h < 0.08:
        case["clone"] = "deepcopy"
    elif h < 0.16:
        case["clone"] = "pickle"
    if case["kind"] == "kd" and r.random() < 0.12:
        mp, cp = r.choice(SPLITS[:5])
        case["sibling"] = {"ctor": {"mixup_p": mp, "cutmix_p": cp, "mixup_alpha": 0.8 if mp else None, "cutmix_alpha": 1.0 if cp else None,
                                    "apply_mode": r.choice(["batch", "sample"]), "lamb_mode": r.choice(["batch", "sample"]),
                                    "shuffle_mode": r.choice(SHUFFLES)},
                           "mode": r.choice(MODES), "B": r.choice([2, 4]), "label_kind": "onehot", "seed": r.randint(0, 10 ** 6),
                           "x_dtype": r.choice([None, "float64"])}
    return case


def structured_cases():
    """every lamb/shuffle/apply mode x probability split x batch-size class, small images"""
    out = []
    seed = 0
    for lm in ("batch", "sample"):
        for sm in SHUFFLES:
            for am in ("batch", "sample"):
                for mp, cp in SPLITS:
                    for B in (1, 2, 3, 4):
                        for lk in ("onehot", "binary01"):
                            seed += 1
                            out.append({"kind": "kd", "B": B, "c": 1 + 2 * (seed % 2), "h": 2 + seed % 4, "w": 2 + (seed // 3) % 4, "C": 2 + seed % 3,
                                        "label_kind": lk, "mode": MODES[seed % len(MODES)], "cls_off": seed % 2, "cls_stride": 1, "seed": seed, "warm": seed % 3,
                                        "ctor": {"mixup_p": mp, "cutmix_p": cp, "mixup_alpha": 0.8 if mp else None,
                                                 "cutmix_alpha": 1.0 if cp else None, "apply_mode": am, "lamb_mode": lm, "shuffle_mode": sm}})
    return [vary(c) for c in out]


def signature(case, real):
    ct = effective_ctor(case)
    uc = real.get("use_cutmix")
    flags = None if uc is None else ("all" if all(uc) else "none" if not any(uc) else "mixed")
    box = None
    if real.get("bbox"):
        box = any((b[2] - b[0]) * (b[3] - b[1]) > 0 for b in real["bbox"])
    B = case["B"]
    return (case["kind"], ct["lamb_mode"], ct["shuffle_mode"], ct["apply_mode"], str(ct.get("mixup_p")), str(ct.get("cutmix_p")),
            1 if B == 1 else (2 if B % 2 == 0 else 3), case["label_kind"], case["mode"], real.get("ctor"), real.get("res"), flags, box,
            x_dtype_of(case), bool(case.get("clone") or case.get("sibling")))


def public(case):
    return {k: v for k, v in case.items()}


class C10(PropertyCheck):
    pid = "C10"
    claimed = True
    props_modules = ["KDVerif.Props.C10"]
    extra_build = ["KDVerif.Driver.MixCollator"]
    driver_main = "mains/MixCollator.lean"
    anchored = ["kappadata/collators/kd_mix_collator.py", "kappadata/common/collators/mae_finetune_mix_collator.py",
                "kappadata/wrappers/mode_wrapper.py"]
    assumptions = [
        "np.random.Generator contract: random() in [0,1), beta(a,a) in [0,1], integers(n) in [0,n), permutation(n) is a permutation of range(n) "
        "(hypothesis TapeOk of the theorems; the tape itself is recorded from the real run by a duck-typed proxy)",
        "reals are modelled over Rat; rounding of pixel/label arithmetic is covered by the relative tolerance of the correspondence and of the oracle "
        "(1e-5 for float32/float64 images, 4e-3 for float16, 3e-2 for bfloat16: three roundings + rounding of the weight, 5x margin; sample ids are "
        "exactly representable in the image dtype, so cutmix pixels are compared exactly)",
        "float front end of get_random_bbox (floor(0.5*sqrt(1-lam)*extent)) is evaluated by torch on the recorded lambdas and handed to the integer core; "
        "the theorems hold for every front-end output",
        "torch tensor ops roll / flip / index / slice-assign / mul_ / add_ / where / clamp / default_collate behave as documented",
    ]
    trusted_extra = [
        "modelled by hand: KDMixCollator.__init__ (argument checks), collate (both lamb modes, ctx, get/set_item), shuffle, get_random_bbox integer core; "
        "ModeWrapper.has_item/get_item/set_item on tuple batches",
        "not modelled: Beta sampler, float32 rounding, in-place aliasing of the input tensors, single-item modes (batch is a bare tensor: observed only)",
    ]
    technique = "Lean 4 proof over hand model + differential correspondence on id-encoded batches + independent decoding oracle"
    design_ref = "DESIGN.md 3 (C10)"
    level_text = ("Lean theorems (KDVerif.Props.C10) for every batch size, image extent, class count, mode layout, configuration, front-end output and tape: "
                  "label row i = w_i*y_i+(1-w_i)*y_p(i) with w_i = ctx lambda and p = the shuffle-mode partner; mixup pixels use the same w_i, p(i); cutmix: "
                  "box inside the image, partner pixels inside / own pixels outside, retained fraction 1-area/(h*w) = w_i; p follows roll/flip/random "
                  "(one permutation, reused for labels); weights in [0,1]; simplex rows stay on the simplex; binary labels stay 1-d in [0,1]; other items and "
                  "layout pass through. Model tied to the code by per-run correspondence with the recorded RNG tape.")
    level_note = ("trusted: Lean kernel + standard axioms; correspondence harness; numpy Generator contract; float32 rounding within tolerance; "
                  "bijectivity of roll/flip partners is by definition of the index formulas (not a separate theorem)")

    def cases(self):
        corpus = []
        cdir = CORPUS_DIR / "mixcollator"
        if cdir.exists():
            for p in sorted(cdir.glob("*.json")):
                corpus.append(json.loads(p.read_text()))
        st = structured_cases()
        if self.tier == "quick":
            self.rng.shuffle(st)
            st = st[:450]
        n_rand = 1500 if self.tier == "quick" else 40000
        rnd = [gen_case(self.rng, big=(i % 25 == 0)) for i in range(n_rand)]
        return corpus + st + rnd, len(corpus), len(st)

    def correspond(self):
        res = CorrResult()
        cases, ncorp, nst = self.cases()
        res.rule = (f"{ncorp} corpus + {nst} structured cases (lamb x shuffle x apply mode x 7 probability splits x B in 1..4 x one-hot/binary"
                    f"{'; sampled' if self.tier == 'quick' else '; complete'}) + seeded random cases (B 1..6, c in {{1,3}}, h,w in 1..6 and 16, 2..5 classes, "
                    "soft/binary labels, 5 mode layouts, MAEFinetuneMixCollator, rejected constructor calls); about half of all cases feed images as "
                    "float64/float16/bfloat16 and/or numpy arrays, labels as float64/float16/int64 tensors, numpy arrays or scalars; a share runs on a "
                    "deep copy / pickle round trip of the collator or next to a differently configured sibling collator in use; distinct = (collator, lamb/shuffle/apply mode, "
                    "split, batch-size class, label kind, layout, outcome, flag pattern, non-empty box)")
        reals, reqs = [], []
        for case in cases:
            real = run_real(case)
            reals.append(real)
            reqs.append(model_request(case, real))
        answers = self.driver.run(reqs)
        for case, real, model in zip(cases, reals, answers):
            res.cases += 1
            res.nontrivial.add(signature(case, real))
            ct = effective_ctor(case)
            res.bump(f"ctor={real.get('ctor')}")
            res.bump(f"res={real.get('res')}")
            res.bump(f"lamb={ct['lamb_mode']}")
            res.bump(f"shuffle={ct['shuffle_mode']}")
            res.bump(f"B={case['B']}")
            res.bump(f"image={x_dtype_of(case)}/{case.get('x_box') or 'tensor'}")
            res.bump(f"label={case.get('y_dtype') or 'float32'}/{case.get('y_box') or 'default'}")
            res.bump(f"history={case.get('clone') or 'fresh'}{'+sibling' if case.get('sibling') else ''}")
            if real.get("use_cutmix") is not None:
                uc = real["use_cutmix"]
                res.bump("flags=" + ("all-cutmix" if all(uc) else "all-mixup" if not any(uc) else "mixed"))
            if "error" in model:
                raise RuntimeError(f"lean driver: {model['error']}")
            diff = compare(case, real, model)
            if diff is not None and len(res.disagreements) < 50:
                res.disagreements.append(Disagreement(public(case), {k: model.get(k) for k in ("ctor", "res", "use_cutmix", "perm")},
                                                      {k: real.get(k) for k in ("ctor", "res", "use_cutmix", "lambda")}, diff))
            f = oracle(case, real)
            if f is not None and len(res.failures) < 50:
                if not any(g.key == f.key for g in res.failures) or len(res.failures) < 5:
                    res.failures.append(f)
            if len(res.samples) < 3 and real.get("res") == "ok" and real.get("bbox"):
                res.samples.append({"case": public(case), "use_cutmix": real["use_cutmix"], "lambda": real["lambda"], "bbox": real["bbox"],
                                    "tape_kinds": [d["k"] for d in real["tape"]]})
        # single-item mode: the batch is a bare tensor; ModeWrapper.set_item then enumerates its rows (layout is C18's business): observed only
        try:
            c1 = {"kind": "kd", "B": 2, "c": 1, "h": 2, "w": 2, "C": 2, "label_kind": "none", "mode": "x", "seed": 1,
                  "ctor": {"mixup_p": 1.0, "cutmix_p": None, "mixup_alpha": 0.8, "cutmix_alpha": None, "apply_mode": "batch",
                           "lamb_mode": "batch", "shuffle_mode": "roll"}}
            r1 = run_real(c1)
            raw = r1.get("raw")
            res.observations.append(f"mode 'x' (single item): collate returns {type(raw).__name__} of length {len(raw) if raw is not None else None} "
                                    f"(outcome {r1.get('res')}); out of the claim (needs image and label)")
        except Exception as e:  # noqa
            res.observations.append(f"mode 'x' probe: {type(e).__name__}")
        res.failures.sort(key=lambda f: (f.input["B"] * f.input["h"] * f.input["w"], len(json.dumps(f.input))))
        return res

    def replay_input(self, inp):
        return oracle(inp, run_real(inp))

    def search(self, budget_s, hints):
        t0 = time.time()
        out = []
        for h in hints:
            f = oracle(h, run_real(h))
            if f:
                out.append(f)
        for c in structured_cases():
            if out or time.time() - t0 > budget_s:
                break
            f = oracle(c, run_real(c))
            if f:
                out.append(f)
        rng = random.Random(self.seed + 1010)
        while not out and time.time() - t0 < budget_s:
            c = gen_case(rng)
            f = oracle(c, run_real(c))
            if f:
                out.append(f)
        return out
