"""C07 (and the shared machinery for C08 / C09): RNG-flow probe.

* translation: `translate_rngflow.generate()` regenerates lean/KDVerif/Gen/RngTable.lean from /repo on every run
* dynamic probe (validates the translator = the tie): real object graphs vs. the generated table and the model's `setRng`
* behavioural oracle (independent of the model): equal injected seeds => equal outputs/ctx; global RNG untouched
"""
import copy
import io
import json
import random as pyrandom
import time

import numpy as np
import torch

from . import translate_rngflow as tr
from .common import CorrResult, Disagreement, Failure, PropertyCheck


# ----------------------------------------------------------------------------------------------
# inputs
# ----------------------------------------------------------------------------------------------
def inp_tensor(k=0, h=16, w=16):
    g = torch.Generator().manual_seed(1000 + k)
    return torch.rand(3, h, w, generator=g)


def inp_pil(k=0, h=16, w=16):
    from torchvision.transforms.functional import to_pil_image
    return to_pil_image(inp_tensor(k, h, w))


def inp_spec(k=0):
    g = torch.Generator().manual_seed(2000 + k)
    return torch.rand(1, 24, 16, generator=g)


def inp_pair(k=0):
    g = torch.Generator().manual_seed(3000 + k)
    return inp_tensor(k, 20, 24), torch.randint(0, 5, (20, 24), generator=g)


def inp_patches(k=0):
    g = torch.Generator().manual_seed(4000 + k)
    return torch.rand(3, 4, 4, 4, generator=g)


def inp_spec_big(k=0):
    g = torch.Generator().manual_seed(2500 + k)
    return torch.rand(1, 1056, 1000, generator=g)


def inp_pair_big(k=0):
    g = torch.Generator().manual_seed(3500 + k)
    return inp_tensor(k, 600, 592), torch.randint(0, 5, (600, 592), generator=g)


INPUTS = {"tensor": inp_tensor, "pil": inp_pil, "spec": inp_spec, "pair": inp_pair, "patches": inp_patches,
          # the property quantifies over all input sizes / modes: variants of the base kinds (more than 2**20 elements, other float type)
          "tensor-big": lambda k=0: inp_tensor(k, 592, 592), "pil-big": lambda k=0: inp_pil(k, 592, 592),
          "spec-big": inp_spec_big, "pair-big": inp_pair_big,
          "tensor-f64": lambda k=0: inp_tensor(k).double(), "tensor-odd": lambda k=0: inp_tensor(k, 17, 33)}
VARIANTS = {"tensor": ["tensor-big", "tensor-f64", "tensor-odd"], "pil": ["pil-big"], "spec": ["spec-big"], "pair": ["pair-big"]}
BASE_KINDS = ("tensor", "pil", "spec", "pair", "patches")
# call histories (all judged by the same statement: equal injected seeds + equal inputs + equal public configuration => equal outputs)
#   plain    : a has two calls before the injection, b none; replay on a; a pickled/deep copy of the used a
#   strength : scale_strength(0) on both BEFORE the injection, the strength is raised / varied (equally on both) between the seeded calls
#   worker   : worker_init_fn (scheduled transforms start to follow their schedule) on both, equal number of earlier calls,
#              a with earlier injected seeds and b without; the seed is injected once or per sample
HISTS = ("plain", "strength", "worker")
POST_STRENGTH = (1.0, 1.0, 0.5, 0.0, 1.0, 0.3)


# ----------------------------------------------------------------------------------------------
# recipes: class name -> list of (label, constructor thunk, input kind)
# ----------------------------------------------------------------------------------------------
def recipes():
    import kappadata.transforms as T
    import kappadata.common.transforms as CT
    from kappadata.transforms.kd_random_rotation import KDRandomRotation
    from kappadata.transforms.kd_transform_choice import KDTransformChoice
    from kappadata.transforms.kd_two_random_crop import KDTwoRandomCrop
    from kappadata.common.transforms import mugs_transforms as MT
    from kappadata.transforms.semseg.kd_semseg_random_resize_old import KDSemsegRandomResizeOld
    R = {}

    def add(name, label, thunk, kind):
        R.setdefault(name, []).append((label, thunk, kind))

    add("KDAdditiveGaussianNoise", "std", lambda: T.KDAdditiveGaussianNoise(std=0.1), "tensor")
    add("KDAdditiveGaussianNoise", "normalmag", lambda: T.KDAdditiveGaussianNoise(std=0.1, magnitude=0.5, magnitude_std=0.2), "tensor")
    add("KDAdditiveUniformNoise", "dflt", lambda: T.KDAdditiveUniformNoise(), "tensor")
    add("KDColorJitter", "t", lambda: T.KDColorJitter(0.4, 0.4, 0.2, 0.1), "tensor")
    add("KDColorJitter", "p", lambda: T.KDColorJitter(0.4, 0.4, 0.2, 0.1), "pil")
    add("KDGaussianBlurPIL", "p", lambda: T.KDGaussianBlurPIL(sigma=(0.1, 2.0)), "pil")
    add("KDGaussianBlurTV", "t", lambda: T.KDGaussianBlurTV(kernel_size=3, sigma=(0.1, 2.0)), "tensor")
    add("KDMagnitudeJitter", "t", lambda: T.KDMagnitudeJitter(alpha=10), "spec")
    add("KDRandAugment", "p", lambda: T.KDRandAugment(num_ops=2, magnitude=9, fill_color=[124, 116, 104], interpolation="bicubic",
                                                     magnitude_std=0.5), "pil")
    add("KDRandAugment", "rnd", lambda: T.KDRandAugment(num_ops=3, magnitude=5, fill_color=[124, 116, 104], interpolation="random",
                                                       magnitude_std=float("inf")), "pil")
    add("KDRandAugmentCustom", "p", lambda: T.KDRandAugmentCustom(num_ops=2, magnitude=9, fill_color=[124, 116, 104],
                                                                 interpolation="bicubic", magnitude_std=0.5), "pil")
    add("KDRandomAdditiveGaussianNoise", "t", lambda: T.KDRandomAdditiveGaussianNoise(std=0.1, p=0.6), "tensor")
    add("KDRandomApply", "crop", lambda: T.KDRandomApply(transform=T.KDRandomCrop(size=8), p=0.6), "tensor")
    add("KDRandomApply", "patchwise", lambda: T.KDRandomApply(
        transform=T.PatchwiseTransform(patch_size=8, transform=T.KDRandomCrop(size=8, padding=2)), p=0.7), "tensor")
    add("KDRandomColorJitter", "t", lambda: T.KDRandomColorJitter(p=0.7, brightness=0.4, contrast=0.4, saturation=0.2, hue=0.1), "tensor")
    add("KDRandomCrop", "t", lambda: T.KDRandomCrop(size=8, padding=2), "tensor")
    add("KDRandomCrop", "p", lambda: T.KDRandomCrop(size=8), "pil")
    add("KDRandomErasing", "px", lambda: T.KDRandomErasing(p=0.8, mode="pixelwise"), "tensor")
    add("KDRandomErasing", "ch", lambda: T.KDRandomErasing(p=0.8, mode="channelwise", max_count=3), "tensor")
    add("KDRandomGaussianBlurPIL", "p", lambda: T.KDRandomGaussianBlurPIL(sigma=(0.1, 2.0), p=0.6), "pil")
    add("KDRandomGaussianBlurTV", "t", lambda: T.KDRandomGaussianBlurTV(kernel_size=3, sigma=(0.1, 2.0), p=0.6), "tensor")
    add("KDRandomGrayscale", "t", lambda: T.KDRandomGrayscale(p=0.5), "tensor")
    add("KDRandomHorizontalFlip", "t", lambda: T.KDRandomHorizontalFlip(p=0.5), "tensor")
    add("KDRandomResizedCrop", "t", lambda: T.KDRandomResizedCrop(size=8), "tensor")
    add("KDRandomResizedCrop", "p", lambda: T.KDRandomResizedCrop(size=8, scale=(0.3, 1.0)), "pil")
    add("KDRandomRotation", "t", lambda: KDRandomRotation(degrees=30), "tensor")
    add("KDRandomSolarize", "t", lambda: T.KDRandomSolarize(threshold=0.5, p=0.5), "tensor")
    add("KDRandomThreshold", "t", lambda: T.KDRandomThreshold(threshold=0.5, threshold_std=0.2, p=0.7), "tensor")
    add("KDRoll", "t", lambda: T.KDRoll(), "spec")
    add("KDSemsegRandomCrop", "pair", lambda: T.KDSemsegRandomCrop(size=8), "pair")
    add("KDSemsegRandomHorizontalFlip", "pair", lambda: T.KDSemsegRandomHorizontalFlip(p=0.5), "pair")
    add("KDSemsegRandomResize", "pair", lambda: T.KDSemsegRandomResize(base_size=(16, 16), ratio=(0.5, 2.0)), "pair")
    add("KDSemsegRandomResizeOld", "pair", lambda: KDSemsegRandomResizeOld(base_size=(16, 16), ratio=(0.5, 2.0)), "pair")
    add("KDSimpleRandomCrop", "t", lambda: T.KDSimpleRandomCrop(size=8), "tensor")
    add("KDSpecAugment", "s", lambda: T.KDSpecAugment(time_masking=6, frequency_masking=4), "spec")
    add("KDThreeAugment", "p", lambda: T.KDThreeAugment(threshold=128, sigma=(0.1, 2.0)), "pil")
    add("KDThreshold", "t", lambda: T.KDThreshold(threshold=0.5, threshold_std=0.2), "tensor")
    add("KDTwoRandomCrop", "t", lambda: KDTwoRandomCrop(size=8), "tensor")
    add("KDTransformChoice", "t", lambda: KDTransformChoice(transforms=[T.KDRandomCrop(size=8), T.KDRandomResizedCrop(size=8)]), "tensor")
    add("PatchwiseRandomRotation", "pt", lambda: T.PatchwiseRandomRotation(), "patches")
    add("PatchwiseShuffle", "pt", lambda: T.PatchwiseShuffle(), "patches")
    add("PatchwiseTransform", "crop", lambda: T.PatchwiseTransform(patch_size=8, transform=T.KDRandomCrop(size=8, padding=2)), "tensor")
    add("PatchwiseTransform", "compose", lambda: T.PatchwiseTransform(
        patch_size=8, transform=[T.KDRandomHorizontalFlip(p=0.5), T.KDRandomCrop(size=8, padding=1)]), "tensor")
    add("KDComposeTransform", "flat", lambda: T.KDComposeTransform([T.KDRandomResizedCrop(size=8), T.KDRandomHorizontalFlip(),
                                                                    T.KDColorJitter(0.4, 0.4, 0.2, 0.1)]), "tensor")
    add("KDComposeTransform", "nested", lambda: T.KDComposeTransform([
        T.KDRandomCrop(size=12, padding=2),
        T.KDComposeTransform([T.KDRandomApply(transform=T.KDComposeTransform([T.KDRandomCrop(size=8)]), p=0.5),
                              T.KDRandomGrayscale(p=0.3)]),
        T.KDRandomThreshold(threshold=0.3, threshold_std=0.1, p=0.5)]), "tensor")
    add("KDScheduledTransform", "jit", lambda: T.KDScheduledTransform(transform=T.KDColorJitter(0.4, 0.4, 0.2, 0.1)), "tensor")
    add("KDScheduledTransform", "comp", lambda: T.KDScheduledTransform(
        transform=[T.KDRandomCrop(size=8, padding=2), T.KDRandomGaussianBlurTV(kernel_size=3, sigma=(0.1, 2.0), p=0.5)]), "tensor")
    add("KDScheduledTransform", "gray", lambda: T.KDScheduledTransform(
        transform=[T.KDRandomGrayscale(p=0.6), T.KDRandomSolarize(threshold=0.5, p=0.5), T.KDRandomCrop(size=8, padding=2)]), "tensor")
    # ready-made pipelines
    add("BYOLTransform", "p", lambda: CT.BYOLTransform(size=16, norm=None), "pil")
    add("BYOLTransform0", "p", lambda: CT.BYOLTransform0(size=16), "pil")
    add("BYOLTransform1", "p", lambda: CT.BYOLTransform1(size=16), "pil")
    add("ImagenetMinaugTransform", "p", lambda: CT.ImagenetMinaugTransform(size=16), "pil")
    add("MAEFinetuneTransform", "p", lambda: CT.MAEFinetuneTransform(), "pil")
    add("MUGSStrongGlobalTransform", "p", lambda: MT.MUGSStrongGlobalTransform(size=16), "pil")
    add("MUGSStrongLocalTransform", "p", lambda: MT.MUGSStrongLocalTransform(size=8), "pil")
    add("MUGSStrongTransform", "p", lambda: MT.MUGSStrongTransform(size=16), "pil")
    return R


def random_composition(rng, depth=3):
    """random nesting of the composite constructors over tensor->tensor stochastic leaves (same-size outputs)"""
    import kappadata.transforms as T
    from kappadata.transforms.kd_transform_choice import KDTransformChoice
    leaves = [
        ("flip", lambda: T.KDRandomHorizontalFlip(p=0.5)),
        ("noise", lambda: T.KDAdditiveGaussianNoise(std=0.1)),
        ("rnd-noise", lambda: T.KDRandomAdditiveGaussianNoise(std=0.1, p=0.6)),
        ("rnd-noise-p1", lambda: T.KDRandomAdditiveGaussianNoise(std=0.1, p=1.0)),     # boundary probabilities: always / never applied
        ("rnd-jitter-p1", lambda: T.KDRandomColorJitter(p=1.0, brightness=0.4, contrast=0.4, saturation=0.2, hue=0.1)),
        ("rnd-noise-p0", lambda: T.KDRandomAdditiveGaussianNoise(std=0.1, p=0.0)),
        ("threshold", lambda: T.KDRandomThreshold(threshold=0.4, threshold_std=0.2, p=0.6)),
        ("jitter", lambda: T.KDColorJitter(0.4, 0.4, 0.2, 0.1)),
        ("rnd-jitter", lambda: T.KDRandomColorJitter(p=0.7, brightness=0.4, contrast=0.4, saturation=0.2, hue=0.1)),
        ("crop16", lambda: T.KDRandomCrop(size=16, padding=2)),
        ("blur", lambda: T.KDRandomGaussianBlurTV(kernel_size=3, sigma=(0.1, 2.0), p=0.6)),
        ("erase", lambda: T.KDRandomErasing(p=0.8, mode="pixelwise", max_count=3)),
        ("grayscale", lambda: T.KDRandomGrayscale(p=0.5)),
        ("solarize", lambda: T.KDRandomSolarize(threshold=0.5, p=0.5)),
    ]

    def go(d):
        if d == 0 or rng.random() < 0.3:
            name, th = rng.choice(leaves)
            return name, th()
        kind = rng.choice(["compose", "apply", "patchwise", "scheduled", "choice"])
        if kind == "compose":
            kids = [go(d - 1) for _ in range(rng.randint(1, 3))]
            return "compose[" + ",".join(k[0] for k in kids) + "]", T.KDComposeTransform([k[1] for k in kids])
        if kind == "apply":
            n, t = go(d - 1)
            pa = rng.choice([0.7, 0.7, 1.0])
            return f"apply{pa}({n})", T.KDRandomApply(transform=t, p=pa)
        if kind == "patchwise":
            n, t = go(d - 1)
            return f"patchwise({n})", T.PatchwiseTransform(patch_size=16, transform=t)
        if kind == "scheduled":
            n, t = go(d - 1)
            return f"scheduled({n})", T.KDScheduledTransform(transform=t)
        kids = [go(d - 1) for _ in range(2)]
        return "choice[" + ",".join(k[0] for k in kids) + "]", KDTransformChoice(transforms=[k[1] for k in kids])

    return go(depth)


def composition_oracle(rng_seed, depth, seed, hist="plain", kind="tensor"):
    """behavioural oracle on one random composition (rebuilt identically from rng_seed for both instances)"""
    name = random_composition(pyrandom.Random(rng_seed), depth)[0]
    return behav_oracle(f"composition:{name}", f"rs={rng_seed},d={depth}", lambda: random_composition(pyrandom.Random(rng_seed), depth)[1],
                        kind, seed, ncalls=4 if hist == "plain" else 6, hist=hist)


def collator_recipes():
    import kappadata.collators as C
    R = {}
    R["KDMixCollator"] = lambda: C.KDMixCollator(mixup_alpha=0.8, cutmix_alpha=1.0, mixup_p=0.5, cutmix_p=0.5, dataset_mode="x class", return_ctx=False)
    R["KDDinoMaskCollator"] = lambda: C.KDDinoMaskCollator(mask_ratio=(0.1, 0.5), mask_prob=0.5, mask_size=8, dataset_mode="x", return_ctx=True)
    R["KDIjepaMaskCollator"] = lambda: C.KDIjepaMaskCollator(input_size=(32, 32), patch_size=4, dataset_mode="x", return_ctx=True)
    R["KDComposeCollator"] = lambda: C.KDComposeCollator(
        collators=[C.KDMixCollator(mixup_alpha=0.8, mixup_p=1.0), C.KDMixCollator(cutmix_alpha=1.0, cutmix_p=1.0)],
        dataset_mode="x class", return_ctx=False)
    return R


# ----------------------------------------------------------------------------------------------
# object graph
# ----------------------------------------------------------------------------------------------
def kd_bases():
    from kappadata.transforms.base.kd_transform import KDTransform
    from kappadata.collators.base.kd_collator_base import KDCollatorBase
    return (KDTransform, KDCollatorBase)


def children(obj):
    """[(slot, child)] for every KD transform/collator (or foreign callable placed in a list with KD objects) held by obj"""
    bases = kd_bases()
    out = []
    for attr, v in vars(obj).items():
        if isinstance(v, bases):
            out.append((attr, v))
        elif isinstance(v, (list, tuple)) and any(isinstance(e, bases) for e in v):
            for e in v:
                out.append((attr, e))
        elif isinstance(v, dict) and any(isinstance(e, bases) for e in v.values()):
            for e in v.values():
                out.append((attr, e))
    return out


def hidden_generators(obj):
    """np Generators reachable through plain helper objects (not KD children, not the own cell)"""
    bases = kd_bases()
    found = []
    for attr, v in vars(obj).items():
        if attr == "rng":
            continue
        if isinstance(v, np.random.Generator):
            found.append(attr)
        elif hasattr(v, "__dict__") and not isinstance(v, bases) and not isinstance(v, torch.nn.Module):
            for a2, v2 in vars(v).items():
                if isinstance(v2, np.random.Generator):
                    found.append(f"{attr}.{a2}")
    return found


def to_tree(obj, cellmap):
    bases = kd_bases()
    if not isinstance(obj, bases):
        return None
    rng = vars(obj).get("rng")
    cell = 0
    if isinstance(rng, np.random.Generator):
        cell = cellmap.setdefault(id(rng), len(cellmap) + 1)
    return {"cls": type(obj).__name__, "cell": cell, "kids": [[s, to_tree(c, cellmap)] for s, c in children(obj)]}


def cells_after(obj, sentinel, cellmap):
    """same tree shape, cells: 0 (= g) where obj.rng is the sentinel, old id otherwise"""
    bases = kd_bases()
    if not isinstance(obj, bases):
        return None
    rng = vars(obj).get("rng")
    cell = 0
    if isinstance(rng, np.random.Generator):
        cell = 0 if rng is sentinel else cellmap.get(id(rng), -1)
    return {"cls": type(obj).__name__, "cell": cell, "kids": [[s, cells_after(c, sentinel, cellmap)] for s, c in children(obj)]}


def tree_has_cell(obj):
    bases = kd_bases()
    if not isinstance(obj, bases):
        return False
    if isinstance(vars(obj).get("rng"), np.random.Generator):
        return True
    return any(tree_has_cell(c) for _, c in children(obj))


# ----------------------------------------------------------------------------------------------
# behavioural oracle
# ----------------------------------------------------------------------------------------------
def canon(x):
    from PIL import Image
    if torch.is_tensor(x):
        return ("T", tuple(x.shape), x.detach().cpu().numpy().tobytes())
    if isinstance(x, np.ndarray):
        return ("N", x.shape, x.tobytes())
    if isinstance(x, Image.Image):
        return ("P", x.size, x.mode, x.tobytes())
    if isinstance(x, (list, tuple)):
        return tuple(canon(e) for e in x)
    if isinstance(x, dict):
        return tuple(sorted((str(k), canon(v)) for k, v in x.items()))
    if isinstance(x, (np.floating, np.integer)):
        return x.item()
    return x


def global_state():
    st = np.random.get_state()
    return (st[0], st[1].tobytes(), st[2], st[3], st[4]), torch.get_rng_state().numpy().tobytes(), pyrandom.getstate()


def scramble(k):
    np.random.seed(9000 + k)
    torch.manual_seed(9100 + k)
    pyrandom.seed(9200 + k)


def run_seq(t, kind, seed, n, scr, strengths=None, reseed_each=False, exc_outcome=False):
    """inject seed, run n calls under scrambled global state; returns (outputs, global_consumed?)
    strengths: public strength factor set before call k (same list for every instance compared); reseed_each: per-sample seeding
    (seed + k injected before call k); exc_outcome: an exception of a call is that call's outcome (compared), not an error"""
    t.set_rng(np.random.default_rng(seed))
    outs = []
    consumed = False
    for k in range(n):
        scramble(scr * 100 + k)
        x = INPUTS[kind](k)
        before = global_state()
        try:
            if reseed_each and k > 0:
                t.set_rng(np.random.default_rng(seed + k))
            if strengths is not None:
                t.scale_strength(strengths[k % len(strengths)])
            ctx = {}
            y = t(x, ctx=ctx)
            out = (canon(y), canon(ctx))
        except Exception as e:
            if not exc_outcome:
                raise
            out = ("EXC", type(e).__name__)
        after = global_state()
        if before != after:
            consumed = True
        outs.append(out)
    return outs, consumed


UNUSABLE = {}
SKIPPED = {}


def _clone(obj):
    """a copy of a used object as a data-loader worker / checkpoint would get it (pickle; deepcopy when not picklable); None if neither"""
    import pickle
    try:
        return pickle.loads(pickle.dumps(obj))
    except Exception:
        try:
            return copy.deepcopy(obj)
        except Exception:
            return None


def behav_oracle(name, label, thunk, kind, seed, ncalls=4, hist="plain"):
    """returns Failure or None"""
    key_in = {"class": name, "recipe": label, "input": kind, "seed": seed}
    if hist != "plain":
        key_in["hist"] = hist
    base = hist == "plain" and kind in BASE_KINDS
    lenient = not base                 # new sizes / dtypes / configurations: an exception is an outcome to be compared
    strengths = POST_STRENGTH if hist == "strength" else None
    reseed_each = hist == "worker" and seed % 2 == 0
    try:
        scramble(1)
        a = thunk()
        scramble(2)
        b = thunk()
        if hist == "worker":
            # what a data-loader worker does at start-up (re-seeds from the global state, scheduled transforms get their progress info)
            scramble(6)
            a.worker_init_fn(0, batch_size=2, updates=4)
            scramble(7)
            b.worker_init_fn(0, batch_size=2, updates=4)
        if hist == "strength":
            a.scale_strength(0.)
            b.scale_strength(0.)
        # some call history on `a` before the seed is injected (also tells a broken recipe from a seed problem)
        for k in range(2):
            if hist == "worker":
                # stateful (scheduled) members count calls: equal number of earlier calls on both, but different earlier seeds
                a.set_rng(np.random.default_rng(5000 + 1000 * k + seed))
                b(INPUTS[kind](50 + k), ctx={})
            a(INPUTS[kind](50 + k), ctx={})
    except Exception as e:
        (UNUSABLE if base else SKIPPED)[(name, label) if base else (name, label, kind, hist)] = f"{type(e).__name__}: {e}"
        return None
    try:
        oa, ca = run_seq(a, kind, seed, ncalls, 3, strengths, reseed_each, lenient)
        ob, cb = run_seq(b, kind, seed, ncalls, 4, strengths, reseed_each, lenient)
        oa2 = oc = None
        if hist != "worker":
            if hist == "strength":
                a.scale_strength(0.)
            oa2, _ = run_seq(a, kind, seed, ncalls, 5, strengths, reseed_each, lenient)
        if base:
            c = _clone(a)
            if c is not None:
                oc, _ = run_seq(c, kind, seed, ncalls, 8, strengths, reseed_each, lenient)
    except Exception as e:
        return Failure(f"seed:{name}:exception", f"{name}[{label}] raises {type(e).__name__}: {e} when a seed is injected / used", key_in,
                       "no exception", f"{type(e).__name__}: {e}")
    hs = "" if hist == "plain" else f" (history {hist}, input {kind})"
    if oa != ob:
        i = next(i for i in range(len(oa)) if oa[i] != ob[i])
        return Failure(f"seed:{name}:instances-differ", f"{name}[{label}]: two instances with equal injected seed {seed} differ at call {i}{hs} "
                       "(some member still draws from its construction-time / global generator)", key_in, "equal outputs and ctx", f"call {i} differs")
    if oa2 is not None and oa != oa2:
        return Failure(f"seed:{name}:no-replay", f"{name}[{label}]: re-injecting seed {seed} does not replay the sequence{hs}", key_in,
                       "same sequence", "differs")
    if oc is not None and oa != oc:
        return Failure(f"seed:{name}:copy-differs", f"{name}[{label}]: a pickled / deep copy of the used instance given seed {seed} "
                       "does not produce the sequence of the original", key_in, "same sequence", "differs")
    if ca or cb:
        return Failure(f"seed:{name}:global-consumed", f"{name}[{label}]: the process-global NumPy/Torch/Python RNG state is consumed by a call{hs}",
                       key_in, "global state untouched", "global state changed")
    return None


# ----------------------------------------------------------------------------------------------
class RngFlowCheck(PropertyCheck):
    extra_build = ["KDVerif.Driver.RngFlow"]
    driver_main = "mains/RngFlow.lean"
    technique = "Lean 4 proof over a class table regenerated from source (translator) + dynamic object-graph probe"

    def generate(self):
        rows, errors, changed = tr.generate()
        self.rows = rows
        self.gen_errors = errors
        self.problems = tr.row_problems(rows)
        return {"table_rows": len(rows), "changed": changed, "translator_notes": [f"{a}: {b}" for a, b in errors],
                "rows_failing_obligation": self.problems}


class C07(RngFlowCheck):
    pid = "C07"
    claimed = True
    props_modules = ["KDVerif.Props.C07"]
    design_ref = "DESIGN.md 3 (C07/C08/C09)"
    anchored = ["kappadata/transforms/base/kd_stochastic_transform.py", "kappadata/transforms/base/kd_compose_transform.py",
                "kappadata/transforms/base/kd_random_apply_base.py", "kappadata/transforms/base/kd_scheduled_transform.py",
                "kappadata/transforms/kd_random_apply.py", "kappadata/transforms/patchwise_transform.py", "kappadata/utils/random.py",
                "kappadata/utils/magnitude_sampler.py"]
    assumptions = [
        "np.random.default_rng(seed) is a function of the seed; streams of different generators are unrelated",
        "per-class purity: a transform's output/ctx is a function of its input, its parameters and the draws of the cells it reaches "
        "(checked dynamically by the behavioural oracle, not proved)",
        "torchvision / PIL ops are deterministic and do not touch RNG state",
    ]
    trusted_extra = [
        "translator harness/kdv/translate_rngflow.py (Python AST + real MRO -> Lean table), cross-checked each run by the object-graph probe",
        "modelled: set_rng propagation and generator-cell ownership of every transform/collator class; not modelled: pixel operations",
    ]
    level_text = ("Lean theorem setRng_reaches_every_drawing_cell: for every instance tree (any composition, any depth) built from the class table "
                  "regenerated from /repo each run, after set_rng(g) every reachable generator cell is g; obligation table_ok re-proved by decide on the "
                  "regenerated table (no set_rng raises / skips a slot / global RNG use). Dynamic probe validates the translator; behavioural oracle "
                  "(equal seeds => equal outputs, global state untouched) on every stochastic class and pipeline.")
    level_note = ("purity of individual transforms and independence of numpy streams are assumptions; classes without a constructor recipe are covered by "
                  "the theorem (table row) but not by the behavioural oracle — listed in evidence")

    def correspond(self):
        res = CorrResult()
        res.rule = ("one case per (class recipe, seed): structural probe (real object graph vs generated table, real set_rng vs model setRng) and "
                    "behavioural oracle (two instances, equal seeds, scrambled global state, replay); distinct = (class, recipe, input kind, tree shape)")
        R = recipes()
        CR = collator_recipes()
        table_names = {r["name"] for r in self.rows}
        rows_by = {r["name"]: r for r in self.rows}
        seeds = [self.seed * 7 + 1, self.seed * 7 + 2] if self.tier == "quick" else [self.seed * 7 + k for k in range(1, 7)]
        reqs, metas = [], []
        uncovered = []
        for name in sorted(table_names):
            r = rows_by[name]
            if r["kind"] == "transform" and (r["hasCell"] or r["slots"]) and name not in R:
                uncovered.append(name)
        # 1. structural probe
        objs = []
        for name, lst in sorted(R.items()):
            for label, thunk, kind in lst:
                scramble(11)
                try:
                    objs.append((name, label, thunk(), kind))
                except Exception as e:
                    UNUSABLE[(name, label)] = f"ctor {type(e).__name__}: {e}"
        for name, thunk in sorted(CR.items()):
            scramble(12)
            try:
                objs.append((name, "collator", thunk(), None))
            except Exception as e:
                res.observations.append(f"collator recipe {name} not constructible: {e}")
        for name, label, obj, kind in objs:
            cellmap = {}
            tree = to_tree(obj, cellmap)
            reqs.append({"op": "rf.setrng", "tree": tree, "g": 0})
            metas.append((name, label, obj, kind, cellmap, tree))
        answers = self.driver.run(reqs)
        for (name, label, obj, kind, cellmap, tree), ans in zip(metas, answers):
            res.cases += 1
            res.bump("structural")
            res.nontrivial.add((name, label, kind, json.dumps(tree, sort_keys=True)[:200]))
            case = {"class": name, "recipe": label, "probe": "structural"}
            if "error" in ans:
                res.disagreements.append(Disagreement(case, ans, None, "driver error"))
                continue
            if not ans["conforms"]:
                res.disagreements.append(Disagreement(case, "tree does not conform to the generated table", tree,
                                                      "translator missed a child slot / class"))
            hid = [(type(o).__name__, h) for o in walk(obj) for h in hidden_generators(o)]
            if hid:
                res.disagreements.append(Disagreement(case, "no such cell in the model", hid, "generator held outside self.rng"))
            sentinel = np.random.default_rng(12345)
            try:
                obj.set_rng(sentinel)
                real_after = cells_after(obj, sentinel, cellmap)
            except Exception as e:
                real_after = f"exception {type(e).__name__}: {e}"
            if real_after != ans["after"]:
                res.disagreements.append(Disagreement(case, ans["after"], real_after, "set_rng effect differs from model"))
            if len(res.samples) < 3 and tree and tree["kids"]:
                res.samples.append({"class": name, "recipe": label, "tree": tree, "model_after_set_rng": ans["after"]})
        # 2. behavioural oracle
        t0 = time.time()
        for name, lst in sorted(R.items()):
            for label, thunk, kind in lst:
                for sd in seeds:
                    res.cases += 1
                    res.bump("behavioural")
                    res.bump(f"input={kind}")
                    f = behav_oracle(name, label, thunk, kind, sd)
                    if f is not None and not any(g.key == f.key for g in res.failures):
                        res.failures.append(f)
        # histories with public configuration changes around the injection, and other input sizes / types (one seed each)
        seen_big = set()
        for name, lst in sorted(R.items()):
            for label, thunk, kind in lst:
                todo = [(kind, "strength", seeds[0], 6), (kind, "worker", seeds[1], 4)]
                for vk in VARIANTS.get(kind, []):
                    # the large inputs are slow: once per class in the quick tier (first recipe of that input kind), every recipe otherwise
                    if vk.endswith("-big") and self.tier == "quick":
                        if (name, vk) in seen_big:
                            continue
                        seen_big.add((name, vk))
                    todo.append((vk, "plain", seeds[0], 2))
                for vk, hist, sd, nc in todo:
                    res.cases += 1
                    res.bump(f"behavioural-{hist}")
                    res.bump(f"input={vk}")
                    f = behav_oracle(name, label, thunk, vk, sd, ncalls=nc, hist=hist)
                    if f is not None and not any(g.key == f.key for g in res.failures):
                        res.failures.append(f)
        # random nestings of the composites (compose / random-apply / patchwise / scheduled / choice) over stochastic leaves
        ncomp = 36 if self.tier == "quick" else 400
        for k in range(ncomp):
            rs = self.rng.randrange(10 ** 9)
            hist = HISTS[(k // 4) % 3]
            ckind = "tensor-big" if k % 6 == 5 else "tensor"
            res.cases += 1
            res.bump("behavioural-composition")
            res.bump(f"composition-{hist}")
            res.bump(f"composition-input={ckind}")
            f = composition_oracle(rs, 1 + k % 4, seeds[0], hist, ckind)
            if f is not None:
                f.input = {"composition_rng_seed": rs, "depth": 1 + k % 4, "seed": seeds[0], "hist": hist, "input": ckind, "what": f.input}
                if not any(g.key == f.key for g in res.failures):
                    res.failures.append(f)
        res.histogram["behavioural_s"] = round(time.time() - t0, 1)
        res.histogram["classes_with_recipe"] = len(R)
        res.observations.append({"table_classes_with_cells_or_slots_but_no_recipe": uncovered})
        res.observations.append({"recipes_unusable_in_this_environment (not judged)": {f"{k[0]}[{k[1]}]": v for k, v in UNUSABLE.items()}})
        res.histogram["recipes_unusable"] = len(UNUSABLE)
        res.observations.append({"(recipe, input variant, history) combinations the code does not support (not judged)":
                                 {"/".join(k): v[:120] for k, v in sorted(SKIPPED.items())}})
        res.histogram["variant_cases_skipped"] = len(SKIPPED)
        for a, b in self.gen_errors:
            res.observations.append(f"translator: {a}: {b}")
        return res

    def search(self, budget_s, hints):
        out = []
        R = recipes()
        # the offending rows of the generated table point at the classes to exercise
        names = list(self.problems) + [h.get("class") for h in hints if isinstance(h, dict)]
        t0 = time.time()
        for name in names:
            for label, thunk, kind in R.get(name, []):
                for sd in range(1, 6):
                    if time.time() - t0 > budget_s:
                        return out
                    f = behav_oracle(name, label, thunk, kind, sd, ncalls=6)
                    for hist in ("strength", "worker"):
                        f = f or behav_oracle(name, label, thunk, kind, sd, ncalls=6 if hist == "strength" else 4, hist=hist)
                    if f:
                        out.append(f)
                        break
        if not out:
            rng = pyrandom.Random(self.seed + 17)
            k = 0
            while time.time() - t0 < budget_s * 0.6 and not out:
                rs = rng.randrange(10 ** 9)
                hist = HISTS[(k // 4) % 3]
                f = composition_oracle(rs, 1 + k % 4, 5, hist)
                k += 1
                if f:
                    f.input = {"composition_rng_seed": rs, "depth": 1 + (k - 1) % 4, "seed": 5, "hist": hist, "input": "tensor", "what": f.input}
                    out.append(f)
        if not out:
            for name, lst in sorted(R.items()):
                for label, thunk, kind in lst:
                    if time.time() - t0 > budget_s:
                        return out
                    f = behav_oracle(name, label, thunk, kind, 99, ncalls=6)
                    if f:
                        out.append(f)
        return out

    def replay_input(self, inp):
        if "composition_rng_seed" in inp:
            return composition_oracle(inp["composition_rng_seed"], inp["depth"], inp["seed"], inp.get("hist", "plain"), inp.get("input", "tensor"))
        R = recipes()
        for label, thunk, kind in R.get(inp["class"], []):
            if label == inp.get("recipe"):
                hist = inp.get("hist", "plain")
                vk = inp.get("input", kind)
                if vk != kind and vk not in VARIANTS.get(kind, []):
                    continue
                return behav_oracle(inp["class"], label, thunk, vk, inp.get("seed", 1), ncalls=4 if hist == "worker" else 6, hist=hist)
        return None


def walk(obj):
    bases = kd_bases()
    if not isinstance(obj, bases):
        return
    yield obj
    for _, c in children(obj):
        yield from walk(c)
