"""C17 — KDDinoMaskCollator / KDIjepaMaskCollator: case generator, real-code runner with recorded randomness,
independent property oracle.

Recording (no repo hooks):
  * the collator's numpy generator is replaced by `RecRng` (duck-typed proxy around a real `np.random.Generator`): every
    `uniform` / `integers` / `shuffle` call is logged with its bounds and result;
  * the float front end is observed, not re-implemented: the module-global name `round` is shadowed in the collator's module so the
    rounded block sizes `int(round(sqrt(..)))` are logged as they are derived in the real run; DINO's `_generate_mask` /
    `_mask_block` are wrapped on the instance to log call boundaries (`total`, `remaining`, `delta`);
  * I-JEPA's `torch` name is replaced in its module by a proxy that logs `Generator().manual_seed(seed)` and `rand`.
The tape is fed to the Lean model (`mains/Masks.lean`); masks / index tensors are compared exactly.
"""
import json
import random
import time
from fractions import Fraction
from pathlib import Path

from .common import CorrResult, Disagreement, Failure, PropertyCheck

DRAW_BUDGET = 4000


class _Budget(Exception):
    """more draws than any terminating run of a small case needs: treated as 'does not end'"""


class RecRng:
    def __init__(self, seed, log, budget=DRAW_BUDGET):
        import numpy as np
        self.real = np.random.default_rng(seed)
        self.log = log
        self.budget = budget
        self.n = 0

    def _tick(self):
        self.n += 1
        if self.n > self.budget:
            raise _Budget()

    def uniform(self, lo, hi):
        self._tick()
        v = self.real.uniform(lo, hi)
        self.log.append(["u", float(lo), float(hi), float(v)])
        return v

    def integers(self, lo, hi):
        self._tick()
        v = self.real.integers(lo, hi)
        self.log.append(["i", int(lo), int(hi), int(v)])
        return v

    def shuffle(self, lst):
        self._tick()
        perm = list(range(len(lst)))
        self.real.shuffle(perm)
        self.log.append(["sh", perm])
        lst[:] = [lst[i] for i in perm]

    def random(self):
        self._tick()
        v = self.real.random()
        self.log.append(["rnd", float(v)])
        return v


class _ShadowRound:
    """shadows the builtin `round` inside one module and logs the results"""

    def __init__(self, module, log):
        self.module, self.log = module, log

    def __enter__(self):
        log = self.log

        def rec_round(x, *a):
            r = round(x, *a)
            log.append(["r", int(r)])
            return r

        self.module.round = rec_round
        return self

    def __exit__(self, *a):
        try:
            del self.module.round
        except AttributeError:
            pass


def classify_exc(e):
    if isinstance(e, _Budget):
        return "nonterm"
    if isinstance(e, AssertionError):
        return "assert"
    return f"exc:{type(e).__name__}"


# ----------------------------------------------------------------------------------------------
# input batches
# ----------------------------------------------------------------------------------------------
def make_batch(case):
    """[ModeWrapper(ds, mode, return_ctx=True)[i] ...]; x is a tensor (views=None) or a list of view tensors"""
    import torch
    from kappadata.datasets.kd_dataset import KDDataset
    from kappadata.wrappers.mode_wrapper import ModeWrapper
    views = case.get("xviews")

    class DS(KDDataset):
        def getitem_x(self, idx, ctx=None):
            if ctx is not None:
                ctx["k"] = idx
            if views:
                return [torch.full((1, 2, 2), float(idx * 10 + v)) for v in range(views)]
            return torch.full((1, 2, 2), float(idx))

        def getitem_class(self, idx, ctx=None):
            return idx % 3

        def __len__(self):
            return case["B"]

    mw = ModeWrapper(dataset=DS(), mode=case["mode"], return_ctx=True)
    return [mw[i] for i in range(case["B"])]


def _canon(v):
    import torch
    if torch.is_tensor(v):
        return v.tolist()
    if isinstance(v, (list, tuple)):
        return [_canon(x) for x in v]
    if isinstance(v, dict):
        return {k: _canon(x) for k, x in v.items()}
    return v


def passthrough_ok(case, batch, out_batch, ctx):
    """batch data passes through unchanged: what comes back is the default collation of what went in; ctx keeps its keys"""
    from torch.utils.data import default_collate
    exp_b, exp_c = default_collate(batch)
    return _canon(out_batch) == _canon(exp_b) and _canon(ctx.get("k")) == _canon(exp_c["k"])


# ----------------------------------------------------------------------------------------------
# DINO
# ----------------------------------------------------------------------------------------------
def run_dino(case):
    """returns (answer in the layout of the Lean op dino.collate, model request or None, aux)"""
    from kappadata.collators import kd_dino_mask_collator as mod
    log = []
    coll = mod.KDDinoMaskCollator(mask_ratio=tuple(case["ratio"]), mask_prob=case["prob"], mask_size=(case["H"], case["W"]),
                                  num_views=case["V"], min_num_patches=case["minp"], min_aspect=case["min_aspect"],
                                  max_aspect=case.get("max_aspect"), dataset_mode=case["mode"], return_ctx=True)
    # state carried across calls: the SAME collator object first collates earlier batches of other sizes; the judged batch
    # must not depend on them (budget, shapes and pass-through are per batch)
    for j, b in enumerate(case.get("warm_B", [])):
        coll.rng = RecRng(case["seed"] + 17 + j, [])
        try:
            coll(make_batch(dict(case, B=b)))
        except Exception:  # noqa
            break
    coll.rng = RecRng(case["seed"], log)
    og_gen, og_blk = coll._generate_mask, coll._mask_block

    def gen(mask, total):
        log.append(["gen", int(total)])
        return og_gen(mask, total)

    def blk(mask, rem):
        log.append(["blk", int(rem)])
        d = og_blk(mask, rem)
        log.append(["blk_end", int(d)])
        return d

    coll._generate_mask, coll._mask_block = gen, blk
    batch = make_batch(case)
    aux = {"log": log}
    with _ShadowRound(mod, log):
        try:
            out_batch, ctx = coll(batch)
        except Exception as e:
            aux["exc"] = f"{type(e).__name__}: {e}"[:200]
            return {"out": classify_exc(e)}, _dino_request(case, log), aux
    mask = ctx["mask"]
    aux["dtype"] = str(mask.dtype)
    aux["shape"] = list(mask.shape)
    aux["passthrough"] = passthrough_ok(case, batch, out_batch, ctx)
    aux["ctx_keys"] = sorted(ctx.keys())
    sh = [e[1] for e in log if e[0] == "sh"]
    ans = {"out": "ok", "masks": mask.to(int).tolist(), "gens": _dino_gens(log),
           "shuffles": [len(p) for p in sh]}   # the model shuffles exactly once, all n masks
    return ans, _dino_request(case, log), aux


def _dino_gens(log):
    """per `_generate_mask` call: what the model reports too (blocks, draw bounds, masked count)"""
    gens, cur = [], None
    for e in log:
        if e[0] == "gen":
            cur = {"done": 0, "left": 0, "trace": []}
            gens.append(cur)
            pend = []
        elif cur is None:
            continue
        elif e[0] == "blk":
            rem = e[1]
        elif e[0] == "i":
            pend.append(e[2])
            if len(pend) == 2:
                cur["trace"].append(["req", pend[0], pend[1]])
                pend = []
        elif e[0] == "blk_end":
            cur["trace"].append(["blk", rem, e[1]])
            cur["done"] += e[1]
    return gens


def _dino_request(case, log):
    """the tape for the model: per generated mask the target and the proposals (h, w[, top, left]) in loop order"""
    gens, cur, perm = [], None, None
    i = 0
    n = len(log)
    while i < n:
        e = log[i]
        if e[0] == "gen":
            cur = {"total": e[1], "props": []}
            gens.append(cur)
            i += 1
        elif e[0] == "u" and cur is not None and i + 3 < n and log[i + 1][0] == "u" and log[i + 2][0] == "r" and log[i + 3][0] == "r":
            h, w = log[i + 2][1], log[i + 3][1]
            i += 4
            if i + 1 < n and log[i][0] == "i" and log[i + 1][0] == "i":
                cur["props"].append([h, w, log[i][3], log[i + 1][3]])
                i += 2
            else:
                cur["props"].append([h, w])
        elif e[0] == "sh":
            perm = e[1]
            i += 1
        else:
            i += 1
    n_masks = case["B"] * case["V"]
    return {"op": "dino.collate", "H": case["H"], "W": case["W"], "n": n_masks,
            "numMasked": int(n_masks * case["prob"]), "gens": gens, "perm": perm if perm is not None else list(range(n_masks))}


def dino_in_domain(case):
    lo, hi = case["ratio"]
    return (case["H"] >= 1 and case["W"] >= 1 and case["B"] >= 1 and case["V"] >= 1 and 0 <= lo <= hi <= 1
            and 0 <= case["prob"] <= 1 and case["minp"] >= 1 and 0 < case["min_aspect"] and
            (case.get("max_aspect") or 1 / case["min_aspect"]) >= case["min_aspect"])


def dino_oracle(case, ans, aux):
    """the DINO part of the property statement, checked on the real output only"""
    if not dino_in_domain(case):
        return None
    tag = (f"grid={case['H']}x{case['W']} B={case['B']} views={case['V']} ratio={case['ratio']} prob={case['prob']} "
           f"min_patches={case['minp']} seed={case['seed']}")
    if ans["out"] != "ok":
        return Failure("dino:crash", f"collator does not return ({aux.get('exc', ans['out'])}) for {tag}", case, "masks", ans["out"])
    n = case["B"] * case["V"]
    H, W = case["H"], case["W"]
    if aux["shape"] != [n, H, W] or aux["dtype"] != "torch.bool":
        return Failure("dino:shape", f"mask tensor is {aux['dtype']}{aux['shape']}, expected bool[{n},{H},{W}] for {tag}", case, [n, H, W], aux["shape"])
    budget = int(Fraction(str(case["prob"])) * n)        # floor(batch * views * mask_prob)
    upper = int(Fraction(str(case["ratio"][1])) * H * W)  # floor(ratio_max * H * W)
    counts = [sum(sum(r) for r in m) for m in ans["masks"]]
    nonempty = sum(1 for c in counts if c > 0)
    if nonempty > budget:
        return Failure("dino:num-masked", f"{nonempty} non-empty masks, at most floor(B*V*p) = {budget} allowed for {tag}", case, budget, nonempty)
    if max(counts, default=0) > upper:
        return Failure("dino:ratio", f"a mask has {max(counts)} masked patches, upper ratio allows {upper} for {tag}", case, upper, max(counts))
    if not aux["passthrough"]:
        return Failure("dino:passthrough", f"batch / context data changed by the collator for {tag}", case)
    return None


def gen_dino(rng, small=False):
    H = rng.randint(1, 6 if small else 14)
    W = rng.randint(1, 6 if small else 14) if rng.random() < 0.6 else H
    lo = rng.choice([0.0, 0.1, 0.2, 0.3, 0.5])
    hi = rng.choice([r for r in [0.1, 0.2, 0.3, 0.5, 0.75, 1.0] if r >= lo])
    mode, views = rng.choice([("x", None), ("index x", None), ("x class", None), ("x", 2), ("class x", 2)])
    ma = rng.choice([0.3, 0.3, 0.5, 1.0, 0.1])
    return {"kind": "dino", "H": H, "W": W, "B": rng.randint(1, 6), "V": rng.randint(1, 3), "ratio": [lo, hi],
            "prob": rng.choice([0, 0.25, 0.3, 0.5, 0.5, 0.75, 1, 1]), "minp": rng.choice([1, 2, 4, 4, 9]),
            "min_aspect": ma, "max_aspect": rng.choice([None, None, 1 / ma + 1.0, 1.0 if ma <= 1 else None]),
            "seed": rng.randrange(1 << 30), "mode": mode, "xviews": views,
            "warm_B": rng.choice([[], [], [8], [1], [6, 2], [3, 8]])}


# ----------------------------------------------------------------------------------------------
# I-JEPA
# ----------------------------------------------------------------------------------------------
class _TorchProxy:
    """stands for the name `torch` in kd_ijepa_mask_collator: logs the seeded generator and its draws"""

    def __init__(self, log):
        import torch
        self._t, self._log = torch, log

    def __getattr__(self, name):
        return getattr(self._t, name)

    def Generator(self, *a, **k):
        g = self._t.Generator(*a, **k)
        log = self._log

        class G:
            def manual_seed(self_, seed):
                log.append(["seed", int(seed)])
                g.manual_seed(seed)
                return g

        return G()

    def rand(self, *a, **k):
        v = self._t.rand(*a, **k)
        self._log.append(["rand", float(v.flatten()[0]), k.get("generator") is not None])
        return v


def make_ijepa(case, log, seed):
    from kappadata.collators import kd_ijepa_mask_collator as mod
    ps = case["ps"]
    coll = mod.KDIjepaMaskCollator(input_size=(case["H"] * ps, case["W"] * ps), patch_size=ps,
                                   encoder_mask_scale=tuple(case["enc_scale"]), predictor_mask_scale=tuple(case["pred_scale"]),
                                   predictor_aspect_ratio=tuple(case["pred_ar"]), num_enc_masks=case["nEnc"], num_pred_masks=case["nPred"],
                                   min_keep=case["minKeep"], tries=case["tries"], dataset_mode=case["mode"], return_ctx=True)
    for j, b in enumerate(case.get("warm_B", [])):
        # earlier batches on the same object (the step counter is set afterwards: it is the only state the property allows)
        coll.rng = RecRng(seed + 17 + j, [], budget=case.get("budget", DRAW_BUDGET))
        try:
            coll(make_batch(dict(case, B=b)))
        except Exception:  # noqa
            break
    coll.rng = RecRng(seed, log, budget=case.get("budget", DRAW_BUDGET))
    coll._itr_counter.value = case["counter"]
    return mod, coll


def run_ijepa(case, seed=None, B=None):
    from kappadata.collators import kd_ijepa_mask_collator as mod0
    log = []
    mod, coll = make_ijepa(case, log, case["seed"] if seed is None else seed)
    c2 = dict(case, B=B) if B else case
    batch = make_batch(c2)
    aux = {"log": log}
    proxy = _TorchProxy(log)
    og_torch = mod.torch
    mod.torch = proxy
    try:
        with _ShadowRound(mod, log):
            try:
                out_batch, ctx = coll(batch)
            except Exception as e:
                aux["exc"] = f"{type(e).__name__}: {e}"[:200]
                out = classify_exc(e)
                if out == "exc:TypeError" and "0-d" in str(e):
                    out = "len0d"
                return {"out": out}, _ijepa_request(c2, log), aux
    finally:
        mod.torch = og_torch
    pm, em = ctx["predictor_masks"], ctx["encoder_masks"]
    aux["pred_shape"], aux["enc_shape"] = list(pm.shape), list(em.shape)
    aux["passthrough"] = passthrough_ok(c2, batch, out_batch, ctx)
    aux["counter_after"] = coll._itr_counter.value
    ints = [e for e in log if e[0] == "i"]
    seeds = [e[1] for e in log if e[0] == "seed"]
    rounded = [e[1] for e in log if e[0] == "r"]
    H, W = case["H"], case["W"]
    npd = 2 * case["nPred"]
    # block sizes as the real run used them: read off the bounds of the integer draws
    pred_size = [H - ints[0][2], W - ints[1][2]] if len(ints) >= 2 else None
    enc_size = [H - ints[npd][2], W - ints[npd + 1][2]] if len(ints) >= npd + 2 else None
    aux["rounded"] = rounded
    ans = {"out": "ok", "seed": seeds[0] if seeds else None, "pred_size": pred_size, "enc_size": enc_size,
           "pred": pm.reshape(pm.shape[0], -1).tolist() if pm.ndim >= 1 else pm.tolist(),
           "enc": em.reshape(em.shape[0], -1).tolist() if em.ndim >= 1 else em.tolist(),
           "left": 0, "reqs": [e[2] for e in ints], "enc_tries": _enc_tries(c2, ints)}
    aux["lo_ok"] = all(e[1] == 0 for e in ints)
    aux["gen_rand"] = [e for e in log if e[0] == "rand"]
    return ans, _ijepa_request(c2, log), aux


def _enc_tries(case, ints):
    """failed tries per encoder mask cannot be read off the log without the model's control flow; the total is implied by
    the number of draws, so only the grand total is compared (filled by `view`)"""
    return None


def _ijepa_request(case, log):
    rounded = [e[1] for e in log if e[0] == "r"]
    if len(rounded) < 4:
        return None
    return {"op": "ijepa.collate", "H": case["H"], "W": case["W"], "nPred": case["nPred"], "nEnc": case["nEnc"],
            "minKeep": case["minKeep"], "tries": case["tries"], "rounded": [max(r, 0) for r in rounded[:4]],
            "counter": case["counter"], "B": case["B"], "tape": [e[3] for e in log if e[0] == "i"]}


def ijepa_in_domain(case, ans):
    """configured blocks fit the grid and are real blocks (at least one patch)"""
    if not (case["H"] >= 2 and case["W"] >= 2 and case["nPred"] >= 1 and case["nEnc"] >= 1 and case["tries"] >= 1 and case["B"] >= 1):
        return False
    if ans.get("out") == "ok":
        ps, es = ans["pred_size"], ans["enc_size"]
        return ps is not None and es is not None and ps[0] * ps[1] >= 1 and es[0] * es[1] >= 1
    return False


def _rect_of(row, W):
    rs = sorted({k // W for k in row})
    cs = sorted({k % W for k in row})
    if not rs:
        return None
    full = [r * W + c for r in rs for c in cs]
    contiguous = rs == list(range(rs[0], rs[0] + len(rs))) and cs == list(range(cs[0], cs[0] + len(cs)))
    return (len(rs), len(cs)) if contiguous and full == list(row) else None


def ijepa_oracle(case, ans, aux):
    """the I-JEPA part of the property statement, checked on the real output only"""
    H, W, B = case["H"], case["W"], case["B"]
    tag = (f"grid={H}x{W} B={B} nPred={case['nPred']} nEnc={case['nEnc']} min_keep={case['minKeep']} tries={case['tries']} "
           f"enc_scale={case['enc_scale']} pred_scale={case['pred_scale']} ar={case['pred_ar']} counter={case['counter']} seed={case['seed']}")
    if ans["out"] == "nonterm":
        return None   # outside the claim (observation)
    if ans["out"] == "len0d":
        if case["H"] >= 2 and case["W"] >= 2 and case["nPred"] >= 1 and case["nEnc"] >= 1 and case["tries"] >= 1:
            return Failure("ijepa:single-index-mask", f"a mask with exactly one index is squeezed to a 0-d tensor and len() raises "
                           f"({aux.get('exc', '')}) for {tag}", case, "index tensors", ans["out"])
        return None
    if ans["out"] != "ok":
        if case["H"] >= 2 and case["W"] >= 2 and case["nPred"] >= 1 and case["nEnc"] >= 1 and case["tries"] >= 1:
            return Failure("ijepa:crash", f"collator does not return ({aux.get('exc', ans['out'])}) for {tag}", case, "masks", ans["out"])
        return None
    if not ijepa_in_domain(case, ans):
        return None
    if ans["seed"] != case["counter"] + 1 or aux["counter_after"] != case["counter"] + 1:
        return Failure("ijepa:step", f"block sizes seeded with {ans['seed']}, step counter was {case['counter']} for {tag}", case, case["counter"] + 1, ans["seed"])
    if not all(g[2] for g in aux["gen_rand"]):
        return Failure("ijepa:step", f"block size drawn without the step-seeded generator for {tag}", case)
    pred, enc = ans["pred"], ans["enc"]
    if len(pred) != case["nPred"] * B or len(enc) != case["nEnc"] * B:
        return Failure("ijepa:shape", f"{len(pred)} predictor / {len(enc)} encoder rows for {tag}", case,
                       [case["nPred"] * B, case["nEnc"] * B], [len(pred), len(enc)])
    for name, rows in (("predictor", pred), ("encoder", enc)):
        for row in rows:
            if any(not (0 <= k < H * W) for k in row) or any(a >= b for a, b in zip(row, row[1:])):
                return Failure("ijepa:indices", f"{name} indices not in range / sorted / duplicate-free for {tag}", case, None, row)
        if len({len(r) for r in rows}) > 1:
            return Failure("ijepa:common-length", f"{name} masks of different lengths for {tag}", case)
    sizes = {_rect_of(r, W) for r in pred}
    if len(sizes) != 1 or None in sizes:
        return Failure("ijepa:rectangles", f"predictor masks are not rectangles of one common size ({sorted(map(str, sizes))}) for {tag}", case,
                       "one (h, w)", sorted(map(str, sizes)))
    (ph, pw), = sizes
    eh, ew = ans["enc_size"]
    if eh * ew - case["nPred"] * ph * pw > case["minKeep"]:
        for e in range(case["nEnc"]):
            for b in range(B):
                er = set(enc[e * B + b])
                for j in range(case["nPred"]):
                    if er & set(pred[j * B + b]):
                        return Failure("ijepa:disjoint", f"encoder mask {e} of sample {b} intersects its predictor mask {j} for {tag}", case,
                                       [], sorted(er & set(pred[j * B + b])))
    if not aux["passthrough"]:
        return Failure("ijepa:passthrough", f"batch / context data changed by the collator for {tag}", case)
    # block sizes depend only on the step counter: other rng seed, other batch size, same step
    ans2, _, aux2 = run_ijepa(case, seed=case["seed"] + 12345, B=(B % 3) + 1)
    if ans2["out"] == "ok" and (ans2["pred_size"] != ans["pred_size"] or ans2["enc_size"] != ans["enc_size"]):
        return Failure("ijepa:step", f"block sizes differ between two runs at the same step for {tag}", case,
                       [ans["pred_size"], ans["enc_size"]], [ans2["pred_size"], ans2["enc_size"]])
    return None


def gen_ijepa(rng, small=False):
    H = rng.randint(2, 6 if small else 14)
    W = rng.randint(2, 6 if small else 14) if rng.random() < 0.5 else H
    r = rng.random()
    if r < 0.6:      # the usual regime: large encoder block, small predictor blocks
        es = rng.choice([(0.85, 1.0), (0.7, 0.9), (0.5, 1.0)])
        pscale = rng.choice([(0.15, 0.2), (0.05, 0.1), (0.1, 0.3)])
    else:
        es = rng.choice([(0.2, 0.6), (0.3, 0.4), (0.1, 1.0)])
        pscale = rng.choice([(0.2, 0.5), (0.3, 0.3), (0.05, 0.6)])
    par = rng.choice([(0.75, 1.5), (1.0, 1.0), (0.3, 3.0), (0.5, 0.5)])
    # min_keep mostly below the smallest encoder block so that the sampler ends (a few cases keep the non-terminating regime
    # and single-patch blocks: compared, reported as observations, never judged)
    area = int(H * W * es[0])
    if rng.random() < 0.9:
        mk = rng.choice([0, 1, 2, 4, 10])
        mk = min(mk, max(area // 3, 0))
    else:
        mk = rng.choice([0, 4, 10, 40])
    if rng.random() < 0.7 and H * W * pscale[0] < 1.1:
        pscale = (min(max(pscale[0], 1.1 / (H * W)), 1.0), min(max(pscale[1], 1.1 / (H * W)), 1.0))
    return {"kind": "ijepa", "H": H, "W": W, "ps": rng.choice([1, 2, 16]), "B": rng.randint(1, 5), "enc_scale": list(es),
            "pred_scale": list(pscale), "pred_ar": list(par), "nPred": rng.randint(1, 4), "nEnc": rng.randint(1, 2),
            "minKeep": mk, "tries": rng.choice([1, 2, 20]), "counter": rng.randint(-1, 20),
            "seed": rng.randrange(1 << 30), "mode": rng.choice(["x", "index x", "x class"]), "budget": 1200,
            "warm_B": rng.choice([[], [], [], [3], [1, 4]])}


def transparent(case, ans):
    """the recording proxies change nothing: the same seed through a plain numpy generator gives the same tensors"""
    import numpy as np
    if ans["out"] != "ok":
        return True
    if case["kind"] == "dino":
        from kappadata.collators import kd_dino_mask_collator as mod
        coll = mod.KDDinoMaskCollator(mask_ratio=tuple(case["ratio"]), mask_prob=case["prob"], mask_size=(case["H"], case["W"]),
                                      num_views=case["V"], min_num_patches=case["minp"], min_aspect=case["min_aspect"],
                                      max_aspect=case.get("max_aspect"), dataset_mode=case["mode"], return_ctx=True)
        coll.rng = np.random.default_rng(case["seed"])
        _, ctx = coll(make_batch(case))
        return ctx["mask"].to(int).tolist() == ans["masks"]
    _, coll = make_ijepa(case, [], case["seed"])
    coll.rng = np.random.default_rng(case["seed"])
    _, ctx = coll(make_batch(case))
    pm, em = ctx["predictor_masks"], ctx["encoder_masks"]
    return pm.reshape(pm.shape[0], -1).tolist() == ans["pred"] and em.reshape(em.shape[0], -1).tolist() == ans["enc"]


# ----------------------------------------------------------------------------------------------
def run_case(case):
    return run_dino(case) if case["kind"] == "dino" else run_ijepa(case)


def judge(case):
    ans, req, aux = run_case(case)
    f = dino_oracle(case, ans, aux) if case["kind"] == "dino" else ijepa_oracle(case, ans, aux)
    return f, ans, req, aux


def view(case, ans):
    if ans.get("out") != "ok":
        o = ans.get("out", "")
        return {"out": "exc" if o.startswith("exc:") else o}
    a = dict(ans)
    if case["kind"] == "ijepa":
        a.pop("enc_tries", None)
    return a


def signature(case, ans):
    if case["kind"] == "dino":
        counts = sorted(sum(sum(r) for r in m) for m in ans.get("masks", []))
        nblk = sum(1 for g in ans.get("gens", []) for t in g["trace"] if t[0] == "blk")
        return ("dino", case["H"], case["W"], case["B"] * case["V"], ans["out"], min(nblk, 12), tuple(counts[-2:]))
    return ("ijepa", case["H"], case["W"], case["nPred"], case["nEnc"], ans["out"], tuple(ans.get("pred_size") or ()),
            tuple(ans.get("enc_size") or ()), min(len(ans.get("reqs", [])), 40))


class C17(PropertyCheck):
    pid = "C17"
    claimed = True
    props_modules = ["KDVerif.Props.C17"]
    extra_build = ["KDVerif.Driver.Masks"]
    driver_main = "mains/Masks.lean"
    anchored = ["kappadata/collators/kd_dino_mask_collator.py", "kappadata/collators/kd_ijepa_mask_collator.py"]
    assumptions = [
        "numpy Generator.uniform(lo, hi) in [lo, hi), integers(lo, hi) in [lo, hi), shuffle applies a permutation",
        "float front end (sqrt/exp/round/linspace, int(u * num_patches), int(B*V*p)) is executed by the real run and recorded; the theorems "
        "quantify over every front-end output; int(u * num_patches) <= floor(ratio_max * H * W) for u <= ratio_max (monotone rounding)",
        "a 2-d torch tensor is row-major: flatten().nonzero() lists k = i*W + j ascending",
        "I-JEPA: torch.Generator().manual_seed(step) makes torch.rand a function of the step",
    ]
    trusted_extra = [
        "modelled by hand: KDDinoMaskCollator._mask_block/_generate_mask/collate, KDIjepaMaskCollator._sample_block_size (integer part)/"
        "_sample_block_mask/_sample_block_mask_constrained/collate/step",
        "not modelled: float front ends (observed), multiprocessing.Value sharing of the step counter across workers, default_collate of the batch",
    ]
    level_text = ("Lean theorems (KDVerif.Props.C17): DINO - for every proposal tape the masked count never exceeds the target (hence the upper "
                  "ratio), the outer loop terminates, shapes are kept, at most numMasked masks are non-empty, the shuffle is a permutation; I-JEPA - "
                  "index lists are strictly increasing and in range (also after truncation), predictor masks are full rectangles of one common size, "
                  "encoder masks have one common length, under the margin the first proposal is accepted with all constraints active and row e*B+b of "
                  "encoder_masks is disjoint from row j*B+b of predictor_masks (same sample), block sizes are a function of the step. Model tied to the code each run by "
                  "differential correspondence on recorded tapes (masks / index tensors compared exactly).")
    level_note = ("trusted: Lean kernel + standard axioms; correspondence harness; float front ends observed not modelled; the constrained sampler's "
                  "non-termination for blocks of <= min_keep cells is outside the claim (observation)")
    design_ref = "DESIGN.md 3 (C17)"

    def cases(self):
        corpus = []
        cdir = Path(__file__).resolve().parents[2] / "corpus" / "masks"
        if cdir.exists():
            for p in sorted(cdir.glob("*.json")):
                corpus.append(json.loads(p.read_text()))
        nd, nj = (1400, 1100) if self.tier == "quick" else (14000, 10000)
        out = list(corpus)
        for i in range(nd):
            out.append(gen_dino(self.rng, small=(i % 3 == 0)))
        for i in range(nj):
            out.append(gen_ijepa(self.rng, small=(i % 3 == 0)))
        return out, len(corpus)

    def correspond(self):
        res = CorrResult()
        cases, ncorp = self.cases()
        res.rule = (f"{ncorp} corpus + seeded random configurations: DINO grids 1..14, batch 1-6, views 1-3, ratio ranges, mask_prob in "
                    "{0,.25,.3,.5,.75,1}, min patches, aspect ranges, x as tensor or list of views; I-JEPA grids 2..14, nPred 1-4, nEnc 1-2, "
                    "min_keep 0-10, tries {1,2,20}, steps -1..20, scales incl. regimes where the relaxation triggers; "
                    "distinct = (kind, grid, sizes, outcome, blocks / draws class, counts)")
        runs = [run_case(c) for c in cases]
        reqs, idx = [], []
        for i, (ans, req, aux) in enumerate(runs):
            if req is not None:
                idx.append(i)
                reqs.append(req)
        answers = dict(zip(idx, self.driver.run(reqs)))
        for i, (case, (ans, req, aux)) in enumerate(zip(cases, runs)):
            res.cases += 1
            res.nontrivial.add(signature(case, ans))
            res.bump(f"{case['kind']}:out={ans['out'].split(':')[0]}")
            if case["kind"] == "dino" and ans["out"] == "ok":
                for g in ans["gens"]:
                    res.bump("dino:blocks", sum(1 for t in g["trace"] if t[0] == "blk"))
                    res.bump("dino:located-proposals", sum(1 for t in g["trace"] if t[0] == "req"))
                res.bump("dino:rejected-oob", sum(1 for g in (req or {}).get("gens", []) for p in g["props"] if len(p) == 2))
            if case["kind"] == "ijepa" and ans["out"] == "ok":
                extra = len(ans["reqs"]) // 2 - case["B"] * (case["nPred"] + case["nEnc"])
                res.bump("ijepa:relaxed" if extra > 0 else "ijepa:first-try")
                (ph, pw), (eh, ew) = ans["pred_size"], ans["enc_size"]
                res.bump("ijepa:margin-holds" if eh * ew - case["nPred"] * ph * pw > case["minKeep"] else "ijepa:no-margin")
            if ans["out"] == "nonterm":
                res.observations.append({"what": "constrained encoder sampler does not end (block of <= min_keep admissible cells)", "case": case})
            if i % 7 == 0:
                res.bump("proxy-transparency-checked")
                if not transparent(case, ans):
                    res.disagreements.append(Disagreement(case, "recorded run", "plain run", note="recording proxy is not transparent"))
            model = answers.get(i)
            if model is None and ans["out"] == "ok":
                res.disagreements.append(Disagreement(case, "no tape could be read off the log", view(case, ans)))
            if model is not None and view(case, ans) != view(case, model):
                if len(res.disagreements) < 50:
                    res.disagreements.append(Disagreement(case, view(case, model), view(case, ans), note=aux.get("exc", "")))
            f = dino_oracle(case, ans, aux) if case["kind"] == "dino" else ijepa_oracle(case, ans, aux)
            if f is not None and len(res.failures) < 50:
                if not any(g.key == f.key for g in res.failures) or len(res.failures) < 5:
                    res.failures.append(f)
            if len(res.samples) < 4 and ans["out"] == "ok" and i % 97 == 0:
                res.samples.append({"case": case, "answer": {k: v for k, v in ans.items() if k in ("pred_size", "enc_size", "seed", "reqs")}
                                    if case["kind"] == "ijepa" else {"mask_counts": [sum(sum(r) for r in m) for m in ans["masks"]]}})
        res.observations = res.observations[:10]
        res.failures.sort(key=lambda f: len(json.dumps(f.input)))
        return res

    def replay_input(self, inp):
        return judge(inp)[0]

    def search(self, budget_s, hints):
        t0 = time.time()
        out = []
        for h in hints:
            f = judge(h)[0]
            if f:
                out.append(f)
        rng = random.Random(self.seed + 17)
        while not out and time.time() - t0 < budget_s:
            c = gen_dino(rng, small=True) if rng.random() < 0.5 else gen_ijepa(rng, small=rng.random() < 0.5)
            f = judge(c)[0]
            if f:
                out.append(f)
        return out
