"""Translator: dataset-layer classes of /repo (wrappers, datasets, ModeWrapper, concat/subset, interleaved concat)
->  lean/KDVerif/Gen/WrapperTable.lean   (rows for C08 seed injection and C09 worker initialisation)

Per class, resolved through the real MRO:
  slots            attributes that hold transforms (or configs holding transforms)
  seed site        per-sample method that builds `np.random.default_rng(self.seed + idx)`: which slots receive
                   `set_rng(rng)` under a guard every KDTransform passes, which slots are applied, whether the
                   wrapper itself draws from anything else
  worker init      which slots receive `worker_init_fn` in the resolved `_worker_init_fn`; whether the resolved
                   `worker_init_fn` runs the own hook, forwards to the inner dataset(s), re-seeds the collators
Unrecognised constructs make a row worse, never better.
"""
import ast
import importlib
import inspect
import pkgutil
import sys
import textwrap
from itertools import product
from pathlib import Path

from .translate_rngflow import lean_str, is_self_attr, func_of

VERIF = Path(__file__).resolve().parents[2]
GEN = VERIF / "lean" / "KDVerif" / "Gen"
PACKAGES = ["kappadata.wrappers", "kappadata.common.wrappers", "kappadata.common.datasets", "kappadata.datasets",
            "kappadata.samplers.interleaved_sampler", "kappadata.caching"]
# layers whose inner `dataset` is a foreign torch dataset without a worker hook: they are roots of the KD stack
FOREIGN_INNER = {"TorchWrapper", "KDImageFolder"}


def iter_modules():
    mods, errors = [], []
    for pkg_name in PACKAGES:
        try:
            pkg = importlib.import_module(pkg_name)
        except Exception as e:
            errors.append((pkg_name, f"{type(e).__name__}: {e}"))
            continue
        mods.append(pkg)
        if hasattr(pkg, "__path__"):
            for m in pkgutil.walk_packages(pkg.__path__, prefix=pkg_name + "."):
                try:
                    mods.append(importlib.import_module(m.name))
                except Exception as e:
                    errors.append((m.name, f"{type(e).__name__}: {e}"))
    return mods, errors


def collect():
    from torch.utils.data import Dataset
    mods, errors = iter_modules()
    classes = {}
    for mod in mods:
        for name, obj in vars(mod).items():
            if inspect.isclass(obj) and issubclass(obj, Dataset) and obj.__module__.startswith("kappadata"):
                classes[obj.__name__] = obj
    return classes, errors


def src_ast(cls):
    return ast.parse(textwrap.dedent(inspect.getsource(cls))).body[0]


def mro_with_source(cls):
    out = []
    for c in cls.__mro__:
        if c.__module__.startswith(("kappadata", "torch.utils.data")):
            try:
                out.append((c, src_ast(c)))
            except (OSError, TypeError):
                pass
    return out


def resolve(cls, fname):
    for c, node in mro_with_source(cls):
        if fname in vars(c):
            fn = func_of(node, fname)
            if fn is not None:
                return c, fn
    return None, None


def transform_base():
    from kappadata.transforms.base.kd_transform import KDTransform
    return KDTransform


def slots_of(cls):
    """slot -> {'kind': 'single'|'list'|'cfg'|'alias', 'members': [...]}"""
    KDT = transform_base()
    slots = {}
    for c, node in mro_with_source(cls):
        if not c.__module__.startswith("kappadata") or "__init__" not in vars(c):
            continue
        init = func_of(node, "__init__")
        if init is None:
            continue
        params = {a.arg for a in init.args.args + init.args.kwonlyargs}
        g = vars(sys.modules[c.__module__])
        for n in ast.walk(init):
            if not isinstance(n, ast.Assign):
                continue
            for t in n.targets:
                if not is_self_attr(t):
                    continue
                v = n.value
                kind = None
                if isinstance(v, ast.Call) and isinstance(v.func, ast.Name):
                    if v.func.id == "object_to_transform":
                        kind = {"kind": "single"}
                    else:
                        tgt = g.get(v.func.id)
                        if inspect.isclass(tgt) and issubclass(tgt, KDT):
                            kind = {"kind": "single", "cls": tgt.__name__}
                elif isinstance(v, ast.ListComp) and isinstance(v.elt, ast.Call) and isinstance(v.elt.func, ast.Name) \
                        and v.elt.func.id == "object_to_transform":
                    kind = {"kind": "list"}
                elif isinstance(v, ast.List) and v.elts and all(is_self_attr(e) for e in v.elts):
                    kind = {"kind": "alias", "members": [e.attr for e in v.elts]}
                elif isinstance(v, ast.Name) and v.id in params:
                    low = v.id.lower()
                    if t.attr == "transform_configs" or low == "configs":
                        kind = {"kind": "cfg"}
                    elif "transform" in low:
                        kind = {"kind": "list" if low.endswith("s") else "single"}
                if kind is not None:
                    slots[t.attr] = kind
    return slots


# --- guard coverage -------------------------------------------------------------------------------------
def isinstance_lit(test, recv_src):
    """(recv matches, classes source) for `isinstance(recv, G)`; None otherwise"""
    if isinstance(test, ast.Call) and isinstance(test.func, ast.Name) and test.func.id == "isinstance" and len(test.args) == 2 \
            and ast.unparse(test.args[0]) == recv_src:
        return ast.unparse(test.args[1])
    return None


def split_conj(test):
    if isinstance(test, ast.BoolOp) and isinstance(test.op, ast.And):
        out = []
        for v in test.values:
            out += split_conj(v)
        return out
    return [test]


def guard_total(paths, recv_src, modglobals, member_classes=None):
    """paths: list of path conditions (list of (positive?, test)) under which set_rng/worker_init_fn is called on recv.
    Total iff for every truth assignment of the isinstance atoms that a *KDTransform instance* can realise some path holds.
    Atoms whose class tuple contains KDTransform are True for every KDTransform; `<x> is not None`-style seed tests are ignored."""
    KDT = transform_base()
    atoms = {}
    norm_paths = []
    for conds in paths:
        lits = []
        for pos, test in conds:
            for t in (split_conj(test) if pos else [test]):
                src = isinstance_lit(t, recv_src)
                if src is None:
                    tsrc = ast.unparse(t)
                    harmless = (tsrc in ("rng is not None", "self.seed is not None")
                                or tsrc in (f"hasattr({recv_src}, 'worker_init_fn')", f"hasattr({recv_src}, 'set_rng')"))
                    if pos and harmless:
                        continue      # seed-presence test / hook-presence test: true whenever a seeded KDTransform member is involved
                    if (not pos) and tsrc in ("rng is None", "self.seed is None"):
                        continue
                    lits.append((pos, "<unknown:" + tsrc + ">"))
                    atoms.setdefault("<unknown:" + tsrc + ">", None)
                    continue
                lits.append((pos, src))
                atoms[src] = t
        norm_paths.append(lits)
    always_true = set()
    for src, t in atoms.items():
        if t is None:
            continue      # unknown condition: stays a free atom, i.e. coverage must hold for both truth values
        g = t.args[1]
        names = g.elts if isinstance(g, ast.Tuple) else [g]
        for nm in names:
            obj = modglobals.get(nm.id) if isinstance(nm, ast.Name) else None
            if obj is KDT:
                always_true.add(src)
            elif member_classes and inspect.isclass(obj) and all(issubclass(m, obj) for m in member_classes):
                always_true.add(src)     # every member of this fixed slot is an instance of the guard class
    free = [a for a in atoms if a not in always_true]
    for values in product([True, False], repeat=len(free)):
        env = dict(zip(free, values))
        env.update({a: True for a in always_true})
        if not any(all(env[src] == pos for pos, src in lits) for lits in norm_paths):
            return False
    return bool(norm_paths)


def calls_on_members(fn, method, slots, modglobals):
    """which slots' members receive `<recv>.<method>(...)`, with total guards.  Handles self.X.m(..), loops over
    self.X (members or configs with .transform), and loop variables."""
    per_slot_paths = {}
    recv_of_slot = {}

    def visit(stmts, conds, loopvars):
        for st in stmts:
            if isinstance(st, ast.If):
                visit(st.body, conds + [(True, st.test)], loopvars)
                visit(st.orelse, conds + [(False, st.test)], loopvars)
                continue
            if isinstance(st, ast.For):
                lv = dict(loopvars)
                if is_self_attr(st.iter) and isinstance(st.target, ast.Name) and st.iter.attr in slots:
                    lv[st.target.id] = st.iter.attr
                visit(st.body, conds, lv)
                continue
            for c in ast.walk(st):
                if isinstance(c, ast.Call) and isinstance(c.func, ast.Attribute) and c.func.attr == method:
                    recv = c.func.value
                    slot = None
                    if is_self_attr(recv) and recv.attr in slots:
                        slot = recv.attr
                    elif isinstance(recv, ast.Name) and recv.id in loopvars:
                        slot = loopvars[recv.id]
                    elif isinstance(recv, ast.Attribute) and isinstance(recv.value, ast.Name) and recv.value.id in loopvars \
                            and recv.attr == "transform":
                        slot = loopvars[recv.value.id]
                    if slot is not None:
                        per_slot_paths.setdefault(slot, []).append(list(conds))
                        recv_of_slot[slot] = ast.unparse(recv)

    visit(fn.body, [], {})
    out = []
    for slot, paths in per_slot_paths.items():
        if guard_total(paths, recv_of_slot[slot], modglobals, member_classes_of(slots, slot, modglobals)):
            out.append(slot)
    return sorted(out), sorted(per_slot_paths)


def member_classes_of(slots, slot, modglobals):
    """classes of the members of a slot when all of them are fixed constructor calls (alias list of fixed slots)"""
    k = slots.get(slot)
    if k is None:
        return None
    names = []
    if k["kind"] == "alias":
        for m in k["members"]:
            mk = slots.get(m)
            if mk is None or "cls" not in mk:
                return None
            names.append(mk["cls"])
    elif "cls" in k:
        names.append(k["cls"])
    else:
        return None
    out = []
    for n in names:
        c = modglobals.get(n)
        if not inspect.isclass(c):
            return None
        out.append(c)
    return out


def applied_slots(fn, slots):
    """slots whose members are *called* in fn"""
    out = set()
    alias_members = {m: s for s, k in slots.items() if k["kind"] == "alias" for m in k["members"]}

    def visit(stmts, loopvars):
        for st in stmts:
            if isinstance(st, ast.For):
                lv = dict(loopvars)
                if is_self_attr(st.iter) and isinstance(st.target, ast.Name) and st.iter.attr in slots:
                    lv[st.target.id] = st.iter.attr
                visit(st.body, lv)
                visit(st.orelse, lv)
                continue
            if isinstance(st, (ast.If, ast.While)):
                for c in ast.walk(st.test):
                    check(c, loopvars)
                visit(st.body, loopvars)
                visit(st.orelse, loopvars)
                continue
            for c in ast.walk(st):
                check(c, loopvars)

    def check(c, loopvars):
        if not isinstance(c, ast.Call):
            return
        f = c.func
        if is_self_attr(f):
            if f.attr in slots:
                out.add(f.attr)
            elif f.attr in alias_members:
                out.add(alias_members[f.attr])
        elif isinstance(f, ast.Name) and f.id in loopvars:
            out.add(loopvars[f.id])
        elif isinstance(f, ast.Attribute) and isinstance(f.value, ast.Name) and f.value.id in loopvars and f.attr == "transform":
            out.add(loopvars[f.value.id])

    visit(fn.body, {})
    return sorted(out)


def per_sample_reachable(cls):
    """methods reachable (through `self.<m>(...)` calls) from the per-sample accessors getitem_* — the only place a C08 seed site lives;
    generators built at construction time (shuffle / few-shot / label wrappers) are not per-sample seed sites"""
    bodies = {}
    for c, node in reversed(mro_with_source(cls)):
        if not c.__module__.startswith("kappadata"):
            continue
        for fn in node.body:
            if isinstance(fn, ast.FunctionDef):
                bodies[fn.name] = fn
    seen, todo = set(), [n for n in bodies if n.startswith("getitem_")]
    while todo:
        m = todo.pop()
        if m in seen or m not in bodies:
            continue
        seen.add(m)
        for n in ast.walk(bodies[m]):
            if isinstance(n, ast.Call) and is_self_attr(n.func):
                todo.append(n.func.attr)
    return seen


def seed_site(cls, slots):
    """finds the per-sample method that creates default_rng; returns dict or None"""
    reach = per_sample_reachable(cls)
    for c, node in mro_with_source(cls):
        if not c.__module__.startswith("kappadata"):
            continue
        for fn in node.body:
            if not isinstance(fn, ast.FunctionDef) or fn.name == "__init__" or fn.name not in reach:
                continue
            calls = [n for n in ast.walk(fn) if isinstance(n, ast.Call) and ast.unparse(n.func).endswith("default_rng")]
            if not calls:
                continue
            params = [a.arg for a in fn.args.args]
            seed_srcs = []        # seed expressions used when a seed is configured
            fallback_srcs = []    # seed expressions used when self.seed is None

            def seed_expr(call):
                if call.keywords:
                    ks = [ast.unparse(k.value) for k in call.keywords if k.arg == "seed"]
                    return ks[0] if ks else "<entropy>"
                if call.args:
                    return ast.unparse(call.args[0])
                return "<entropy>"

            def walk(stmts, unseeded):
                for st in stmts:
                    if isinstance(st, ast.If) and ast.unparse(st.test) in ("self.seed is not None", "self.seed is None"):
                        pos = ast.unparse(st.test) == "self.seed is not None"
                        walk(st.body, unseeded or not pos)
                        walk(st.orelse, unseeded or pos)
                        continue
                    for n in ast.walk(st):
                        if isinstance(n, ast.Call) and ast.unparse(n.func).endswith("default_rng"):
                            e = seed_expr(n)
                            if e.endswith(" if self.seed is not None else None"):
                                seed_srcs.append(e[:-len(" if self.seed is not None else None")])
                                fallback_srcs.append("None")
                            elif unseeded:
                                fallback_srcs.append(e)
                            else:
                                seed_srcs.append(e)

            walk(fn.body, False)
            plus_idx = "idx" in params and bool(seed_srcs) and all(s == "self.seed + idx" for s in seed_srcs)
            g = vars(sys.modules[c.__module__])
            seeded, attempted = calls_on_members(fn, "set_rng", slots, g)
            applied = applied_slots(fn, slots)
            # also count slots applied by the methods that call this one (e.g. getitem_x -> self._getitem)
            other_draw = []
            for n in ast.walk(fn):
                if isinstance(n, ast.Call):
                    s = ast.unparse(n.func)
                    if s in ("GlobalRng", "get_rng_from_global") or s.startswith(("np.random.rand", "np.random.perm", "torch.rand", "random.")):
                        other_draw.append(s)
            return {"method": f"{c.__name__}.{fn.name}", "seedPlusIdx": plus_idx, "seed_exprs": seed_srcs, "fallback_exprs": fallback_srcs,
                    "seededSlots": seeded,
                    "attemptedSlots": attempted, "appliedSlots": applied, "unseededFallback": other_draw}
    return None


def worker_init_info(cls, slots):
    info = {"callsOwn": False, "forwardsInner": False, "forwardsAll": False, "reseedsCollators": False, "initSlots": [], "owner": None}
    c, fn = resolve(cls, "worker_init_fn")
    if fn is None:
        return info
    info["owner"] = c.__name__
    src = ast.unparse(fn)
    info["callsOwn"] = "self._worker_init_fn(rank, **kwargs)" in src
    info["forwardsInner"] = False
    for st in fn.body:
        # unconditional, or guarded only by hasattr(self.dataset, 'worker_init_fn') (a KD layer below always has the hook)
        if isinstance(st, ast.Expr) and ast.unparse(st.value) == "self.dataset.worker_init_fn(rank, **kwargs)":
            info["forwardsInner"] = True
        if isinstance(st, ast.If) and ast.unparse(st.test) == "hasattr(self.dataset, 'worker_init_fn')" and not st.orelse \
                and any(isinstance(b, ast.Expr) and ast.unparse(b.value) == "self.dataset.worker_init_fn(rank, **kwargs)" for b in st.body):
            info["forwardsInner"] = True
    # transform slots initialised directly in worker_init_fn (layers that do not use the _worker_init_fn hook)
    g0 = vars(sys.modules[c.__module__])
    ok0, _ = calls_on_members(fn, "worker_init_fn", slots, g0)
    info["initSlots"] = sorted(set(info["initSlots"]) | set(ok0))
    for n in ast.walk(fn):
        if isinstance(n, ast.For) and ast.unparse(n.iter) == "self.datasets" and isinstance(n.target, ast.Name):
            body = ast.unparse(n)
            if f"{n.target.id}.worker_init_fn(rank" in body:
                info["forwardsAll"] = True
        if isinstance(n, ast.For) and ast.unparse(n.iter) == "self.collators" and isinstance(n.target, ast.Name):
            if f"{n.target.id}.set_rng(rng)" in ast.unparse(n) and "rng = get_rng_from_global()" in src:
                info["reseedsCollators"] = True
    # super().worker_init_fn(...) chains (e.g. a root dataset that also owns a transform)
    if "super().worker_init_fn(rank, **kwargs)" in src:
        for base in cls.__mro__[cls.__mro__.index(c) + 1:]:
            if "worker_init_fn" in vars(base):
                sub = worker_init_info_from(base, slots)
                for k in ("callsOwn", "forwardsInner", "forwardsAll", "reseedsCollators"):
                    info[k] = info[k] or sub[k]
                break
        g = vars(sys.modules[c.__module__])
        ok, _ = calls_on_members(fn, "worker_init_fn", slots, g)
        info["initSlots"] = sorted(set(info["initSlots"]) | set(ok))
    if info["callsOwn"]:
        c2, fn2 = resolve(cls, "_worker_init_fn")
        if fn2 is not None:
            g = vars(sys.modules[c2.__module__])
            ok, _ = calls_on_members(fn2, "worker_init_fn", slots, g)
            info["initSlots"] = sorted(set(info["initSlots"]) | set(ok))
    return info


def worker_init_info_from(base, slots):
    return worker_init_info(base, slots)


def layer_kind(cls):
    from torch.utils.data import ConcatDataset
    if cls.__name__ in FOREIGN_INNER:
        return "root"
    if issubclass(cls, ConcatDataset):
        return "multi"
    for c, node in mro_with_source(cls):
        init = func_of(node, "__init__")
        if init is None:
            continue
        for n in ast.walk(init):
            if isinstance(n, ast.Assign) and any(is_self_attr(t, "dataset") for t in n.targets):
                # torchvision-style inner dataset that is not a KD layer (KDImageFolder.dataset = ImageFolder(...))
                if isinstance(n.value, ast.Call) and isinstance(n.value.func, ast.Name) and n.value.func.id[0].isupper():
                    continue
                return "wrapper"
    return "root"


# ------------------------------------------------------------------------------------------------------
# dynamic observation: what a layer class DOES with the transforms it holds (robust against refactorings)
# ------------------------------------------------------------------------------------------------------
def _tiny_ds(kind="tensor", collators=None):
    import torch
    from kappadata.datasets.kd_dataset import KDDataset

    class _ProbeBase(KDDataset):
        def __init__(self):
            super().__init__(collators=collators)
            g = torch.Generator().manual_seed(5)
            self.x = torch.rand(4, 3, 16, 16, generator=g)
            self.inits = 0

        def getitem_x(self, idx, ctx=None):
            x = self.x[idx].clone()
            if kind == "pil":
                from torchvision.transforms.functional import to_pil_image
                return to_pil_image(x)
            return x

        def getitem_y(self, idx, ctx=None):
            return self.x[idx].clone()

        def getitem_source(self, idx, ctx=None):
            return self.x[idx].clone()

        def getitem_target(self, idx, ctx=None):
            return self.x[idx].clone()

        def getitem_semseg(self, idx, ctx=None):
            return torch.zeros(16, 16, dtype=torch.long)

        def getitem_class(self, idx, ctx=None):
            return int(idx) % 3

        def getshape_class(self):
            return 3,

        def __len__(self):
            return 4

        def worker_init_fn(self, rank, **kwargs):
            self.inits += 1
            super().worker_init_fn(rank, **kwargs)

    return _ProbeBase()


def _probe_transform():
    """a stochastic KD transform that counts its calls and returns its input; nested one level so that a guard which only
    admits KDStochastic/KDCompose instances is visible (the outer object is a PatchwiseTransform-like plain KDTransform)"""
    from kappadata.transforms.base.kd_transform import KDTransform
    from kappadata.transforms.base.kd_stochastic_transform import KDStochasticTransform

    class _Leaf(KDStochasticTransform):
        calls = 0

        def __call__(self, x, ctx=None):
            type(self).calls += 1
            self.calls_inst = getattr(self, "calls_inst", 0) + 1
            return x

    class _Outer(KDTransform):
        """plain KDTransform (neither stochastic nor compose) that forwards to a stochastic member"""

        def __init__(self):
            super().__init__()
            self.inner = _Leaf()

        def set_rng(self, rng):
            self.inner.set_rng(rng)
            return self

        def __call__(self, x, ctx=None):
            return self.inner(x, ctx=ctx)

    return [("leaf", _Leaf), ("plain-outer", _Outer)]


def _leaf_of(t):
    return getattr(t, "inner", t)


def _construct_layer(cls, seed, kind="tensor", only_kind=False):
    """tries the constructor shapes used by the layer classes of the package"""
    from kappadata.transforms.base.kd_identity_transform import KDIdentityTransform
    ident = KDIdentityTransform
    from kappadata.datasets.kd_dataset import KDDataset
    tries = [
        lambda ds: cls(ds, transform=ident(), seed=seed),
        lambda ds: cls(dataset=ds, configs=[(1, ident())], seed=seed),
        lambda ds: cls(dataset=ds, transforms=[ident()], seed=seed),
        lambda ds: cls(dataset=ds, mixup_p=1.0, mixup_alpha=1.0, seed=seed),
        lambda ds: cls(dataset=ds, global_size=16, local_size=8, num_local_crops=1, seed=seed),
        lambda ds: cls(ds, seed=seed),
        lambda ds: cls(dataset=ds, seed=seed),
    ]
    if seed is None:
        tries += [
            lambda ds: cls(ds, transform=ident()),
            lambda ds: cls(dataset=ds, configs=[(1, ident())]),
            lambda ds: cls(dataset=ds, transforms=[ident()]),
            lambda ds: cls(ds),
            lambda ds: cls(dataset=ds),
            lambda ds: cls(ds, indices=[0, 1]),
            lambda ds: cls(ds, [0, 1]),
            lambda ds: cls([ds, _tiny_ds(kind)]),
            lambda ds: cls(ds, mode="x"),
            lambda ds: cls(dataset=ds, mode="x"),
        ]
    for k in ((kind,) if only_kind else (kind, "pil" if kind == "tensor" else "tensor")):
        for t in tries:
            try:
                inst = t(_tiny_ds(k))
                if type(inst) is cls:
                    return inst, k
            except Exception:
                continue
    return None, None


def _inject(inst, slot, slot_kind, probe):
    from kappadata.wrappers.sample_wrappers.kd_multi_view_wrapper import KDMultiViewConfig
    if slot_kind == "cfg":
        setattr(inst, slot, [KDMultiViewConfig(n_views=1, transform=probe)])
    elif slot_kind == "list":
        setattr(inst, slot, [probe])
    else:
        setattr(inst, slot, probe)


def dynamic_seed_facts(cls, slots, static_site):
    """observes one seeded per-sample request per accessor: which generators are created (seed + idx?), which slots' members are
    called, which receive the fresh generator.  None when the class cannot be built / has no injectable slot shape."""
    import numpy as np
    from unittest import mock
    seed, idx = 37, 2
    inst, kind = _construct_layer(cls, seed)
    if inst is None:
        return None
    accessors = [n for n in dir(cls) if n.startswith("getitem_") and callable(getattr(cls, n, None))
                 and any(n in vars(c) for c in cls.__mro__ if c.__module__.startswith("kappadata"))]
    created = []
    orig = np.random.default_rng

    def rec(seed=None, *a, **kw):
        g = orig(seed, *a, **kw)
        created.append((g, seed))
        return g

    applied, seeded, plus_idx, ran = set(), set(), True, False
    any_created = False
    inj_slots = [(s, k["kind"]) for s, k in slots.items() if k["kind"] in ("single", "list", "cfg") and "cls" not in k]
    fixed_slots = [s for s, k in slots.items() if not (k["kind"] in ("single", "list", "cfg") and "cls" not in k)]
    for pname, pcls in _probe_transform():
        for slot, sk in (inj_slots or [(None, None)]):
            inst, kind = _construct_layer(cls, seed)
            if inst is None:
                return None
            probe = pcls() if slot is not None else None
            if slot is not None:
                _inject(inst, slot, sk, probe)
            for acc in accessors:
                del created[:]
                before = getattr(_leaf_of(probe), "calls_inst", 0) if probe is not None else 0
                try:
                    with mock.patch.object(np.random, "default_rng", rec):
                        getattr(inst, acc)(idx)
                except Exception:
                    continue
                ran = True
                called = probe is not None and getattr(_leaf_of(probe), "calls_inst", 0) > before
                if any(sd != seed + idx for _, sd in created):
                    plus_idx = False            # a generator that is not default_rng(seed + idx)
                if not created and (called or probe is None and acc in ("getitem_x", "getitem_xclass")):
                    plus_idx = False            # the accessor applied a transform / drew without building a per-sample generator
                if created:
                    any_created = True
                if probe is not None:
                    got = _leaf_of(probe).rng
                    fresh = any(got is g for g, _ in created)
                    if called:
                        applied.add(slot)
                        if fresh:
                            seeded.add((slot, pname))
    # slots built by the constructor itself (fixed pipelines, alias lists): after one request every cell below every member must be
    # a generator created during that request; which members are called is observed through their classes' __call__
    fixed_seeded, fixed_applied = set(), set()
    if fixed_slots:
        for data_kind in ("tensor", "pil"):
            inst, kind = _construct_layer(cls, seed, data_kind, only_kind=True)
            if inst is None:
                continue
            members = {s_: _members(inst, s_, slots[s_]["kind"]) for s_ in fixed_slots}
            called = set()
            patches = []
            for tp in {type(m) for ms in members.values() for m in ms if callable(m)}:
                orig_call = tp.__call__

                def wrapper(self_, *a, __orig=orig_call, **kw):
                    called.add(id(self_))
                    return __orig(self_, *a, **kw)
                patches.append(mock.patch.object(tp, "__call__", wrapper))
            for p_ in patches:
                p_.start()
            worked = False
            try:
                for acc in accessors:
                    del created[:]
                    try:
                        with mock.patch.object(np.random, "default_rng", rec):
                            getattr(inst, acc)(idx)
                    except Exception:
                        continue
                    worked = True
                    if any(sd != seed + idx for _, sd in created) or not created:
                        plus_idx = False
                    for s_ in fixed_slots:
                        cells = [c for m in members[s_] for c in _sub_cells(m)]
                        if cells and all(any(c is g for g, _ in created) for c in cells):
                            fixed_seeded.add(s_)
                        if any(id(m) in called for m in members[s_]):
                            fixed_applied.add(s_)
            finally:
                for p_ in patches:
                    p_.stop()
            if worked:
                ran = True
                any_created = True if created else any_created
                break
    if not ran:
        return None
    plus_idx = plus_idx and any_created
    seeded_slots = {s for s, _ in inj_slots if all((s, pn) in seeded for pn, _ in _probe_transform())}
    not_applied = {s for s, _ in inj_slots if s not in applied}
    return {"seedPlusIdx": plus_idx, "applied": sorted(applied), "seeded": sorted(seeded_slots | not_applied), "fixed_slots": fixed_slots,
            "fixed_seeded": sorted(fixed_seeded), "fixed_applied": sorted(fixed_applied), "anyCreated": any_created}


def _accepts_seed(cls):
    """some constructor along the MRO has a parameter called `seed`"""
    import inspect
    for c in cls.__mro__:
        init = vars(c).get("__init__")
        if init is None:
            continue
        try:
            if "seed" in inspect.signature(init).parameters:
                return True
        except (TypeError, ValueError):
            continue
    return False


def dynamic_entropy_fallback(cls):
    """built WITHOUT a seed: does a per-sample request create a generator from OS entropy (default_rng() / default_rng(None))?
    True / False as observed, None when the class cannot be built or no accessor runs"""
    import numpy as np
    from unittest import mock
    inst, kind = _construct_layer(cls, None)
    if inst is None:
        return None
    accessors = [n for n in dir(cls) if n.startswith("getitem_") and callable(getattr(cls, n, None))
                 and any(n in vars(c) for c in cls.__mro__ if c.__module__.startswith("kappadata"))]
    created = []
    orig = np.random.default_rng

    def rec(seed=None, *a, **kw):
        created.append(seed)
        return orig(seed, *a, **kw)
    ran = False
    for acc in accessors:
        try:
            with mock.patch.object(np.random, "default_rng", rec):
                getattr(inst, acc)(1)
            ran = True
        except Exception:
            continue
    if not ran:
        return None
    return any(sd is None for sd in created)


def _sub_cells(t):
    """generator cells below a transform (object graph walk)"""
    import numpy as np
    from kappadata.transforms.base.kd_transform import KDTransform
    from kappadata.collators.base.kd_collator_base import KDCollatorBase
    out, seen = [], set()

    def go(o):
        if not isinstance(o, (KDTransform, KDCollatorBase)) or id(o) in seen:
            return
        seen.add(id(o))
        r = vars(o).get("rng")
        if isinstance(r, np.random.Generator):
            out.append(r)
        for v in vars(o).values():
            if isinstance(v, (list, tuple)):
                for e in v:
                    go(e)
            else:
                go(v)
    go(t)
    return out


def _members(inst, slot, slot_kind):
    v = vars(inst).get(slot)
    if v is None:
        return []
    if slot_kind == "cfg":
        return [c.transform for c in v]
    if isinstance(v, (list, tuple)):
        return list(v)
    return [v]


def dynamic_init_facts(cls, slots, layer_kind_):
    """observes worker_init_fn on an instance: which slots' members are re-seeded from the global state, whether the inner
    dataset's / every part's hook is called"""
    import numpy as np
    from unittest import mock
    import kappadata.utils.random as kr
    inst, kind = _construct_layer(cls, None)
    if inst is None:
        return None
    made = []
    orig = kr.get_rng_from_global

    def rec():
        g = orig()
        made.append(g)
        return g
    patches = []
    for name, mod in list(sys.modules.items()):
        if name.startswith("kappadata") and mod is not None and getattr(mod, "get_rng_from_global", None) is orig:
            patches.append(mock.patch.object(mod, "get_rng_from_global", rec))
    inj_slots = [(s, k["kind"]) for s, k in slots.items() if k["kind"] in ("single", "list", "cfg") and "cls" not in k]
    init_slots, forwards_inner = set(), None
    for p_ in patches:
        p_.start()
    try:
        probes = {}
        for slot, sk in inj_slots:
            pr = _probe_transform()[1][1]()
            probes[slot] = pr
            _inject(inst, slot, sk, pr)
        inner = vars(inst).get("dataset")
        parts = vars(inst).get("datasets")
        before = getattr(inner, "inits", None)
        before_parts = [getattr(p, "inits", None) for p in parts] if isinstance(parts, list) else None
        try:
            np.random.seed(3)
            inst.worker_init_fn(0, batch_size=2, updates=10)
        except Exception:
            return None
        for slot, pr in probes.items():
            if any(_leaf_of(pr).rng is g for g in made):
                init_slots.add(slot)
        # slots built by the constructor itself (fixed pipelines, alias lists): every cell below every member re-seeded?
        for s_, k in slots.items():
            if s_ in probes:
                continue
            mem = _members(inst, s_, k["kind"])
            cells = [c for m in mem for c in _sub_cells(m)]
            if all(any(c is g for g in made) for c in cells):
                init_slots.add(s_)
        if before is not None:
            forwards_inner = getattr(inner, "inits", 0) > before
        if before_parts is not None and all(b is not None for b in before_parts):
            forwards_inner = all(getattr(p, "inits", 0) > b for p, b in zip(parts, before_parts))
    finally:
        for p_ in patches:
            p_.stop()
    return {"initSlots": sorted(init_slots), "forwardsInner": forwards_inner, "injected": [s for s, _ in inj_slots]}


def dynamic_root_reseeds(cls):
    """root datasets: registered collators get a generator derived from the global state in worker_init_fn (observed; the instance is
    built without running __init__ when the constructor needs files)"""
    import numpy as np
    from unittest import mock
    import kappadata.utils.random as kr
    import kappadata.collators as C
    try:
        col = C.KDMixCollator(mixup_alpha=0.8, mixup_p=1.0)
        inst = cls.__new__(cls)
        inst._collators = [col]
        inst.transform = None
        inst.dataset = None
        made = []
        orig = kr.get_rng_from_global

        def rec():
            g = orig()
            made.append(g)
            return g
        patches = [mock.patch.object(mod, "get_rng_from_global", rec) for n_, mod in list(sys.modules.items())
                   if n_.startswith("kappadata") and mod is not None and getattr(mod, "get_rng_from_global", None) is orig]
        for p_ in patches:
            p_.start()
        try:
            np.random.seed(4)
            inst.worker_init_fn(0, batch_size=2, updates=10)
        finally:
            for p_ in patches:
                p_.stop()
        return any(col.rng is g for g in made)
    except Exception:
        return None


def init_closure(cls):
    """function objects of worker_init_fn and everything it calls on self (incl. the _worker_init_fn hook)"""
    from .translate_rngflow import resolved_closure
    return resolved_closure(cls, "worker_init_fn")


def build():
    classes, errors = collect()
    rows = []
    for name in sorted(classes):
        cls = classes[name]
        try:
            slots = slots_of(cls)
            site = seed_site(cls, slots)
            if site is None and _accepts_seed(cls) and layer_kind(cls) != "root":
                # no `default_rng(...)` found by reading the per-sample methods (it may live in a helper function, a property, a
                # base class outside the call graph ...): a class that takes a seed is probed -- if a request creates generators,
                # it is a seeded wrapper and everything about it is taken from the observation
                dyn0 = dynamic_seed_facts(cls, slots, None)
                if dyn0 is not None and dyn0.get("anyCreated"):
                    site = {"method": "(observed)", "seedPlusIdx": bool(dyn0["seedPlusIdx"]), "seed_exprs": ["(observed)"], "fallback_exprs": [],
                            "seededSlots": [], "attemptedSlots": [], "appliedSlots": [], "unseededFallback": []}
            if site is not None:
                ent = dynamic_entropy_fallback(cls)
                if ent is not None:
                    site["fallback_exprs"] = ["<entropy>"] if ent else []
            wi = worker_init_info(cls, slots)
            real_slots = sorted(s for s, k in slots.items() if k["kind"] != "alias" or True)
            # alias slots stand for their members; members need no separate init when the alias list is initialised
            covered = set(wi["initSlots"])
            for s, k in slots.items():
                if k["kind"] == "alias" and s in covered:
                    covered |= set(k["members"])
            seeded_cov = set(site["seededSlots"]) if site else set()
            for s, k in slots.items():
                if k["kind"] == "alias" and s in seeded_cov:
                    seeded_cov |= set(k["members"])
            row = {
                "name": name, "module": cls.__module__, "kind": layer_kind(cls),
                "slots": real_slots, "slot_kinds": slots,
                "site": site, "seededCover": sorted(seeded_cov),
                "wi": wi, "initCover": sorted(covered), "source": "static",
            }
            # the observed behaviour decides wherever the class can be built and a probe can be injected;
            # the static reading remains for fixed (constructor-built) slots and unbuildable classes
            if site is not None:
                dyn = dynamic_seed_facts(cls, slots, site)
                if dyn is not None:
                    inj = set(dyn["applied"]) | set(dyn["seeded"])
                    site["seedPlusIdx"] = bool(dyn["seedPlusIdx"]) if dyn["seedPlusIdx"] is not None else site["seedPlusIdx"]
                    site["appliedSlots"] = sorted(set(dyn["fixed_applied"]) | set(dyn["applied"]))
                    row["seededCover"] = sorted(set(dyn["fixed_seeded"]) | set(dyn["seeded"]))
                    row["source"] = "dynamic"
            if row["kind"] == "root":
                dr = dynamic_root_reseeds(cls)
                if dr is not None:
                    wi["reseedsCollators"] = bool(dr)
            dwi = dynamic_init_facts(cls, slots, row["kind"])
            row["_init_key"] = (init_closure(cls), tuple(sorted(slots)), row["kind"])
            if dwi is not None:
                row["initCover"] = sorted(set(dwi["initSlots"]) & set(real_slots))
                if dwi["forwardsInner"] is not None and row["kind"] in ("wrapper", "multi"):
                    wi["forwardsInner"] = bool(dwi["forwardsInner"]) if row["kind"] == "wrapper" else wi["forwardsInner"]
                    wi["forwardsAll"] = bool(dwi["forwardsInner"]) if row["kind"] == "multi" else wi["forwardsAll"]
                row["source"] = "dynamic"
                row["_init_observed"] = True
            rows.append(row)
        except Exception as e:
            errors.append((name, f"translator: {type(e).__name__}: {e}"))
            rows.append({"name": name, "module": cls.__module__, "kind": "root", "slots": ["?"], "slot_kinds": {}, "site": None,
                         "seededCover": [], "wi": {"callsOwn": False, "forwardsInner": False, "forwardsAll": False,
                                                    "reseedsCollators": False, "initSlots": [], "owner": None}, "initCover": []})
    # classes that cannot be built here inherit the observation made on a class that runs the very same hook code
    observed = {}
    for r in rows:
        if r.get("_init_observed"):
            observed.setdefault(r["_init_key"], r)
    for r in rows:
        if not r.get("_init_observed") and r.get("_init_key") in observed:
            o = observed[r["_init_key"]]
            r["initCover"] = list(o["initCover"])
            r["wi"]["forwardsInner"] = o["wi"]["forwardsInner"]
            r["wi"]["forwardsAll"] = o["wi"]["forwardsAll"]
            r["source"] = "dynamic (observed on a class running the same worker_init_fn code)"
        r.pop("_init_key", None)
        r.pop("_init_observed", None)
    return rows, errors


def seed_problems(rows):
    out = {}
    for r in rows:
        s = r["site"]
        if s is None:
            continue
        p = []
        if not s["seedPlusIdx"]:
            p.append(f"generator not derived as seed+idx inside the per-sample method: {s['seed_exprs']}")
        miss = [a for a in s["appliedSlots"] if a not in r["seededCover"]]
        if miss:
            p.append(f"slots applied but not (totally) seeded: {miss} (attempted: {s['attemptedSlots']})")
        if p:
            out[r["name"]] = p
    return out


def init_problems(rows):
    out = {}
    try:
        for k, v in hook_reseeds().items():
            if not v:
                out[k] = ["worker_init_fn does not unconditionally call self.set_rng(get_rng_from_global())"]
    except Exception as e:
        out["hooks"] = [f"translator: {e}"]
    for c in entropy_fallback_classes(rows):
        out.setdefault(c, []).append("unseeded per-sample generator is created from OS entropy, not from the worker's global NumPy state")
    for r in rows:
        p = []
        wi = r["wi"]
        miss = [s for s in r["slots"] if s not in r["initCover"]]
        if miss:
            p.append(f"transform slots not re-seeded by worker init: {miss}")
        if r["kind"] == "wrapper" and not wi["forwardsInner"]:
            p.append("worker_init_fn does not forward to the inner dataset")
        if r["kind"] == "multi" and not wi["forwardsAll"]:
            p.append("worker_init_fn does not forward to every part")
        if r["kind"] == "root" and not wi["reseedsCollators"]:
            p.append("root worker_init_fn does not re-seed the registered collators")
        if p:
            out[r["name"]] = p
    return out


def hook_reseeds():
    """KDTransform.worker_init_fn / KDCollatorBase.worker_init_fn re-seed from the global state UNCONDITIONALLY: observed on real
    instances with get_worker_info() reporting no worker / 1 worker / 3 workers (falls back to reading the source when the
    instances cannot be built)"""
    import types
    import numpy as np
    from unittest import mock
    import kappadata.utils.random as kr
    import kappadata.transforms.base.kd_transform as kdt
    import torch.utils.data as tud
    out = {}
    try:
        import kappadata.transforms as T
        import kappadata.collators as C
        subjects = {"KDTransform": lambda: T.KDRandomCrop(size=4), "KDCollatorBase": lambda: C.KDMixCollator(mixup_alpha=0.8, mixup_p=1.0)}
        orig = kr.get_rng_from_global
        for name, th in subjects.items():
            ok = True
            for nw in (None, 1, 3):
                made = []

                def rec():
                    g = orig()
                    made.append(g)
                    return g
                patches = [mock.patch.object(mod, "get_rng_from_global", rec) for n_, mod in list(sys.modules.items())
                           if n_.startswith("kappadata") and mod is not None and getattr(mod, "get_rng_from_global", None) is orig]
                info = None if nw is None else types.SimpleNamespace(id=0, num_workers=nw, seed=1, dataset=None)
                patches += [mock.patch.object(kdt, "get_worker_info", lambda info=info: info),
                            mock.patch.object(tud, "get_worker_info", lambda info=info: info)]
                obj = th()
                for p_ in patches:
                    p_.start()
                try:
                    np.random.seed(9)
                    obj.worker_init_fn(0)
                    ok = ok and bool(made) and any(obj.rng is g for g in made)
                except Exception:
                    ok = False
                finally:
                    for p_ in patches:
                        p_.stop()
            out[name] = ok
        return out
    except Exception:
        pass
    from kappadata.transforms.base.kd_transform import KDTransform
    from kappadata.collators.base.kd_collator_base import KDCollatorBase
    for cls in (KDTransform, KDCollatorBase):
        fn = func_of(src_ast(cls), "worker_init_fn")
        ok = False
        if fn is not None:
            for st in fn.body:
                if isinstance(st, ast.Expr) and ast.unparse(st.value) == "self.set_rng(get_rng_from_global())":
                    ok = True
        out[cls.__name__] = ok
    return out


def entropy_fallback_classes(rows):
    """classes whose per-sample generator falls back to OS entropy (default_rng(None) / default_rng()) when no seed is given:
    such a stream is not derived from the worker's global seed and cannot be reproduced"""
    out = []
    for r in rows:
        s = r["site"]
        if s is None:
            continue
        for e in s.get("fallback_exprs", []):
            if e in ("<entropy>", "None"):
                out.append(r["name"])
                break
    return sorted(out)


def emit(rows):
    L = ["/- GENERATED by harness/kdv/translate_wrappers.py from /repo — do not edit. -/",
         "import KDVerif.Model.SeedFlow", "", "namespace KDVerif.Gen.WrapperTable", "open KDVerif.RngFlow KDVerif.SeedFlow", "",
         "/-- C08: one pseudo-row per seeded wrapper: slots = the slots whose members the per-sample method applies,",
         "    forwards = the slots whose members provably receive `set_rng(default_rng(seed + idx))` -/",
         "def seedRows : List SeedRow := ["]
    body = []
    for r in rows:
        s = r["site"]
        if s is None:
            continue
        body.append(f"  {{ name := {lean_str(r['name'])}, seedPlusIdx := {str(s['seedPlusIdx']).lower()}, "
                    f"applied := [{', '.join(lean_str(x) for x in s['appliedSlots'])}], "
                    f"seeded := [{', '.join(lean_str(x) for x in r['seededCover'])}] }}")
    L.append(",\n".join(body))
    L += ["]", "", "/-- C09: one row per dataset-layer class -/", "def layerRows : List LayerRow := ["]
    body = []
    for r in rows:
        wi = r["wi"]
        kind = {"root": ".root", "wrapper": ".wrapper", "multi": ".multi"}[r["kind"]]
        body.append(f"  {{ name := {lean_str(r['name'])}, kind := {kind}, slots := [{', '.join(lean_str(x) for x in r['slots'])}], "
                    f"initSlots := [{', '.join(lean_str(x) for x in r['initCover'])}], "
                    f"forwardsInner := {str(bool(wi['forwardsInner'] or wi['forwardsAll'])).lower()}, "
                    f"reseedsCollators := {str(bool(wi['reseedsCollators'])).lower()} }}")
    L.append(",\n".join(body))
    hk = hook_reseeds()
    L += ["]", "",
          "/-- `KDTransform.worker_init_fn` / `KDCollatorBase.worker_init_fn` call `self.set_rng(get_rng_from_global())` unconditionally",
          "    (the model's `initKids` / `initCollators` presume exactly this) -/",
          f"def transformHookReseeds : Bool := {str(hk['KDTransform']).lower()}",
          f"def collatorHookReseeds : Bool := {str(hk['KDCollatorBase']).lower()}", "",
          "/-- dataset layers whose own per-sample generator comes from OS entropy when no seed is configured -/",
          "def entropyFallbackClasses : List String := [" + ", ".join(lean_str(x) for x in entropy_fallback_classes(rows)) + "]", "",
          "end KDVerif.Gen.WrapperTable", ""]
    return "\n".join(L)


def generate():
    rows, errors = build()
    text = emit(rows)
    GEN.mkdir(parents=True, exist_ok=True)
    p = GEN / "WrapperTable.lean"
    changed = (not p.exists()) or p.read_text() != text
    if changed:
        p.write_text(text)
    return rows, errors, changed


if __name__ == "__main__":
    rows, errors, changed = generate()
    print(f"rows={len(rows)} changed={changed} errors={errors}")
    for r in rows:
        if r["slots"] or r["site"]:
            print(r["name"], r["kind"], "slots", r["slots"], "site", r["site"], "init", r["initCover"], r["wi"])
    print("SEED PROBLEMS", seed_problems(rows))
    print("INIT PROBLEMS", init_problems(rows))
