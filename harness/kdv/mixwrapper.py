"""C11 — KDMixWrapper: case generator, real-code runner (recorded per-call RNG tapes), independent property
oracle, correspondence with the Lean model (Model/MixWrapper.lean).

'The dataset' of the property is the dataset the mix wrapper is put on, which need not be the root dataset: a share of the cases
stacks dataset wrappers (index subsets, filters, shuffles, repeats, content / label / order changing doubles) between the root and
the mix wrapper. Model and oracle are given that dataset by enumerating a separately built instance of the stack (`dataset_view`),
never by reading the stack's specification or attributes of the code under test. Further optional case parts run the judged request
on a pickled / deep copy, after warm-up requests on the same object, next to a second differently configured mix wrapper, and on
float64 samples, on samples that are handed out in another memory layout (non-contiguous / offset views, fresh per call) and on datasets
that state their labels in another representation (0-dim tensor, one-hot vector of several dtypes, package OneHotWrapper /
LabelSmoothingWrapper directly below the mix); they never change what is demanded (the property statement on the returned sample and
label, the label of a sample being the vector the dataset states for it)."""
import json
import random
import time
from fractions import Fraction

from .common import CorrResult, Disagreement, Failure, PropertyCheck, CORPUS_DIR

REL_TOL = 1e-5
REQS = ["x class", "class x", "x", "class"]


def rat(v):
    f = Fraction(float(v))
    return [f.numerator, f.denominator]


def unrat(p):
    return p[0] / p[1]


# ----------------------------------------------------------------------------------------------
# recording: the wrapper calls np.random.default_rng(seed=...) inside getitem_xclass; the module's `np`
# name is replaced by a proxy whose default_rng returns a recording generator (no repo hook)
# ----------------------------------------------------------------------------------------------
class RecRng:
    def __init__(self, gen):
        self._gen = gen
        self.tape = []

    def random(self, size=None, *a, **kw):
        v = self._gen.random(size, *a, **kw)
        self.tape.append({"k": "unif", "v": rat(v)} if size is None else {"k": "other", "what": "random(size)"})
        return v

    def integers(self, low, high=None, size=None, **kw):
        v = self._gen.integers(low, high, size=size, **kw)
        if high is None and size is None:
            self.tape.append({"k": "int", "hi": int(low), "v": int(v)})
        else:
            self.tape.append({"k": "other", "what": "integers(...)"})
        return v

    def beta(self, a, b, size=None):
        v = self._gen.beta(a, b, size=size)
        if a == b and size is None:
            self.tape.append({"k": "beta", "a": rat(a), "v": rat(v)})
        else:
            self.tape.append({"k": "other", "what": f"beta({a},{b},{size})"})
        return v

    def __getattr__(self, name):
        def f(*a, **kw):
            self.tape.append({"k": "other", "what": name})
            return getattr(self._gen, name)(*a, **kw)
        return f


class NpProxy:
    def __init__(self, real_np, calls):
        self._np = real_np

        class R:
            @staticmethod
            def default_rng(seed=None, *a, **kw):
                rec = RecRng(real_np.random.default_rng(seed, *a, **kw))
                calls.append({"seed": None if seed is None else int(seed), "tape": rec.tape})
                return rec

            def __getattr__(self, name):
                return getattr(real_np.random, name)
        self.random = R()

    def __getattr__(self, name):
        return getattr(self._np, name)


# ----------------------------------------------------------------------------------------------
# dataset / inputs
# ----------------------------------------------------------------------------------------------
def numel(shape):
    n = 1
    for s in shape:
        n *= s
    return n


def sample_tensor(k, shape, dtype=None):
    """id-encoding: element with flat offset o of sample k is 1 + 512*k + o (exact in float32)"""
    import torch
    dt = torch.float64 if dtype == "float64" else torch.float32
    return (torch.arange(numel(shape), dtype=dt) + (1 + 512 * k)).reshape(*shape)


# test doubles: the root dataset and three wrappers that are NOT index subsets (content / label / order differ from the root).
# Defined lazily (kappadata is imported on first use) but registered as module-level names so that pickle finds them.
_CLS = {}


def _classes():
    if _CLS:
        return _CLS
    from kappadata.datasets.kd_dataset import KDDataset
    from kappadata.datasets.kd_wrapper import KDWrapper

    class IdDataset(KDDataset):
        def __init__(self, xs, classes, n_classes):
            super().__init__()
            self.xs, self.classes, self.n_classes = xs, classes, n_classes

        def getitem_x(self, idx, ctx=None):
            return self.xs[idx].clone()

        def getitem_class(self, idx, ctx=None):
            return self.classes[idx]

        def getshape_class(self):
            return self.n_classes,

        def __len__(self):
            return len(self.classes)

    class XOffsetWrapper(KDWrapper):
        """same indices, other content: every element of x is shifted by a constant (fresh tensor)"""

        def __init__(self, dataset, add):
            super().__init__(dataset=dataset)
            self.add = add

        def getitem_x(self, idx, ctx=None):
            return self.dataset.getitem_x(idx, ctx=ctx) + self.add

    class ClsShiftWrapper(KDWrapper):
        """same indices, other labels: class c becomes (c + by) mod n"""

        def __init__(self, dataset, by, n):
            super().__init__(dataset=dataset)
            self.by, self.n = by, n

        def getitem_class(self, idx, ctx=None):
            return (int(self.dataset.getitem_class(idx, ctx=ctx)) + self.by) % self.n

    class ReverseWrapper(KDWrapper):
        """a KDWrapper (not a KDSubset) with its own index space: position k is sample len-1-k of the wrapped dataset"""

        def getitem_x(self, idx, ctx=None):
            return self.dataset.getitem_x(len(self.dataset) - 1 - idx, ctx=ctx)

        def getitem_class(self, idx, ctx=None):
            return self.dataset.getitem_class(len(self.dataset) - 1 - idx, ctx=ctx)

    class XLayoutWrapper(KDWrapper):
        """same indices, same values, other MEMORY LAYOUT: a fresh tensor per call that is a non-contiguous (or offset) view"""

        def __init__(self, dataset, how):
            super().__init__(dataset=dataset)
            self.how = how

        def getitem_x(self, idx, ctx=None):
            return relayout(self.dataset.getitem_x(idx, ctx=ctx), self.how)

    class LabelFormWrapper(KDWrapper):
        """same indices, same labels, other REPRESENTATION of the label (fresh object per call)"""

        def __init__(self, dataset, form, n):
            super().__init__(dataset=dataset)
            self.form, self.n = form, n

        def getitem_class(self, idx, ctx=None):
            import torch
            from torch.nn.functional import one_hot
            c = torch.tensor(int(self.dataset.getitem_class(idx, ctx=ctx)))
            if self.form == "tensor0":
                return c
            v = one_hot(c, num_classes=self.n)
            if self.form == "onehot_f32":
                return v.float()
            if self.form == "onehot_f64":
                return v.double()
            return v

    for c in (IdDataset, XOffsetWrapper, ClsShiftWrapper, ReverseWrapper, XLayoutWrapper, LabelFormWrapper):
        c.__module__ = __name__
        c.__qualname__ = c.__name__
        globals()[c.__name__] = c
        _CLS[c.__name__] = c
    return _CLS


def relayout(t, how):
    """a fresh tensor with the shape and values of t in another memory layout"""
    import torch
    if how == "permuted" and t.ndim >= 2:
        # what loading H,W,C data and permuting it to C,H,W gives: dense, but not in row-major order
        return t.transpose(0, -1).contiguous().transpose(0, -1)
    if how == "offset":
        # contiguous view that does not start at the beginning of its storage
        buf = torch.cat([torch.zeros(3, dtype=t.dtype), t.flatten()])
        return buf[3:].view(t.shape)
    if how == "sliced":
        # the leading columns of a wider buffer (rows are not adjacent in memory)
        return torch.cat([t, torch.zeros_like(t)], dim=-1)[..., :t.shape[-1]]
    # strided: every second element of a larger buffer
    return torch.stack([t, torch.zeros_like(t)], dim=-1)[..., 0]


def apply_below(ds, sp, case):
    """one wrapper of the stack between the root dataset and the mix wrapper (package wrappers + the test doubles above)"""
    from kappadata.wrappers import SubsetWrapper, ClassFilterWrapper, ShuffleWrapper, RepeatWrapper
    k = sp["w"]
    if k == "subset":
        kw = {a: sp[a] for a in ("indices", "start_index", "end_index", "start_percent", "end_percent") if sp.get(a) is not None}
        return SubsetWrapper(ds, **kw)
    if k == "classfilter":
        kw = {a: list(sp[a]) for a in ("valid_classes", "invalid_classes") if sp.get(a) is not None}
        return ClassFilterWrapper(ds, **kw)
    if k == "shuffle":
        return ShuffleWrapper(ds, seed=sp["seed"])
    if k == "repeat":
        return RepeatWrapper(ds, repetitions=sp["repetitions"])
    if k == "xoffset":
        return _classes()["XOffsetWrapper"](ds, sp["add"])
    if k == "clsshift":
        return _classes()["ClsShiftWrapper"](ds, sp["by"], case["n_classes"])
    if k == "reverse":
        return _classes()["ReverseWrapper"](ds)
    if k == "xlayout":
        return _classes()["XLayoutWrapper"](ds, sp["how"])
    if k == "labelform":
        return _classes()["LabelFormWrapper"](ds, sp["form"], case["n_classes"])
    if k == "onehot":
        from kappadata.wrappers import OneHotWrapper
        return OneHotWrapper(ds)
    if k == "smooth":
        from kappadata.wrappers import LabelSmoothingWrapper
        return LabelSmoothingWrapper(ds, smoothing=sp["smoothing"])
    raise ValueError(f"unknown wrapper spec {k}")


def make_dataset(case):
    """(the dataset that is handed to KDMixWrapper = root + the case's stack of wrappers below the mix, tensors of the root samples)"""
    xs = [sample_tensor(k, sh, case.get("dtype")) for k, sh in enumerate(case["shapes"])]
    ds = _classes()["IdDataset"](xs, list(case["classes"]), case["n_classes"])
    for sp in case.get("below") or []:
        ds = apply_below(ds, sp, case)
    return ds, xs


def dataset_view(case):
    """the property's 'the dataset': samples and classes of the dataset the mix wrapper is put on, by enumerating a separately built
    instance of it (never through the mix wrapper). None when the stack below cannot be built / enumerated."""
    try:
        ds, root_xs = make_dataset(case)
        n = len(ds)
        xs = [ds.getitem_x(k) for k in range(n)]
        stated = [stated_label(ds.getitem_class(k), case["n_classes"]) for k in range(n)]
    except Exception:  # noqa
        return None
    return {"xs": xs, "classes": [c for _, c in stated], "labs": [v for v, _ in stated], "root_xs": root_xs,
            "root_classes": list(case["classes"]), "root_labs": [stated_label(c, case["n_classes"])[0] for c in case["classes"]]}


def stated_label(c, n_classes):
    """the label of a sample as the dataset states it: (label vector or None when it is not a point of the simplex, class or None when the
    vector is not one-hot). An int / 0-dim tensor c stands for the one-hot vector e_c; a 1-d tensor is the label vector itself."""
    import torch
    if torch.is_tensor(c) and c.ndim == 1:
        v = c.detach().clone().to(torch.float32)
        if len(v) != n_classes or bool((v < 0).any()) or abs(float(v.sum()) - 1) > 1e-5:
            return None, None
        hot = int(v.argmax())
        return v, (hot if float(v[hot]) == 1.0 else None)
    k = int(c)
    if not (0 <= k < n_classes):
        return None, k
    return torch.eye(n_classes)[k].clone(), k


def track_below(case):
    """harness-side reading of the stack (used by the generator only, to choose a valid index): list of (root id, class)"""
    import numpy as np
    items = [(k, c) for k, c in enumerate(case["classes"])]
    for sp in case.get("below") or []:
        k, n = sp["w"], len(items)
        if k == "subset":
            if sp.get("indices") is not None:
                items = [items[i] for i in sp["indices"]]
            elif sp.get("start_percent") is not None or sp.get("end_percent") is not None:
                a = int((sp.get("start_percent") or 0.) * n)
                b = int((1. if sp.get("end_percent") is None else sp["end_percent"]) * n)
                items = items[a:b]
            else:
                b = n if sp.get("end_index") is None else min(sp["end_index"], n)
                items = items[(sp.get("start_index") or 0):b]
        elif k == "classfilter":
            if sp.get("valid_classes") is not None:
                items = [it for it in items if it[1] in sp["valid_classes"]]
            else:
                items = [it for it in items if it[1] not in sp["invalid_classes"]]
        elif k == "shuffle":
            perm = np.arange(n)
            np.random.default_rng(seed=sp["seed"]).shuffle(perm)
            items = [items[i] for i in perm]
        elif k == "repeat":
            items = items * sp["repetitions"]
        elif k == "clsshift":
            items = [(r, (c + sp["by"]) % case["n_classes"]) for r, c in items]
        elif k == "reverse":
            items = items[::-1]
    return items


def exc_name(e):
    if isinstance(e, AssertionError):
        return "assert"
    if isinstance(e, NotImplementedError):
        return "notimpl"
    if isinstance(e, TypeError):
        return "type"
    return type(e).__name__


def float_sum(ct):
    return (ct["mixup_p"] or 0.) + (ct["cutmix_p"] or 0.)


def ctor_kwargs(ct, seed):
    kw = {k: ct[k] for k in ("mixup_p", "cutmix_p", "mixup_alpha", "cutmix_alpha") if ct.get(k) is not None}
    if ct.get("unify") is not None:
        kw["mixup_unify_shapes_mode"] = ct["unify"]
    kw["seed"] = seed
    return kw


def copy_of(obj, how):
    """the object a user works with after a round trip (DataLoader workers get pickled copies); the property does not speak about
    copying, so a failing copy is not judged: the original object is used"""
    import copy
    import pickle
    try:
        if how == "pickle":
            return pickle.loads(pickle.dumps(obj))
        if how == "deepcopy":
            return copy.deepcopy(obj)
    except Exception:  # noqa
        return obj
    return obj


def run_real(case, req=None):
    """one ModeWrapper request; returns outcome, outputs, the per-call tapes of the judged request, the view of the mixed dataset.
    Optional parts of a case (absent = fresh wrapper directly on the root dataset):
      below    stack of dataset wrappers between the root dataset and the mix wrapper
      sibling  a second mix wrapper with another configuration on the same dataset, created after and used before the judged one
      via      the request is made on a pickled / deep copy of the whole stack
      warm     indices requested on the same object before the judged request
      dtype    float64 samples"""
    import numpy as real_np
    import kappadata.wrappers.sample_wrappers.kd_mix_wrapper as mod
    from kappadata.wrappers.mode_wrapper import ModeWrapper
    req = req or case["req"]
    out = {"calls": []}
    view = dataset_view(case)
    out["view"] = view
    if view is None:
        out["ctor"] = "below-failed"
        return out
    out["xs"] = view["xs"]
    try:
        ds, _ = make_dataset(case)
    except Exception:  # noqa
        out["view"], out["ctor"] = None, "below-failed"
        return out
    try:
        w = mod.KDMixWrapper(dataset=ds, **ctor_kwargs(case["ctor"], case["seed"]))
    except Exception as e:  # noqa
        out["ctor"] = exc_name(e)
        return out
    out["ctor"] = "ok"
    sib = case.get("sibling")
    keep = []
    if sib:
        try:
            w2 = mod.KDMixWrapper(dataset=ds, **ctor_kwargs(sib["ctor"], sib.get("seed")))
            keep.append(w2)
            m2 = ModeWrapper(dataset=w2, mode=sib.get("req", "x class"))
            keep.append(m2[sib.get("idx", 0) % max(len(view["xs"]), 1)])
        except Exception:  # noqa
            pass        # outcome of another input
    try:
        mw = ModeWrapper(dataset=w, mode=req)
    except Exception as e:  # noqa
        out["res"] = exc_name(e)
        return out
    if case.get("via"):
        mw = copy_of(mw, case["via"])
    for wi in case.get("warm") or []:
        try:
            keep.append(mw[wi % max(len(view["xs"]), 1)])
        except Exception:  # noqa
            pass        # outcome of another input
    # every generator created through numpy.random.default_rng during the request is recorded, wherever the call sits (the wrapper
    # module itself, a helper in kappadata.utils, ...)
    saved = real_np.random.default_rng
    calls = out["calls"]

    def rec_default_rng(seed=None, *a, **kw):
        rec = RecRng(saved(seed, *a, **kw))
        calls.append({"seed": None if seed is None else int(seed), "tape": rec.tape})
        return rec
    real_np.random.default_rng = rec_default_rng
    # an unseeded wrapper derives its generator from the global numpy rng: pin it so that a recorded case replays
    real_np.random.seed((case.get("gseed", 0) * 31 + sum(map(ord, req))) % (2 ** 31))
    try:
        res = mw[case["idx"]]
    except Exception as e:  # noqa
        out["res"] = exc_name(e)
        return out
    finally:
        real_np.random.default_rng = saved
    out["res"] = "ok"
    names = req.split(" ")
    vals = list(res) if (len(names) > 1 and isinstance(res, (tuple, list))) else [res]
    out["x"], out["cls"], out["index"] = None, None, None
    out["n_items_ok"] = len(vals) == len(names)
    for nm, v in zip(names, vals):
        if nm == "x":
            out["x"] = v
        elif nm == "class":
            out["cls"] = v
        elif nm == "index":
            out["index"] = v
    return out


# ----------------------------------------------------------------------------------------------
# model request / comparison
# ----------------------------------------------------------------------------------------------
def modelable(case, real):
    """the model is asked when the dataset below the mix could be enumerated, its labels are naturals (stated as such or as one-hot
    vectors) and the index addresses it"""
    view = real.get("view")
    return view is not None and all(c is not None and c >= 0 for c in view["classes"]) and 0 <= case["idx"] < max(len(view["xs"]), 1)


def model_request(case, real):
    ct = case["ctor"]
    view = real["view"]
    return {"op": "mw.get",
            "ctor": {"mixup_p": None if ct.get("mixup_p") is None else rat(ct["mixup_p"]),
                     "cutmix_p": None if ct.get("cutmix_p") is None else rat(ct["cutmix_p"]),
                     "mixup_alpha": None if ct.get("mixup_alpha") is None else rat(ct["mixup_alpha"]),
                     "cutmix_alpha": None if ct.get("cutmix_alpha") is None else rat(ct["cutmix_alpha"]),
                     "unify": ct.get("unify"), "float_sum": rat(float_sum(ct))},
            "ds": {"len": len(view["xs"]), "n_classes": case["n_classes"], "cls": list(view["classes"]),
                   "xs": [{"shape": list(t.shape), "data": [int(v) for v in t.flatten().tolist()]} for t in view["xs"]]},
            "idx": case["idx"], "req": case["req"],
            "tapes": [[{k: v for k, v in d.items() if k != "what"} for d in c["tape"]] for c in real["calls"]]}


def close(a, b, scale=1.0):
    return abs(a - b) <= REL_TOL * max(abs(a), abs(b), scale)


def compare(case, real, model):
    if real.get("ctor") != model.get("ctor"):
        return f"ctor: impl={real.get('ctor')} model={model.get('ctor')}"
    if real.get("ctor") != "ok":
        return None
    if real.get("res") != model.get("res"):
        return f"outcome: impl={real.get('res')} model={model.get('res')}"
    if real.get("res") != "ok":
        return None
    if (real["x"] is None) != (model["x"] is None) or (real["cls"] is None) != (model["cls"] is None):
        return "layout"
    for k in ("x", "cls"):
        if real[k] is not None and not hasattr(real[k], "shape"):
            return f"{k}: impl returns a {type(real[k]).__name__}, not a tensor"
    if real["x"] is not None:
        if list(real["x"].shape) != model["x"]["shape"]:
            return f"x shape: impl={list(real['x'].shape)} model={model['x']['shape']}"
        xmax = max(float(t.abs().max()) for t in real["xs"])
        flat = real["x"].flatten().tolist()
        for o, (p, v) in enumerate(zip(model["x"]["data"], flat)):
            if not close(unrat(p), v, xmax):
                return f"x element {o}: impl={v} model={unrat(p)}"
    if real["cls"] is not None:
        cl = real["cls"].tolist()
        if len(cl) != len(model["cls"]) or not all(close(unrat(p), v) for p, v in zip(model["cls"], cl)):
            return f"label: impl={cl} model={[unrat(p) for p in model['cls']]}"
    return None


# ----------------------------------------------------------------------------------------------
# independent oracle
# ----------------------------------------------------------------------------------------------
def in_domain(case, view):
    if view is None:
        return False
    shapes = [list(t.shape) for t in view["xs"]]
    if len({len(s) for s in shapes}) != 1:
        return False
    if case["ctor"].get("unify") is None and len({tuple(s) for s in shapes}) != 1:
        return False
    if case["ctor"].get("unify") not in (None, "pad_or_cut_end"):
        return False
    return all(v is not None for v in view["labs"]) and 0 <= case["idx"] < len(shapes)


def unify_ref(xi, xj):
    """the property's reading of 'shapes unified as configured' (pad or cut at the end): x_i's shape, x_j's content where
    both overlap, zeros elsewhere"""
    import torch
    u = torch.zeros_like(xi)
    sl = tuple(slice(0, min(a, b)) for a, b in zip(xi.shape, xj.shape))
    u[sl] = xj[sl]
    return u


def explain(case, view, x, cls, cand_xs=None, cand_labs=None):
    """list of (j, lambda) readings under which (x, cls) is the untouched sample / a convex combination of sample idx of the mixed
    dataset with candidate j; j=None = untouched. Candidates: the samples of the mixed dataset (default) or another list (diagnosis).
    The label of a sample is the vector the dataset states for it (e_c for a class c)."""
    import torch
    i = case["idx"]
    diag = cand_xs is not None
    cand_xs = view["xs"] if cand_xs is None else cand_xs
    cand_labs = view["labs"] if cand_labs is None else cand_labs
    xi = view["xs"][i]
    out = []
    li = view["labs"][i]
    if cls is not None:
        cls = cls.to(torch.float32)
    if not diag and (x is None or (list(x.shape) == list(xi.shape) and torch.equal(x, xi))):
        if cls is None or bool(torch.all(torch.abs(cls - li) <= 1e-6)):
            out.append((None, 1.0))
    for j in range(len(cand_xs)):
        lj = cand_labs[j]
        if lj is None or cand_xs[j].ndim != xi.ndim:
            continue
        u = unify_ref(xi, cand_xs[j])
        d = xi - u
        lams = []
        if x is not None:
            if list(x.shape) != list(xi.shape):
                continue
            den = float((d * d).sum())
            if den > 0:
                lams.append(float(((x - u) * d).sum()) / den)
        if cls is not None:
            dl = li - lj
            dden = float((dl * dl).sum())
            if dden > 1e-9:
                lams.append(float(((cls - lj) * dl).sum()) / dden)
        if not lams:
            lams = [0.5]       # x_i = U(x_j) and equal classes: every weight gives the same result
        lam = lams[0]
        if not (-1e-6 <= lam <= 1 + 1e-6):
            continue
        ok = True
        if x is not None:
            scale = torch.maximum(xi.abs(), u.abs())
            ok = ok and bool(torch.all(torch.abs(x - (lam * xi + (1 - lam) * u)) <= REL_TOL * scale + 1e-6))
        if cls is not None:
            ok = ok and bool(torch.all(torch.abs(cls - (lam * li + (1 - lam) * lj)) <= 2e-5))
        if ok:
            out.append((j, lam))
    return out


JOINT = ["x class", "class x", "index x class", "class index x", "x index class", "class x index"]


def check_joint(case, layout, o, tag):
    """the property statement on ONE joint request (image and label returned together), seeded or not:
    untouched sample with its one-hot label, or ONE partner j OF THE MIXED DATASET and ONE weight l explaining both data and label"""
    import torch
    view, x, cls = o["view"], o["x"], o["cls"]
    xi = view["xs"][case["idx"]]
    if not o.get("n_items_ok", True) or not torch.is_tensor(x) or not torch.is_tensor(cls):
        return Failure("mixwrapper:layout", f"request '{layout}' does not return one item per mode entry for {tag}", case, layout, None)
    if "index" in layout.split(" ") and o["index"] != case["idx"]:
        return Failure("mixwrapper:layout", f"request '{layout}' returns index {o['index']} for {tag}", case, case["idx"], o["index"])
    if list(x.shape) != list(xi.shape):
        return Failure("mixwrapper:shape", f"request '{layout}': returned sample has shape {list(x.shape)}, not the shape of sample idx for {tag}", case,
                       list(xi.shape), list(x.shape))
    if cls.ndim != 1 or len(cls) != case["n_classes"] or bool((cls < -1e-6).any()) or abs(float(cls.sum()) - 1) > 2e-5:
        return Failure("mixwrapper:label-simplex", f"request '{layout}': label vector is not a non-negative vector summing to one for {tag}",
                       case, 1.0, cls.tolist())
    if not explain(case, view, x, cls):
        # diagnosis: is it a convex combination with a sample that does not belong to the dataset the wrapper was put on
        # (a sample of the root dataset that the wrappers below filter out / move / change)?
        foreign = explain(case, view, x, cls, view["root_xs"], view["root_labs"])
        if foreign:
            return Failure("mixwrapper:partner-not-in-dataset",
                           f"request '{layout}': result is a convex combination with root sample {foreign[0][0]} (weight {foreign[0][1]:.4f}), which is "
                           f"not a sample of the dataset the wrapper was put on, for {tag}", case,
                           "partner j is a sample of the wrapped dataset (its samples, as root-id-encoded first elements: "
                           f"{[float(t.flatten()[0]) for t in view['xs']]}, classes {view['classes']})",
                           {"layout": layout, "root_sample_(j,l)": foreign[:4], "x_first": x.flatten().tolist()[:4], "label": cls.tolist()})
        xr = explain(case, view, x, None)
        lr = explain(case, view, None, cls)
        return Failure("mixwrapper:not-convex-same-weight",
                       f"request '{layout}': result is neither the untouched sample nor a convex combination with one partner and one weight "
                       f"for data and label for {tag}", case, "x' = l*x_i+(1-l)*U(x_j), label' = l*label_i+(1-l)*label_j (same j, l)",
                       {"layout": layout, "data_alone_(j,l)": xr[:4], "label_alone_(j,l)": lr[:4], "label": cls.tolist()})
    if float_sum(case["ctor"]) == 1.0:
        # probability one: every call must have drawn a partner and a weight (observable on the generator)
        for c in o["calls"]:
            kinds = [d["k"] for d in c["tape"]]
            if len(kinds) < 3:
                return Failure("mixwrapper:p-one-not-mixed", f"request '{layout}': probability-one configuration returned without drawing "
                               f"partner and weight for {tag}", case, ["unif", "int", "beta"], kinds)
    return None


def case_tag(case, view):
    extra = "".join(f" {k}={case[k]}" for k in ("below", "via", "warm", "dtype") if case.get(k))
    if case.get("sibling"):
        extra += " sibling=yes"
    return (f"n={len(view['xs'])} shapes={[list(t.shape) for t in view['xs']]} unify={case['ctor'].get('unify')} p=({case['ctor'].get('mixup_p')},"
            f"{case['ctor'].get('cutmix_p')}) seed={case['seed']} idx={case['idx']}{extra}")


def oracle(case, joint=None):
    """Failure or None; runs the real wrapper for the joint layouts (both orders, with index) and the single-item layouts"""
    import torch
    view = dataset_view(case)
    if not in_domain(case, view):
        return None
    tag = case_tag(case, view)
    # the two orders always, plus two of the index layouts (chosen by the case, all of them when replaying a recorded case)
    k = (case.get("gseed", 0) + case["idx"]) % 2
    layouts = JOINT if case.get("all_layouts") else JOINT[:2] + [JOINT[2 + k], JOINT[4 + k]]
    res = {}
    for lay in layouts:
        o = run_real(case, lay)
        res[lay] = o
        if o.get("ctor") != "ok":
            return None     # rejected constructor call: an outcome, not a violation
        if o.get("res") in ("assert", "notimpl"):
            continue        # deliberate rejections (assert / NotImplementedError for a cutmix draw) are outcomes
        if o.get("res") != "ok":
            # inside the property's domain (valid classes, one rank, equal shapes or the pad/cut mode, index of the dataset) the wrapper
            # "returns for index i ...": an IndexError / TypeError / ... escaping from the request is not a return value
            return Failure("mixwrapper:raises", f"request '{lay}' raises {o.get('res')} instead of returning a sample for {tag}", case,
                           "a sample and its label", o.get("res"))
        f = check_joint(case, lay, o, tag)
        if f is not None:
            return f
    if case["seed"] is not None:
        j = res["x class"]
        if j.get("res") != "ok":
            return None
        x, cls = j["x"], j["cls"]
        for r in layouts[1:] + ["x", "class"]:
            o = res[r] if r in res else run_real(case, r)
            if o.get("ctor") != "ok":
                return None
            if o.get("res") != "ok":
                return Failure("mixwrapper:seeded-requests-differ", f"request '{r}' fails ({o.get('res')}) while 'x class' succeeds for {tag}", case, "ok", o.get("res"))
            for nm, got, ref in (("image", o["x"], x), ("label", o["cls"], cls)):
                if got is None:
                    continue
                if not torch.is_tensor(got) or got.shape != ref.shape or not torch.equal(got, ref):
                    return Failure("mixwrapper:seeded-requests-differ", f"{nm} of request '{r}' differs from the joint request for {tag}", case,
                                   ref.flatten().tolist()[:8], got.flatten().tolist()[:8] if torch.is_tensor(got) else repr(got)[:80])
    return None


# ----------------------------------------------------------------------------------------------
# case generation
# ----------------------------------------------------------------------------------------------
ERR_KINDS = ["noprob", "sum_gt", "alpha_missing", "alpha_extra", "unify_without_mixup", "badunify", "shape_mismatch", "class_oob", "neg"]
MIX_CTORS = [{"mixup_p": 1.0, "cutmix_p": None, "mixup_alpha": 0.8, "cutmix_alpha": None, "unify": None},
             {"mixup_p": 1.0, "cutmix_p": None, "mixup_alpha": 2.0, "cutmix_alpha": None, "unify": "pad_or_cut_end"},
             {"mixup_p": 0.5, "cutmix_p": None, "mixup_alpha": 0.3, "cutmix_alpha": None, "unify": "pad_or_cut_end"},
             {"mixup_p": 0.25, "cutmix_p": 0.25, "mixup_alpha": 1.0, "cutmix_alpha": 1.0, "unify": None},
             {"mixup_p": None, "cutmix_p": 1.0, "mixup_alpha": None, "cutmix_alpha": 0.5, "unify": None}]


X_LAYOUTS = ["permuted", "permuted", "sliced", "sliced", "strided", "offset"]
LABEL_FORMS = [{"w": "labelform", "form": "tensor0"}, {"w": "labelform", "form": "onehot_f32"}, {"w": "labelform", "form": "onehot_f32"},
               {"w": "labelform", "form": "onehot_i64"}, {"w": "labelform", "form": "onehot_f64"}, {"w": "onehot"}, {"w": "onehot"},
               {"w": "smooth", "smoothing": 0.1}, {"w": "smooth", "smoothing": 0.25}]


def gen_below_spec(rng, items, n_classes):
    """one wrapper spec for a dataset that currently has the samples `items` (list of (root id, class))"""
    n = len(items)
    k = rng.choice(["subset_se", "subset_se", "subset_idx", "subset_idx", "subset_pct", "classfilter", "classfilter", "shuffle", "repeat",
                    "xoffset", "clsshift", "reverse"])
    if k == "subset_se":
        a = rng.randint(0, n - 1)
        b = rng.randint(a + 1, n + 1)       # an end beyond the dataset is clipped by the wrapper
        form = rng.randrange(3)
        return {"w": "subset", "start_index": a if form != 1 else None, "end_index": b if form != 0 else None}
    if k == "subset_idx":
        return {"w": "subset", "indices": [rng.randrange(n) for _ in range(rng.randint(1, n + 1))]}
    if k == "subset_pct":
        a, b = sorted([rng.choice([0., 0.25, 0.5, 0.75]), rng.choice([0.5, 0.75, 1.0])])
        form = rng.randrange(3)
        return {"w": "subset", "start_percent": a if form != 1 else None, "end_percent": b if form != 0 else None}
    if k == "classfilter":
        present = sorted({c for _, c in items})
        sel = [c for c in range(n_classes) if rng.random() < 0.5] or [rng.choice(present)]
        return {"w": "classfilter", rng.choice(["valid_classes", "invalid_classes"]): sel}
    if k == "shuffle":
        return {"w": "shuffle", "seed": rng.randint(0, 100)}
    if k == "repeat":
        return {"w": "repeat", "repetitions": rng.randint(2, 3)}
    if k == "xoffset":
        return {"w": "xoffset", "add": rng.choice([64, 128, 200, 300])}
    if k == "clsshift":
        return {"w": "clsshift", "by": rng.randint(1, max(1, n_classes - 1))}
    return {"w": "reverse"}


def decorate(case, rng, comp):
    """the compositions / histories a case is run under (all optional; the property is judged on the dataset below the mix)"""
    if comp:
        below = []
        for _ in range(rng.choice([1, 1, 1, 2, 2, 3])):
            for _try in range(4):
                sp = gen_below_spec(rng, track_below({**case, "below": below}), case["n_classes"])
                if sp is None:
                    continue
                try:
                    ok = 1 <= len(track_below({**case, "below": below + [sp]})) <= 16
                except Exception:  # noqa
                    ok = False
                if ok:
                    below.append(sp)
                    break
        if below:
            case["below"] = below
            case["idx"] = rng.randrange(len(track_below(case)))
    # directly below the mix: the same samples in another memory layout / the same labels in another representation
    top = []
    if rng.random() < 0.14:
        top.append({"w": "xlayout", "how": rng.choice(X_LAYOUTS)})
    if rng.random() < 0.18:
        top.append(dict(rng.choice(LABEL_FORMS)))
        if top[-1]["w"] == "smooth" and case["n_classes"] < 2:
            top[-1] = {"w": "onehot"}       # (the package's smoothing of a one-class dataset is a scalar: no label vector)
    if top:
        rng.shuffle(top)
        case["below"] = list(case.get("below") or []) + top
    r = rng.random()
    if r < 0.08:
        case["via"] = "pickle"
    elif r < 0.14:
        case["via"] = "deepcopy"
    if rng.random() < 0.15:
        case["warm"] = [rng.randrange(16) for _ in range(rng.randint(1, 3))]
        if rng.random() < 0.5:
            case["warm"][-1] = case["idx"]
    if rng.random() < 0.12:
        case["sibling"] = {"ctor": dict(rng.choice(MIX_CTORS)), "seed": rng.choice([None, case["seed"], rng.randint(0, 50)]),
                           "idx": rng.randrange(16), "req": rng.choice(["x class", "x", "class x"])}
    if rng.random() < 0.10:
        case["dtype"] = "float64"
    return case


def gen_case(rng):
    comp = rng.random() < 0.45
    n = rng.randint(2, 8) if comp else rng.randint(1, 5)
    rank = rng.choice([1, 2, 2, 3, 3])
    unify = rng.choice([None, "pad_or_cut_end", "pad_or_cut_end"])
    base = [rng.randint(1, 4) for _ in range(rank)]
    if unify is None:
        shapes = [list(base) for _ in range(n)]
    else:
        shapes = [[rng.randint(1, 4) if rng.random() < 0.7 else b for b in base] for _ in range(n)]
    n_classes = rng.randint(1, 5)
    classes = [rng.randrange(n_classes) for _ in range(n)]
    mp, cp = rng.choice([(1.0, None), (1.0, None), (1.0, 0.0), (0.5, None), (0.25, None), (0.5, 0.25), (0.75, 0.25), (None, 0.5), (0.0, 1.0)])
    ct = {"mixup_p": mp, "cutmix_p": cp, "mixup_alpha": rng.choice([0.8, 1.0, 0.3, 2.0]) if mp else None,
          "cutmix_alpha": rng.choice([1.0, 0.5]) if cp else None, "unify": unify if mp else None}
    case = {"shapes": shapes, "classes": classes, "n_classes": n_classes, "ctor": ct,
            "seed": rng.choice([None, None, rng.randint(0, 10 ** 6), rng.randint(0, 50), rng.randint(0, 50)]),
            "gseed": rng.randint(0, 10 ** 6), "idx": rng.randrange(n), "req": rng.choice(REQS + ["class x"])}
    r = rng.random()
    if r < 0.10:
        k = rng.choice(ERR_KINDS)
        if k == "noprob":
            ct.update(mixup_p=None, cutmix_p=None, mixup_alpha=None, cutmix_alpha=None, unify=None)
        elif k == "sum_gt":
            ct.update(mixup_p=0.75, cutmix_p=0.5, mixup_alpha=0.8, cutmix_alpha=1.0)
        elif k == "alpha_missing":
            ct.update(mixup_p=0.5, cutmix_p=None, mixup_alpha=None, cutmix_alpha=None)
        elif k == "alpha_extra":
            ct.update(mixup_p=1.0, cutmix_p=None, mixup_alpha=0.8, cutmix_alpha=1.0)
        elif k == "unify_without_mixup":
            ct.update(mixup_p=None, cutmix_p=1.0, mixup_alpha=None, cutmix_alpha=1.0, unify="pad_or_cut_end")
        elif k == "badunify":
            ct.update(mixup_p=1.0, cutmix_p=None, mixup_alpha=0.8, cutmix_alpha=None, unify="pad_front")
        elif k == "shape_mismatch":
            ct.update(mixup_p=1.0, cutmix_p=None, mixup_alpha=0.8, cutmix_alpha=None, unify=None)
            case["shapes"] = [[rng.randint(1, 3) for _ in range(rank)] for _ in range(n)]
        elif k == "class_oob":
            case["classes"][rng.randrange(n)] = n_classes
        elif k == "neg":
            ct.update(mixup_p=-0.5, cutmix_p=1.0, mixup_alpha=0.8, cutmix_alpha=1.0)
    return decorate(case, rng, comp)


def structured_cases():
    """every pair of 2-d extents in 1..3 for (sample, partner) with the pad/cut mode, both orders of the pair, p = 1"""
    out = []
    seed = 0
    ext = [1, 2, 3]
    for a0 in ext:
        for a1 in ext:
            for b0 in ext:
                for b1 in ext:
                    seed += 1
                    out.append({"shapes": [[a0, a1], [b0, b1]], "classes": [0, 1], "n_classes": 2 + seed % 2,
                                "ctor": {"mixup_p": 1.0, "cutmix_p": None, "mixup_alpha": 0.8, "cutmix_alpha": None, "unify": "pad_or_cut_end"},
                                "seed": None if seed % 3 == 0 else seed, "gseed": seed, "idx": seed % 2, "req": REQS[seed % 4]})
    for r3 in ([2, 1, 3], [1, 3, 2], [3, 2, 1]):
        for q3 in ([1, 2, 2], [3, 3, 3], [2, 1, 1]):
            seed += 1
            out.append({"shapes": [r3, q3, [2, 2, 2]], "classes": [0, 1, 2], "n_classes": 3,
                        "ctor": {"mixup_p": 1.0, "cutmix_p": None, "mixup_alpha": 1.0, "cutmix_alpha": None, "unify": "pad_or_cut_end"},
                        "seed": seed, "idx": seed % 3, "req": REQS[seed % 4]})
    return out + structured_compositions()


BELOW_STACKS = [
    [{"w": "subset", "start_index": 4}],
    [{"w": "subset", "end_index": 3}],
    [{"w": "subset", "indices": [7, 2, 5, 5, 6]}],
    [{"w": "subset", "start_percent": 0.5}],
    [{"w": "classfilter", "valid_classes": [1, 3]}],
    [{"w": "classfilter", "invalid_classes": [0]}],
    [{"w": "shuffle", "seed": 3}],
    [{"w": "repeat", "repetitions": 2}],
    [{"w": "xoffset", "add": 200}],
    [{"w": "clsshift", "by": 1}],
    [{"w": "reverse"}],
    [{"w": "shuffle", "seed": 1}, {"w": "subset", "end_index": 4}],
    [{"w": "classfilter", "valid_classes": [0, 2]}, {"w": "repeat", "repetitions": 2}],
    [{"w": "subset", "start_index": 2}, {"w": "reverse"}, {"w": "xoffset", "add": 64}],
]


def structured_compositions():
    """the mix wrapper on top of every kind of wrapper stack (root of 8 samples, 4 classes), p = 1, every third index, seeded and not;
    plus the history variants (copy, warm-up, sibling, float64) on the plain root dataset"""
    out = []
    seed = 100
    for st in BELOW_STACKS:
        base = {"shapes": [[2, 3]] * 8, "classes": [r % 4 for r in range(8)], "n_classes": 4, "below": st}
        n = len(track_below(base))
        for idx in range(0, n, 3):
            seed += 1
            out.append({**base, "ctor": {"mixup_p": 1.0, "cutmix_p": None, "mixup_alpha": 0.8, "cutmix_alpha": None, "unify": None},
                        "seed": None if seed % 4 == 0 else seed, "gseed": seed, "idx": idx, "req": REQS[seed % 4]})
    shapes = [[2, 3], [3, 2], [1, 4], [2, 2]]
    for extra in ({"via": "pickle"}, {"via": "deepcopy"}, {"warm": [1]}, {"warm": [0, 2, 1]}, {"dtype": "float64"},
                  {"sibling": {"ctor": MIX_CTORS[2], "seed": 7, "idx": 1, "req": "x class"}},
                  {"sibling": {"ctor": MIX_CTORS[4], "seed": None, "idx": 0, "req": "x"}},
                  {"below": [{"w": "subset", "start_index": 1}], "via": "pickle", "warm": [0]}):
        for idx in range(3):
            seed += 1
            out.append({"shapes": shapes, "classes": [0, 1, 2, 1], "n_classes": 3,
                        "ctor": {"mixup_p": 1.0, "cutmix_p": None, "mixup_alpha": 1.0, "cutmix_alpha": None, "unify": "pad_or_cut_end"},
                        "seed": None if seed % 3 == 0 else seed, "gseed": seed, "idx": idx, "req": REQS[seed % 4], **extra})
    # memory layouts of the samples (rank 1..3, equal shapes and pad/cut) and label representations; the label block uses datasets of
    # one and two samples so that the drawn partner is often the sample itself
    mix1 = {"mixup_p": 1.0, "cutmix_p": None, "mixup_alpha": 0.8, "cutmix_alpha": None, "unify": None}
    for how in ("permuted", "sliced", "strided", "offset"):
        for shapes, unify in (([[3, 2, 4]] * 3, None), ([[2, 3]] * 3, None), ([[5]] * 3, None), ([[2, 3, 2], [3, 2, 2], [2, 2, 3]], "pad_or_cut_end")):
            for idx in range(3):
                seed += 1
                out.append({"shapes": shapes, "classes": [0, 1, 2], "n_classes": 3, "ctor": {**mix1, "unify": unify},
                            "seed": None if seed % 3 == 0 else seed, "gseed": seed, "idx": idx, "req": REQS[seed % 4],
                            "below": [{"w": "xlayout", "how": how}]})
    for form in LABEL_FORMS[:2] + LABEL_FORMS[3:6] + LABEL_FORMS[7:8]:
        for n in (1, 2, 2):
            seed += 1
            out.append({"shapes": [[2, 2]] * n, "classes": [1, 2][:n], "n_classes": 3, "ctor": dict(mix1),
                        "seed": None if seed % 3 == 0 else seed, "gseed": seed, "idx": seed % n, "req": REQS[seed % 4], "below": [dict(form)]})
    return out


def signature(case, real):
    i = case["idx"]
    kinds = tuple(tuple(d["k"] for d in c["tape"]) for c in real.get("calls", []))
    partner = None
    view = real.get("view")
    if view is not None and kinds and len(kinds[-1]) >= 2 and 0 <= i < len(view["xs"]):
        d = real["calls"][-1]["tape"][1]
        j = d.get("v") if d.get("k") == "int" else None
        if isinstance(j, int) and 0 <= j < len(view["xs"]):
            partner = tuple("=" if a == b else ("<" if a < b else ">") for a, b in zip(view["xs"][i].shape, view["xs"][j].shape))
    below = tuple(sp["w"] + str(sp.get("how") or sp.get("form") or "") for sp in case.get("below") or [])
    return (len(case["shapes"][0]), case["ctor"].get("unify"), str(case["ctor"].get("mixup_p")), str(case["ctor"].get("cutmix_p")),
            case["seed"] is None, case["req"], real.get("ctor"), real.get("res"), kinds, partner,
            below, case.get("via"), bool(case.get("warm")), bool(case.get("sibling")), case.get("dtype"))


class C11(PropertyCheck):
    pid = "C11"
    claimed = True
    props_modules = ["KDVerif.Props.C11"]
    extra_build = ["KDVerif.Driver.MixWrapper"]
    driver_main = "mains/MixWrapper.lean"
    anchored = ["kappadata/wrappers/sample_wrappers/kd_mix_wrapper.py", "kappadata/utils/one_hot.py", "kappadata/wrappers/mode_wrapper.py"]
    assumptions = [
        "np.random.default_rng(s) is a function of s; Generator contract: random() in [0,1), integers(n) in [0,n), beta(a,a) in [0,1] "
        "(hypothesis TapeOk; tapes recorded per getitem_xclass call by replacing the module's `np` name with a recording proxy)",
        "reals over Rat; float32 rounding covered by the 1e-5 tolerance (relative to the operand scale) of the correspondence",
        "torch.nn.functional.pad(constant) reads its pad list as [left_last, right_last, left_prev, right_prev, ...]; index_select(dim, arange(m)) keeps "
        "the first m entries; one_hot raises RuntimeError for a class >= num_classes; the wrapped dataset hands out fresh tensors (clone)",
        "ModeWrapper's call plan for the four layouts (fused x+class) is modelled as modeGet and tied by the correspondence (the plan itself is C01's subject)",
    ]
    trusted_extra = [
        "modelled by hand: KDMixWrapper.__init__ (argument checks), getitem_xclass (draw order, early return, cutmix NotImplementedError, "
        "shape assertion / pad_or_cut_end loop incl. the paddings list, mixup), getitem_x / getitem_class / fused plan, to_one_hot_vector on ints (labels stated as 0-dim tensors / one-hot vectors are decoded to their class for the model; "
        "smoothed label vectors are judged by the oracle only)",
        "not modelled: Beta sampler, float32 rounding, in-place mutation of tensors returned by a non-cloning dataset, tensors of different rank",
    ]
    technique = "Lean 4 proof over hand model + differential correspondence on id-encoded datasets + independent decoding oracle"
    design_ref = "DESIGN.md 3 (C11)"
    level_text = ("Lean theorems (KDVerif.Props.C11) for every dataset, rank, shape pair, configuration, index and tape: the pad/cut loop of the code equals the "
                  "closed form and yields exactly x's shape (x2's content inside both extents, zeros elsewhere); every successful call is either the untouched "
                  "sample with a one-hot label or lam*x_i+(1-lam)*unify(x_j) with label lam*e_ci+(1-lam)*e_cj for the same drawn j and lam; labels are on the "
                  "simplex; total_p = 1 always mixes; with one tape per index the four request layouts return the components of the same call. "
                  "Model tied to the code by per-run correspondence with the recorded per-call tapes.")
    level_note = ("trusted: Lean kernel + standard axioms; correspondence harness; numpy/torch contracts named in assumptions; the seeded-agreement theorem is "
                  "about the model's call plan (same tape for every call), the real plan is checked by the oracle on all four layouts")

    def cases(self):
        corpus = []
        cdir = CORPUS_DIR / "mixwrapper"
        if cdir.exists():
            for p in sorted(cdir.glob("*.json")):
                corpus.append(json.loads(p.read_text()))
        st = structured_cases()
        n_rand = 1500 if self.tier == "quick" else 40000
        rnd = [gen_case(self.rng) for _ in range(n_rand)]
        return corpus + st + rnd, len(corpus), len(st)

    def correspond(self):
        res = CorrResult()
        cases, ncorp, nst = self.cases()
        res.rule = (f"{ncorp} corpus + {nst} structured cases (all 2-d extent pairs in 1..3 for sample/partner with pad_or_cut_end, 3-d triples) + seeded random "
                    "datasets (1..5 samples, rank 1..3, extents 1..4, 1..5 classes, p splits incl. cutmix, unify None/pad_or_cut_end, seeds incl. None, "
                    "4 request layouts in the correspondence, 4 joint layouts (both orders, with index) + single-item layouts in the oracle, rejected constructor calls / shape mismatch / class out of range); "
                    "45% of the random cases and a structured block put the mix wrapper on a stack of 1..3 dataset wrappers (SubsetWrapper by start/end/indices/percent, "
                    "ClassFilterWrapper, ShuffleWrapper, RepeatWrapper, and test doubles that change content / labels / order) -- model and oracle see the "
                    "dataset BELOW the mix by enumerating it; shares of the cases run the request on a pickled / deep copy, after warm-up requests on the same object, "
                    "next to a second mix wrapper with another configuration on the same dataset, on float64 samples, on samples handed out as non-contiguous / offset views "
                    "(permuted, column slice of a wider buffer, strided, storage offset) and on labels stated as 0-dim tensor / one-hot vector (float32, float64, int64, package OneHotWrapper) / smoothed vector "
                    "(package LabelSmoothingWrapper; oracle only), incl. one- and two-sample datasets where the partner is the sample itself; distinct = (rank, unify, split, seeded?, layout, "
                    "outcome, draw kinds per call, per-dimension pad/cut/equal pattern of the drawn partner, wrapper kinds below, copy kind, warm-up?, sibling?, dtype)")
        res.exhaustive = False
        reals, reqs = [], []
        for case in cases:
            real = run_real(case)
            reals.append(real)
            if modelable(case, real):
                reqs.append(model_request(case, real))
        answers = iter(self.driver.run(reqs))
        for case, real in zip(cases, reals):
            res.cases += 1
            for k in ("via", "dtype"):
                if case.get(k):
                    res.bump(f"{k}={case[k]}")
            res.bump("below=" + "+".join(sp["w"] for sp in case.get("below") or []) if len(case.get("below") or []) < 2
                     else f"below={len(case['below'])} wrappers")
            for sp in case.get("below") or []:
                if sp["w"] in ("xlayout", "labelform", "onehot", "smooth"):
                    res.bump(f"directly below the mix: {sp['w']} {sp.get('how') or sp.get('form') or ''}".rstrip())
            if case.get("warm"):
                res.bump("warm-up requests")
            if case.get("sibling"):
                res.bump("sibling wrapper")
            if not modelable(case, real):
                res.bump("not-modelled (dataset below the mix not enumerable / index outside)")
                continue
            model = next(answers)
            res.nontrivial.add(signature(case, real))
            res.bump(f"ctor={real.get('ctor')}")
            res.bump(f"res={real.get('res')}")
            res.bump(f"req={case['req']}")
            res.bump(f"unify={case['ctor'].get('unify')}")
            res.bump(f"calls={len(real.get('calls', []))}")
            if real.get("calls"):
                res.bump(f"draws={len(real['calls'][-1]['tape'])}")
            if "error" in model:
                raise RuntimeError(f"lean driver: {model['error']}")
            diff = compare(case, real, model)
            if diff is not None and len(res.disagreements) < 50:
                res.disagreements.append(Disagreement(case, {k: model.get(k) for k in ("ctor", "res")}, {k: real.get(k) for k in ("ctor", "res")}, diff))
            f = oracle(case)
            if f is not None and len(res.failures) < 50:
                if not any(g.key == f.key for g in res.failures) or len(res.failures) < 5:
                    res.failures.append(f)
            if len(res.samples) < 3 and real.get("res") == "ok" and real.get("calls") and len(real["calls"][-1]["tape"]) == 3 \
                    and case["ctor"].get("unify") and real["x"] is not None:
                res.samples.append({"case": case, "tapes": [[d["k"] for d in c["tape"]] for c in real["calls"]],
                                    "x_shape": list(real["x"].shape), "label": None if real["cls"] is None else real["cls"].tolist()})
        res.failures.sort(key=lambda f: len(json.dumps(f.input)))
        return res

    def replay_input(self, inp):
        return oracle(inp)

    def search(self, budget_s, hints):
        t0 = time.time()
        out = []
        for h in hints:
            f = oracle(h)
            if f:
                out.append(f)
        for c in structured_cases():
            if out or time.time() - t0 > budget_s:
                break
            f = oracle(c)
            if f:
                out.append(f)
        rng = random.Random(self.seed + 1111)
        while not out and time.time() - t0 < budget_s:
            f = oracle(gen_case(rng))
            if f:
                out.append(f)
        return out
