"""C03 — dataset-manipulation wrappers select exactly the promised samples.

case generator, real-code runner (recording RNG proxy, 2 s alarm), float front end for the Lean model,
independent property oracle (incl. pair-wise partition check and seed-purity probe), PropertyCheck subclass.

Besides the plain case (wrapper built on a fresh root dataset) a case may carry a SCENARIO (all optional keys of the case dict,
all replayable from the dict alone):
  root    data types of the root dataset: labels as numpy ints / 0-dim tensors, bulk accessor getall_class (list / numpy / tensor)
  below   the wrapper under test is built on a stack of other wrappers of the package (composition of two features)
  hist    other instances (same or other wrapper classes, a class-balanced sampler) were constructed before on the same root / on a
          level of the stack / on another root of the same size that is still alive or already gone / with the very same argument objects
  kwtype  argument data types other than list / float / int (tuple, numpy, torch)
  copy    the constructed (and used) wrapper is pickled / deep-copied (alone, below another wrapper, inside a ModeWrapper) and the COPY
          is judged as well
Every scenario is judged by the property statement alone: the dataset the wrapper was built on is read item-wise (ids, classes), and
the wrapper must select from THAT sequence what it promises; a copy must expose what the original exposes.
"""
import copy as _copy
import itertools
import json
import math
import pickle
import random
import signal
import time
import zlib
from fractions import Fraction
from pathlib import Path

from .common import CorrResult, Disagreement, Failure, PropertyCheck, CORPUS_DIR

ALARM_S = 2.0


# ----------------------------------------------------------------------------------------------
# real code runner
# ----------------------------------------------------------------------------------------------
def _wrappers():
    from kappadata.wrappers.dataset_wrappers.class_filter_wrapper import ClassFilterWrapper
    from kappadata.wrappers.dataset_wrappers.percent_filter_wrapper import PercentFilterWrapper
    from kappadata.wrappers.dataset_wrappers.subset_wrapper import SubsetWrapper
    from kappadata.wrappers.dataset_wrappers.shuffle_wrapper import ShuffleWrapper
    from kappadata.wrappers.dataset_wrappers.repeat_wrapper import RepeatWrapper
    from kappadata.wrappers.dataset_wrappers.oversampling_wrapper import OversamplingWrapper
    from kappadata.wrappers.dataset_wrappers.sort_by_class_wrapper import SortByClassWrapper
    from kappadata.wrappers.dataset_wrappers.intra_class_shuffle_wrapper import IntraClassShuffleWrapper
    from kappadata.wrappers.dataset_wrappers.fewshot_wrapper import FewshotWrapper
    from kappadata.wrappers.dataset_wrappers.classwise_subset_wrapper import ClasswiseSubsetWrapper
    return {
        "class_filter": ClassFilterWrapper, "percent_filter": PercentFilterWrapper, "subset": SubsetWrapper,
        "shuffle": ShuffleWrapper, "repeat": RepeatWrapper, "oversampling": OversamplingWrapper,
        "sort_by_class": SortByClassWrapper, "intra_class_shuffle": IntraClassShuffleWrapper,
        "fewshot": FewshotWrapper, "classwise_subset": ClasswiseSubsetWrapper,
    }


_W = None
_DSC = None


def wrappers():
    global _W
    if _W is None:
        _W = _wrappers()
    return _W


ROOT_KINDS = ("item", "npint", "tensor", "bulk_list", "bulk_np", "bulk_tensor")


def _root_classes():
    """root dataset classes; registered as module attributes so that instances can be pickled"""
    global _DSC
    if _DSC is None:
        from kappadata.datasets.kd_dataset import KDDataset

        class _RootDS(KDDataset):
            def __init__(self, classes, n_classes, kind="item"):
                super().__init__()
                self.classes = list(classes)
                self.n_classes = n_classes
                self.kind = kind
                self.ids = range(len(self.classes))

            def __len__(self):
                return len(self.classes)

            def getitem_x(self, idx, ctx=None):
                return self.ids[idx]

            def getitem_class(self, idx, ctx=None):
                c = self.classes[idx]
                if self.kind == "npint":
                    import numpy as np
                    return np.int64(c)
                if self.kind == "tensor":
                    import torch
                    return torch.tensor(c)
                return c

            def getshape_class(self):
                return (self.n_classes,)

        class _RootBulkDS(_RootDS):
            def getall_class(self):
                if self.kind == "bulk_np":
                    import numpy as np
                    return np.array(self.classes, dtype=np.int64)
                if self.kind == "bulk_tensor":
                    import torch
                    return torch.tensor(self.classes, dtype=torch.long)
                return list(self.classes)

        for c in (_RootDS, _RootBulkDS):
            c.__module__ = __name__
            c.__qualname__ = c.__name__
            globals()[c.__name__] = c
        _DSC = (_RootDS, _RootBulkDS)
    return _DSC


def make_ds(cls, nc, kind="item"):
    """base dataset: sample i has the unique id i (`getitem_x`) and the class cls[i]; getdim_class() == nc.
    kind: how the labels are handed out (python int / numpy int / 0-dim tensor item-wise; bulk_*: additionally all at once)"""
    plain, bulk = _root_classes()
    return (bulk if kind.startswith("bulk") else plain)(cls, nc, kind)


class _Timeout(BaseException):
    pass


def _on_alarm(signum, frame):
    raise _Timeout()


class _Alarm:
    """constructor under an interval timer: non-termination becomes the observation 'timeout'
    (the handler is installed once per process; only the timer is armed / disarmed per use)"""
    budget = ALARM_S
    seen = 0
    installed = False

    def __enter__(self):
        if not _Alarm.installed:
            signal.signal(signal.SIGALRM, _on_alarm)
            _Alarm.installed = True
        signal.setitimer(signal.ITIMER_REAL, _Alarm.budget)

    def __exit__(self, et, ev, tb):
        signal.setitimer(signal.ITIMER_REAL, 0)
        if et is _Timeout:
            _Alarm.seen += 1
            if _Alarm.seen >= 3:
                _Alarm.budget = 0.25     # the first three timeouts got the full 2 s; keep the sweep finite afterwards
        return False


def _positions(before, after):
    """positions p with after[j] == before[p[j]] (entries are distinct)"""
    where = {v: i for i, v in enumerate(before)}
    return [where[v] for v in after]


class RecRng:
    """duck-typed recording proxy around a real numpy Generator: every draw is appended to `tape`"""

    def __init__(self, real, tape):
        self._real, self._tape = real, tape

    def shuffle(self, x, *a, **k):
        before = [int(v) for v in x]
        self._real.shuffle(x, *a, **k)
        self._tape.append(_positions(before, [int(v) for v in x]))

    def permutation(self, x, *a, **k):
        import numpy as np
        if isinstance(x, (int, np.integer)):
            out = self._real.permutation(x, *a, **k)
            self._tape.append([int(v) for v in out])
            return out
        arr = np.asarray(x)
        out = self._real.permutation(arr, *a, **k)
        self._tape.append(_positions([int(v) for v in arr], [int(v) for v in out]))
        return out

    def __getattr__(self, name):
        self._tape.append({"unmodelled_draw": name})
        return getattr(self._real, name)


def _exc_kind(e):
    if isinstance(e, AssertionError):
        return "assert"
    if isinstance(e, NotImplementedError):
        return "notimpl"
    if isinstance(e, RuntimeError):
        return "runtime"
    if isinstance(e, ValueError):
        return "value"
    if isinstance(e, AttributeError):
        return "attr"
    if isinstance(e, IndexError):
        return "index"
    return "exc:" + type(e).__name__


def _view_after_root_use(case, W, kw):
    """history: the same wrapper class was constructed on the ROOT dataset object before (a train/valid split, another view);
    the wrapper under test is then built on a view of that root (SubsetWrapper) whose samples are exactly the case's --
    the selection is promised to be a function of the constructor arguments and seed only"""
    from kappadata.wrappers.dataset_wrappers.subset_wrapper import SubsetWrapper
    cls, nc = list(case["cls"]), case["nc"]
    n = len(cls)
    extra = [(2 * k + 1) % max(nc, 1) for k in range(n + 2)]
    root = make_ds(extra + cls[::-1], nc)
    root.ids = [1000 + k for k in range(len(extra))] + [n - 1 - j for j in range(n)]
    try:
        with _Alarm():
            W(root, **kw)
    except (Exception, _Timeout):
        pass
    return SubsetWrapper(root, indices=[len(extra) + n - 1 - i for i in range(n)])


# ---- scenarios: data types, stacks, histories, copies ------------------------------------------------
SCENARIO_KEYS = ("root", "below", "hist", "kwtype", "copy")
COPY_KINDS = ("pickle", "deepcopy", "pickle_below_subset", "pickle_in_mode_wrapper", "deepcopy_below_wrapper", "pickle_twice",
              "pickle_below_wrapper", "pickle_fresh", "deepcopy_fresh")
# *_fresh: the copy is made (and read) BEFORE the constructed wrapper is read for the first time; all others: after it was read


class _BelowFailed(Exception):
    """a layer BELOW the wrapper under test could not be built: the case is not judged"""


def typed_kw(w, kw, kwtype):
    """the constructor arguments in another data type (the values are those of case['kw']): tuples instead of lists; numpy index arrays,
    numpy floats (only where the code's rounding expression is the same in float64) and numpy int seeds; torch index tensors"""
    if not kwtype:
        return dict(kw)
    out = {}
    for k, v in kw.items():
        if kwtype == "tuple":
            if isinstance(v, list):
                v = tuple(v)
        elif kwtype == "np":
            import numpy as np
            if k == "indices" and isinstance(v, list):
                v = np.array(v, dtype=np.int64)
            elif isinstance(v, float) and w in ("percent_filter", "subset"):
                v = np.float64(v)
            elif k == "seed" and isinstance(v, int) and not isinstance(v, bool):
                v = np.int64(v)
        elif kwtype == "torch":
            import torch
            if k == "indices" and isinstance(v, list):
                v = torch.tensor(v, dtype=torch.long)
        out[k] = v
    return out


def _build_layer(layer, ds):
    """one wrapper of the stack below the wrapper under test (`perm`/`reverse`: explicit index lists derived from the length)"""
    w = layer["w"]
    if w == "identity":
        from kappadata.datasets.kd_wrapper import KDWrapper
        return KDWrapper(ds)
    kw = dict(layer.get("kw", {}))
    if "perm_seed" in layer:
        idx = list(range(len(ds)))
        random.Random(layer["perm_seed"]).shuffle(idx)
        kw["indices"] = idx
    elif layer.get("reverse"):
        kw["indices"] = list(range(len(ds)))[::-1]
    return wrappers()[w](ds, **typed_kw(w, kw, layer.get("kwtype")))


def _run_hist(h, ds, W, kw, alive):
    """another user of the dataset `ds` that came first (it stays alive); whatever it raises is its own business"""
    try:
        with _Alarm():
            if h["w"] == "sampler":
                from kappadata.samplers.class_balanced_sampler import ClassBalancedSampler
                obj = ClassBalancedSampler(ds, **h.get("kw", {}))
            elif h["w"] == "same":
                obj = W(ds, **(kw if h.get("shared") else dict(h.get("kw", kw))))
            else:
                obj = _build_layer(h, ds)
            if h.get("use"):
                [obj.getitem_class(i) for i in range(len(obj))]
            alive.append(obj)
    except (Exception, _Timeout):
        pass


def _other_root(case):
    cls = list(case["cls"])
    return make_ds(cls[1:] + cls[:1], case["nc"], case.get("root", "item"))


def construct(case, tape=None, seeds=None, info=None):
    """build the real wrapper for a case (RNG recorded when tape is a list); info (a dict) receives `base`: the dataset the wrapper
    under test was built on, and `alive`: the other users of the datasets"""
    import numpy as np
    W = wrappers()[case["w"]]
    kw = typed_kw(case["w"], case["kw"], case.get("kwtype"))
    alive = []
    hist, below = case.get("hist", ()), case.get("below", ())
    for h in hist:
        if h["at"] in ("other", "gone"):
            other = _other_root(case)
            _run_hist(h, other, W, kw, alive)
            if h["at"] == "gone":
                alive.clear()
                del other
            else:
                alive.append(other)
    ds = _view_after_root_use(case, W, kw) if case.get("view") else make_ds(case["cls"], case["nc"], case.get("root", "item"))
    for k in range(len(below) + 1):
        for h in hist:
            if h["at"] == k:
                _run_hist(h, ds, W, kw, alive)
        if k < len(below):
            try:
                with _Alarm():
                    ds = _build_layer(below[k], ds)
            except _Timeout:
                raise _BelowFailed("timeout")
            except Exception as e:
                raise _BelowFailed(_exc_kind(e))
    if info is not None:
        info["alive"] = alive
        if below:
            # what the wrapper under test is given: read item-wise BEFORE it is built
            try:
                m = len(ds)
                info["base"] = {"ids": [int(ds.getitem_x(i)) for i in range(m)], "classes": [int(ds.getitem_class(i)) for i in range(m)]}
            except Exception as e:
                raise _BelowFailed(_exc_kind(e))
    if tape is None:
        with _Alarm():
            return W(ds, **kw)
    real_default_rng = np.random.default_rng
    real_shuffle = np.random.shuffle

    def rec_default_rng(seed=None, *a, **k):
        seeds.append(int(seed) if isinstance(seed, np.integer) else seed)
        return RecRng(real_default_rng(seed, *a, **k), tape)

    def rec_global_shuffle(x):
        before = [int(v) for v in x]
        real_shuffle(x)
        tape.append(_positions(before, [int(v) for v in x]))
        seeds.append("global")

    # (same effect as mock.patch on the two names, without its per-use name resolution)
    np.random.default_rng, np.random.shuffle = rec_default_rng, rec_global_shuffle
    try:
        with _Alarm():
            return W(ds, **kw)
    finally:
        np.random.default_rng, np.random.shuffle = real_default_rng, real_shuffle


def observe(w):
    n = len(w)
    return {"out": "ok", "indices": [int(i) for i in w.indices], "len": n,
            "ids": [int(w.getitem_x(i)) for i in range(n)],
            "classes": [int(w.getitem_class(i)) for i in range(n)]}


def _carrier(w, kind):
    """the object that holds the wrapper while it is copied (another subset / a plain wrapper / a ModeWrapper on top of it);
    a carrier that cannot be built on this wrapper is left out (the wrapper is then copied alone)"""
    try:
        if kind == "pickle_below_subset":
            from kappadata.datasets.kd_subset import KDSubset
            return KDSubset(w, list(range(len(w))))
        if kind == "pickle_in_mode_wrapper":
            from kappadata.wrappers.mode_wrapper import ModeWrapper
            return ModeWrapper(w, mode="x class")
        if kind in ("deepcopy_below_wrapper", "pickle_below_wrapper"):
            from kappadata.datasets.kd_wrapper import KDWrapper
            return KDWrapper(w)
    except Exception:
        pass
    return None


def make_copy(w, kind):
    """a copy of the wrapper made by python's standard protocols (what a spawned dataloader worker / torch.save / copy.deepcopy get)"""
    if kind == "pickle_twice":
        return pickle.loads(pickle.dumps(pickle.loads(pickle.dumps(w, protocol=2))))
    if kind not in COPY_KINDS:
        raise KeyError(kind)
    car = _carrier(w, kind)
    dup = _copy.deepcopy if kind.startswith("deepcopy") else (lambda o: pickle.loads(pickle.dumps(o)))
    if car is None:
        return dup(w)
    return dup(car).dataset


def _observe_or_kind(fn):
    try:
        with _Alarm():
            return observe(fn())
    except _Timeout:
        return {"out": "timeout"}
    except Exception as e:
        return {"out": _exc_kind(e)}


def run_real(case, record=True):
    """out/indices/len/ids/classes describe the FINAL object (the copy when the case asks for one; `orig` / `after` then hold what the
    constructed wrapper exposed before / after it was copied); `base`: what the dataset below exposes (stacks only)"""
    tape, seeds, info = [], [], {}
    r = {}
    cp = case.get("copy")
    fresh = None
    try:
        w = construct(case, tape if record else None, seeds, info)
        if cp and cp.endswith("_fresh"):
            fresh = _observe_or_kind(lambda: make_copy(w, cp))
        r = observe(w)
    except _Timeout:
        r = {"out": "timeout"}
    except _BelowFailed as e:
        r = {"out": "below:" + str(e)}
    except Exception as e:   # outcome, compared with the model's error kind
        r = {"out": _exc_kind(e)}
    if r["out"] == "ok" and cp:
        orig = r
        r = fresh if fresh is not None else _observe_or_kind(lambda: make_copy(w, cp))
        r["orig"] = orig
        r["after"] = _observe_or_kind(lambda: w)
    if "base" in info:
        r["base"] = info["base"]
    r["tape"], r["seeds"] = tape, seeds
    return r


def is_scenario(case):
    return any(case.get(k) for k in SCENARIO_KEYS)


def virtual(case, real):
    """the case as the property statement sees it: the wrapper under test on a dataset with the class sequence that the dataset below
    it exposes; `ids` become positions in that sequence. None: a layer below could not be built (not judged)"""
    if real["out"].startswith("below:"):
        return None
    base = real.get("base")
    if base is None:
        return case, real
    vcase = {"w": case["w"], "cls": list(base["classes"]), "nc": case["nc"], "kw": case["kw"]}
    if real["out"] != "ok":
        return vcase, real
    m = len(base["classes"])
    vreal = dict(real, ids=[(i % m if m else i) for i in real["indices"]], xids=real["ids"])
    return vcase, vreal


# ----------------------------------------------------------------------------------------------
# float front end (the very expressions of the code) + translation of a case into a Lean request
# ----------------------------------------------------------------------------------------------
def rat(p):
    if p is None:
        return None
    f = Fraction(p)
    return [f.numerator, f.denominator]


def _in01(p):
    return p is not None and 0 <= p <= 1


def cut_rows(ps, ns, fn):
    rows = []
    for p in ps:
        if not _in01(p):
            continue
        f = Fraction(p)
        for n in ns:
            rows.append([f.numerator, f.denominator, n, int(fn(p, n))])
    return rows


def cutF(p, n):
    return int(p * n)                         # percent_filter (floor mode), subset_wrapper


def cutC(p, n):
    import numpy as np
    return int(np.ceil(p * n))                # percent_filter (ceil mode): np.arange takes the float


def cutT(p, k):
    import torch
    return int(p * torch.tensor(k, dtype=torch.long))   # classwise_subset: counts[i] is a 0-dim long tensor


def counts_len(nc):
    return 2 if nc == 1 else nc


def lean_request(case, real):
    w, kw, cls, nc = case["w"], case["kw"], case["cls"], case["nc"]
    n = len(cls)
    tape = real.get("tape", [])
    clean_tape = [t if isinstance(t, list) else [] for t in tape]
    if w == "class_filter":
        return {"op": "sel.classFilter", "cls": cls, "valid": kw.get("valid_classes"), "invalid": kw.get("invalid_classes")}
    if w == "percent_filter":
        ps = [kw.get("from_percent"), kw.get("to_percent"), 0.0, 1.0]
        return {"op": "sel.percentFilter", "n": n, "from": rat(kw.get("from_percent")), "to": rat(kw.get("to_percent")),
                "ceilFrom": bool(kw.get("ceil_from_index", False)), "ceilTo": bool(kw.get("ceil_to_index", False)),
                "cutF": cut_rows(ps, [n], cutF), "cutC": cut_rows(ps, [n], cutC)}
    if w == "subset":
        if kw.get("indices") is not None:
            other = any(kw.get(k) is not None for k in ("start_index", "end_index", "start_percent", "end_percent"))
            return {"op": "sel.subsetExplicit", "n": n, "idx": kw["indices"], "other": other}
        ps = [kw.get("start_percent"), kw.get("end_percent"), 0.0, 1.0]
        return {"op": "sel.subsetRange", "n": n, "si": kw.get("start_index"), "ei": kw.get("end_index"),
                "sp": rat(kw.get("start_percent")), "ep": rat(kw.get("end_percent")), "cutF": cut_rows(ps, [n], cutF)}
    if w == "shuffle":
        return {"op": "sel.shuffle", "n": n, "perm": clean_tape[0] if clean_tape else []}
    if w == "repeat":
        return {"op": "sel.repeat", "n": n, "reps": kw.get("repetitions"), "minSize": kw.get("min_size")}
    if w == "oversampling":
        return {"op": "sel.oversample", "cls": cls, "nc": nc, "mode": kw.get("mode", "multiply"),
                "fuel": max(len(cls), 1)}      # theorem oversampleExact_terminates_and_balances: the dataset size suffices
    if w == "sort_by_class":
        return {"op": "sel.sortByClass", "cls": cls, "nc": nc}
    if w == "intra_class_shuffle":
        return {"op": "sel.intraClassShuffle", "cls": cls, "nc": nc, "seedGiven": kw.get("seed") is not None, "tape": clean_tape}
    if w == "fewshot":
        return {"op": "sel.fewshot", "cls": cls, "shots": kw["num_shots"], "tape": clean_tape}
    if w == "classwise_subset":
        ps = [kw.get("start_percent"), kw.get("end_percent"), 0.0, 1.0]
        ks = sorted({sum(1 for c in cls if c == i) for i in range(counts_len(nc))})
        return {"op": "sel.classwiseSubset", "cls": cls, "nc": nc, "si": kw.get("start_index"), "ei": kw.get("end_index"),
                "sp": rat(kw.get("start_percent")), "ep": rat(kw.get("end_percent")),
                "check": bool(kw.get("check_enough_samples", True)), "cutT": cut_rows(ps, ks, cutT)}
    raise KeyError(w)


def impl_answer(case, real):
    """the implementation's answer in the layout of the model's answer"""
    if real["out"] != "ok":
        return {"err": real["out"]}
    a = {"ok": real["indices"], "ids": real["ids"], "len": real["len"]}
    if any(not isinstance(t, list) for t in real.get("tape", [])):
        a["unmodelled_draws"] = [t for t in real["tape"] if not isinstance(t, list)]
    # seeded wrappers must take their generator from the seed they were given
    if case["w"] in ("shuffle", "intra_class_shuffle", "fewshot"):
        a["seeds"] = real.get("seeds", [])
    return a


def model_answer(case, ans):
    if "err" in ans:
        return {"err": ans["err"]}
    if "error" in ans:
        return {"driver_error": ans["error"]}
    a = {"ok": ans["ok"], "ids": ans.get("ids", ans["ok"]), "len": len(ans["ok"])}
    w, kw = case["w"], case["kw"]
    if w == "shuffle":
        a["seeds"] = [kw["seed"]] if kw.get("seed") is not None else ["global"]
    elif w == "intra_class_shuffle":
        a["seeds"] = [kw["seed"]] if kw.get("seed") is not None else []
    elif w == "fewshot":
        a["seeds"] = [kw.get("seed", 0)]
    return a


# ----------------------------------------------------------------------------------------------
# independent property oracle (written from the property statement; does not use the Lean model)
# ----------------------------------------------------------------------------------------------
def _labels_in(cls, nc, allow_unlabeled=False):
    return all((0 <= c < nc) or (allow_unlabeled and c == -1) for c in cls)


def _acceptable(exact, mode, eps):
    """integers a float rounding of the real number `exact` may legitimately produce (floor / ceil)"""
    if mode == "floor":
        return {math.floor(exact - eps), math.floor(exact + eps)} - {-1}
    return {math.ceil(exact - eps), math.ceil(exact + eps)}


def _is_contiguous(ids):
    return all(b == a + 1 for a, b in zip(ids, ids[1:]))


def in_domain(case):
    """the inputs the property statement speaks about (everything else is compared with the model, never judged)"""
    w, kw, cls, nc = case["w"], case["kw"], case["cls"], case["nc"]
    n = len(cls)
    if w == "class_filter":
        v, iv = kw.get("valid_classes"), kw.get("invalid_classes")
        return (v is None) != (iv is None) and set(kw) <= {"valid_classes", "invalid_classes"}
    if w == "percent_filter":
        f, t = kw.get("from_percent"), kw.get("to_percent")
        f0, t0 = (0.0 if f is None else f), (1.0 if t is None else t)
        return 0 <= f0 <= t0 <= 1
    if w == "subset":
        if kw.get("indices") is not None:
            return set(kw) == {"indices"} and all(-n <= i < n for i in kw["indices"])
        si, ei, sp, ep = (kw.get(k) for k in ("start_index", "end_index", "start_percent", "end_percent"))
        if (si is not None or ei is not None) and sp is None and ep is None:
            s0 = 0 if si is None else si
            e0 = n if ei is None else min(ei, n)
            return 0 <= s0 <= e0
        if (sp is not None or ep is not None) and si is None and ei is None:
            s0, e0 = (0.0 if sp is None else sp), (1.0 if ep is None else ep)
            return 0 <= s0 <= e0 <= 1
        return False
    if w == "shuffle":
        return kw.get("seed") is not None
    if w == "repeat":
        r, m = kw.get("repetitions"), kw.get("min_size")
        return n > 0 and ((r is None) != (m is None)) and ((r is not None and r > 0) or (m is not None and m > 0))
    if w == "oversampling":
        mode = kw.get("mode", "multiply")
        if n == 0 or nc < 1:
            return False
        if mode == "multiply":
            return _labels_in(cls, nc, allow_unlabeled=True)
        if mode == "exact":
            return _labels_in(cls, nc)
        return False
    if w == "sort_by_class":
        return _labels_in(cls, nc)
    if w == "intra_class_shuffle":
        return kw.get("seed") is not None and _labels_in(cls, nc)
    if w == "fewshot":
        return n > 0 and kw["num_shots"] >= 0 and all(c >= 0 for c in cls)
    if w == "classwise_subset":
        if not _labels_in(cls, nc):
            return False
        si, ei, sp, ep = (kw.get(k) for k in ("start_index", "end_index", "start_percent", "end_percent"))
        if (si is not None or ei is not None) and sp is None and ep is None:
            s0 = 0 if si is None else si
            e0 = n if ei is None else min(ei, n)
            if not 0 <= s0 <= e0:
                return False
            if kw.get("check_enough_samples", True):
                return all(sum(1 for c in cls if c == i) >= e0 for i in range(nc))   # otherwise the documented assert
            return True
        if (sp is not None or ep is not None) and si is None and ei is None:
            s0, e0 = (0.0 if sp is None else sp), (1.0 if ep is None else ep)
            return 0 <= s0 <= e0 <= 1
        return False
    return False


def _fail(case, key, what, expected, actual):
    return Failure(key, f"{what} [{case['w']} cls={case['cls']} nc={case['nc']} kw={case['kw']}]", case, expected, actual)


def _ids_of(case):
    r = run_real(case, record=False)
    return r["ids"] if r["out"] == "ok" else None, r["out"]


def _pair(case, kw_a, kw_b):
    a, oa = _ids_of(dict(case, kw=kw_a))
    b, ob = _ids_of(dict(case, kw=kw_b))
    return a, b, (oa, ob)


def _purity_probe(case, real):
    """same constructor arguments + seed under different global numpy/torch/python RNG states -> same selection"""
    import numpy as np
    import torch
    outs = []
    for s in (11, 977):
        st_np, st_t, st_py = np.random.get_state(), torch.get_rng_state(), random.getstate()
        try:
            np.random.seed(s)
            torch.default_generator.manual_seed(s)   # the CPU generator (torch.manual_seed also walks all device back ends: ~1 ms)
            random.seed(s)
            np.random.rand(s % 7)
            ids, out = _ids_of(case)
        finally:
            np.random.set_state(st_np)
            torch.set_rng_state(st_t)
            random.setstate(st_py)
        outs.append(ids if out == "ok" else out)
    if outs[0] != outs[1] or outs[0] != real["ids"]:
        return _fail(case, f"{case['w']}:seed-purity", "selection depends on the global RNG state although a seed was given",
                     real["ids"], outs)
    return None


def oracle(case, real, with_pairs=True):
    """property C03 checked directly on what the real wrapper exposes; returns a Failure or None"""
    if not in_domain(case):
        return None
    w, kw, cls, nc = case["w"], case["kw"], case["cls"], case["nc"]
    n = len(cls)
    if real["out"] == "timeout":
        return _fail(case, f"{w}:does-not-terminate", "construction does not terminate (2 s alarm)", "a selection", "timeout")
    if real["out"] != "ok":
        return _fail(case, f"{w}:raises", f"construction raises ({real['out']}) on an input inside the property's domain",
                     "a selection", real["out"])
    ids = real["ids"]
    # what the wrapper exposes item-wise is what its index list says
    if real["len"] != len(real["indices"]) or [i % n if n else i for i in real["indices"]] != ids:
        return _fail(case, f"{w}:indices-vs-items", "items read through the wrapper differ from its index list", real["indices"], ids)
    if real["classes"] != [cls[i] for i in ids]:
        return _fail(case, f"{w}:indices-vs-items", "classes read through the wrapper differ from the classes of its indices",
                     [cls[i] for i in ids], real["classes"])
    cnt = lambda c, xs=None: sum(1 for i in (ids if xs is None else xs) if cls[i] == c)
    base = lambda c: sum(1 for x in cls if x == c)

    if w == "class_filter":
        if kw.get("valid_classes") is not None:
            exp = [i for i, c in enumerate(cls) if c in kw["valid_classes"]]
            key = "class_filter:valid"
        else:
            exp = [i for i, c in enumerate(cls) if c not in kw["invalid_classes"]]
            key = "class_filter:invalid"
        if ids != exp:
            return _fail(case, key, "class filter does not keep exactly the allowed classes in original order", exp, ids)
        return None

    if w == "percent_filter":
        f, t = kw.get("from_percent"), kw.get("to_percent")
        cf, ct = bool(kw.get("ceil_from_index", False)), bool(kw.get("ceil_to_index", False))
        if not _is_contiguous(ids) or any(not 0 <= i < n for i in ids):
            return _fail(case, "percent_filter:contiguous", "percent range is not a contiguous in-range block", "contiguous", ids)
        f0, t0 = (Fraction(0) if f is None else Fraction(f)), (Fraction(1) if t is None else Fraction(t))
        fa = _acceptable(f0 * n, "ceil" if cf else "floor", 1e-9)
        ta = _acceptable(t0 * n, "ceil" if ct else "floor", 1e-9)
        if ids:
            if ids[0] not in fa or ids[-1] + 1 not in ta:
                return _fail(case, "percent_filter:bounds", "percent range does not start/end at the rounded percent positions",
                             [sorted(fa), sorted(ta)], [ids[0], ids[-1] + 1])
        elif max(fa) < min(ta):
            return _fail(case, "percent_filter:bounds", "percent range is empty although the rounded bounds differ", [sorted(fa), sorted(ta)], ids)
        if with_pairs and cf == ct and (f is None or f == 0) and t is not None:
            # complementary ranges [0,p] and [p,1] (same rounding mode) must partition the dataset
            for kb in ({"from_percent": t, "ceil_from_index": ct}, {"from_percent": t, "to_percent": 1.0, "ceil_from_index": ct, "ceil_to_index": ct}):
                b, ob = _ids_of(dict(case, kw=kb))
                if b is None or ids + b != list(range(n)):
                    return _fail(case, "percent_filter:partition",
                                 f"ranges [0,{t}] and [{t},1] (ceil={ct}) do not partition the dataset", list(range(n)), [ids, b if b is not None else ob])
        return None

    if w == "subset":
        if kw.get("indices") is not None:
            exp = [i if i >= 0 else n + i for i in kw["indices"]]
            if ids != exp or real["indices"] != list(kw["indices"]):
                return _fail(case, "subset:indices", "explicit index list is not exposed as given", exp, ids)
            return None
        si, ei, sp, ep = (kw.get(k) for k in ("start_index", "end_index", "start_percent", "end_percent"))
        if si is not None or ei is not None:
            exp = list(range(0 if si is None else si, n if ei is None else min(ei, n)))
            if ids != exp:
                return _fail(case, "subset:index-range", "index range [start_index, end_index) is not selected exactly", exp, ids)
            if with_pairs and (si is None or si == 0) and ei is not None and ei <= n:
                b, ob = _ids_of(dict(case, kw={"start_index": ei}))
                if b is None or ids + b != list(range(n)):
                    return _fail(case, "subset:index-partition", f"ranges [0,{ei}) and [{ei},n) do not partition the dataset",
                                 list(range(n)), [ids, b if b is not None else ob])
            return None
        if not _is_contiguous(ids) or any(not 0 <= i < n for i in ids):
            return _fail(case, "subset:contiguous", "percent range is not a contiguous in-range block", "contiguous", ids)
        s0, e0 = (Fraction(0) if sp is None else Fraction(sp)), (Fraction(1) if ep is None else Fraction(ep))
        sa, ea = _acceptable(s0 * n, "floor", 1e-9), _acceptable(e0 * n, "floor", 1e-9)
        if ids:
            if ids[0] not in sa or ids[-1] + 1 not in ea:
                return _fail(case, "subset:percent-bounds", "percent range does not start/end at the floored percent positions",
                             [sorted(sa), sorted(ea)], [ids[0], ids[-1] + 1])
        elif max(sa) < min(ea):
            return _fail(case, "subset:percent-bounds", "percent range is empty although the floored bounds differ", [sorted(sa), sorted(ea)], ids)
        if with_pairs and (sp is None or sp == 0) and ep is not None:
            for kb in ({"start_percent": ep}, {"start_percent": ep, "end_percent": 1.0}):
                b, ob = _ids_of(dict(case, kw=kb))
                if b is None or ids + b != list(range(n)):
                    return _fail(case, "subset:percent-partition", f"ranges [0,{ep}] and [{ep},1] do not partition the dataset",
                                 list(range(n)), [ids, b if b is not None else ob])
        return None

    if w == "shuffle":
        if sorted(ids) != list(range(n)):
            return _fail(case, "shuffle:permutation", "shuffle is not a permutation of the dataset", list(range(n)), ids)
        return _purity_probe(case, real) if with_pairs else None

    if w == "sort_by_class":
        if sorted(ids) != list(range(n)):
            return _fail(case, "sort_by_class:permutation", "sort-by-class is not a permutation of the dataset", list(range(n)), ids)
        keys = [(cls[i], i) for i in ids]
        if keys != sorted(keys):
            return _fail(case, "sort_by_class:order", "classes are not non-decreasing with stable ties", [i for _, i in sorted(keys)], ids)
        return None

    if w == "intra_class_shuffle":
        if sorted(ids) != list(range(n)):
            return _fail(case, "intra_class_shuffle:permutation", "intra-class shuffle is not a permutation", list(range(n)), ids)
        if [cls[i] for i in ids] != cls:
            return _fail(case, "intra_class_shuffle:class-sequence", "per-position class sequence changed", cls, [cls[i] for i in ids])
        return _purity_probe(case, real) if with_pairs else None

    if w == "repeat":
        r, m = kw.get("repetitions"), kw.get("min_size")
        if r is None:
            r = (m + n - 1) // n
        exp = list(range(n)) * r
        if ids != exp:
            return _fail(case, "repeat:copies", "repeat does not yield whole round-robin copies with the minimal count", exp, ids)
        return None

    if w == "oversampling":
        mode = kw.get("mode", "multiply")
        mx = max(base(c) for c in range(nc))
        if mode == "multiply":
            if ids[:n] != list(range(n)):
                return _fail(case, "oversampling:multiply-keeps-all", "original samples are not kept as a prefix", list(range(n)), ids[:n])
            for c in range(nc):
                if base(c) and cnt(c) != base(c) * (mx // base(c)):
                    return _fail(case, "oversampling:multiply-balance", f"class {c} is not multiplied by floor(max/count)",
                                 base(c) * (mx // base(c)), cnt(c))
            if cnt(-1) != base(-1):
                return _fail(case, "oversampling:multiply-balance", "unlabeled samples are duplicated", base(-1), cnt(-1))
            return None
        if set(ids) != set(range(n)):
            return _fail(case, "oversampling:exact-keeps-all", "a sample is lost by exact oversampling", list(range(n)), sorted(set(ids)))
        for c in range(nc):
            if base(c) and cnt(c) != mx:
                return _fail(case, "oversampling:exact-balance", f"class {c} does not reach the majority count", mx, cnt(c))
        if any(not 0 <= i < n for i in ids):
            return _fail(case, "oversampling:exact-keeps-all", "index out of range", None, ids)
        return None

    if w == "fewshot":
        shots = kw["num_shots"]
        if len(set(ids)) != len(ids):
            return _fail(case, "fewshot:distinct", "few-shot selection repeats a sample", None, ids)
        if [cls[i] for i in ids] != sorted(cls[i] for i in ids):
            return _fail(case, "fewshot:class-order", "few-shot classes are not in order", None, [cls[i] for i in ids])
        for c in range(max(cls) + 1):
            if cnt(c) != min(shots, base(c)):
                return _fail(case, "fewshot:shots", f"class {c} does not contribute min(num_shots, count) samples", min(shots, base(c)), cnt(c))
        return _purity_probe(case, real) if with_pairs else None

    if w == "classwise_subset":
        si, ei, sp, ep = (kw.get(k) for k in ("start_index", "end_index", "start_percent", "end_percent"))
        if [cls[i] for i in ids] != sorted(cls[i] for i in ids):
            return _fail(case, "classwise_subset:class-order", "classes are not in order", None, [cls[i] for i in ids])
        for c in range(nc):
            allc = [i for i, x in enumerate(cls) if x == c]
            got = [i for i in ids if cls[i] == c]
            if si is not None or ei is not None:
                s0 = 0 if si is None else si
                e0 = n if ei is None else min(ei, n)
                if got != allc[s0:e0]:
                    return _fail(case, "classwise_subset:index-range", f"class {c}: not samples [start,end) of the class", allc[s0:e0], got)
            else:
                k = len(allc)
                if got and got != allc[allc.index(got[0]):allc.index(got[0]) + len(got)]:
                    return _fail(case, "classwise_subset:contiguous", f"class {c}: not a contiguous block of the class", None, got)
                s0, e0 = (Fraction(0) if sp is None else Fraction(sp)), (Fraction(1) if ep is None else Fraction(ep))
                sa, ea = _acceptable(s0 * k, "floor", 1e-4), _acceptable(e0 * k, "floor", 1e-4)
                if got:
                    a, b = allc.index(got[0]), allc.index(got[0]) + len(got)
                    if a not in sa or b not in ea:
                        return _fail(case, "classwise_subset:percent-bounds", f"class {c}: block does not sit at the floored percent positions",
                                     [sorted(sa), sorted(ea)], [a, b])
                elif max(sa) < min(ea):
                    return _fail(case, "classwise_subset:percent-bounds", f"class {c}: empty although the floored bounds differ",
                                 [sorted(sa), sorted(ea)], got)
        if with_pairs:
            pair = None
            if (si is None or si == 0) and ei is not None and sp is None and ep is None and ei <= n:
                pair = ({"start_index": ei, "check_enough_samples": False}, f"[0,{ei}) and [{ei},n)", "classwise_subset:index-partition")
                mine = _ids_of(dict(case, kw={"end_index": ei, "check_enough_samples": False}))[0]
            elif (sp is None or sp == 0) and ep is not None and si is None and ei is None:
                pair = ({"start_percent": ep}, f"[0,{ep}] and [{ep},1]", "classwise_subset:percent-partition")
                mine = ids
            if pair is not None:
                b, ob = _ids_of(dict(case, kw=pair[0]))
                for c in range(nc):
                    allc = [i for i, x in enumerate(cls) if x == c]
                    got = None if (b is None or mine is None) else [i for i in mine if cls[i] == c] + [i for i in b if cls[i] == c]
                    if got != allc:
                        return _fail(case, pair[2], f"class {c}: ranges {pair[1]} do not partition the class", allc, [mine, b if b is not None else ob])
        return None
    return None


def _describe(case):
    return ", ".join(f"{k}={json.dumps(case[k])}" for k in SCENARIO_KEYS + ("view",) if case.get(k))


def _sfail(case, key, what, expected, actual):
    return Failure(key, f"{what} [{case['w']} kw={case['kw']} on root cls={case['cls']} nc={case['nc']}; scenario: {_describe(case)}]",
                   case, expected, actual)


_OBS = ("out", "indices", "len", "ids", "classes")
SEEDED = ("shuffle", "intra_class_shuffle", "fewshot")


def judge(case, real, with_pairs=True):
    """property C03 on a case that may carry a scenario (see module doc): the plain oracle on the case as the property statement sees
    it (`virtual`), plus: a copy exposes what the original exposes (the selection is fixed at construction), the items read through
    the wrapper are the items of the dataset below at the selected positions, and a seeded selection is the one that the same
    arguments + seed give on a fresh dataset with the same class sequence (function of arguments and seed only)"""
    if not is_scenario(case):
        return oracle(case, real, with_pairs)
    v = virtual(case, real)
    if v is None:
        return None
    vcase, vreal = v
    if not in_domain(vcase):
        return None
    w = case["w"]
    stacked = "base" in real
    orig = real.get("orig")
    if orig is not None:
        o = {k: orig.get(k) for k in _OBS}
        c = {k: real.get(k) for k in _OBS}
        a = {k: real["after"].get(k) for k in _OBS}
        if c != o:
            return _sfail(case, f"{w}:copy-changes-selection",
                          f"a copy of the constructed wrapper ({case['copy']}) does not expose what the wrapper exposes", o, c)
        if a != o:
            return _sfail(case, f"{w}:copy-changes-selection",
                          f"the wrapper exposes something else after it was copied ({case['copy']})", o, a)
    if stacked and vreal["out"] == "ok":
        base = real["base"]
        m = len(base["ids"])
        pos = vreal["ids"]
        exp = [base["ids"][q] if 0 <= q < m else None for q in pos]
        if exp != vreal["xids"]:
            return _sfail(case, f"{w}:indices-vs-items", "items read through the wrapper are not the items of the dataset below it at "
                          "the positions of its index list", exp, vreal["xids"])
    f = oracle(vcase, vreal, with_pairs and not stacked)
    if f is not None:
        return _sfail(case, f.key, f.what, f.expected, f.actual)
    if with_pairs and w in SEEDED and case["kw"].get("seed", 0 if w == "fewshot" else None) is not None:
        ref = run_real({"w": w, "cls": vcase["cls"], "nc": case["nc"], "kw": case["kw"]}, record=False)
        got = vreal["ids"]
        if ref["out"] != "ok" or ref["ids"] != got:
            return _sfail(case, f"{w}:depends-on-history",
                          "the selection differs from the one the same arguments and seed give on a fresh dataset with the same class "
                          f"sequence {vcase['cls']}", ref.get("ids", ref["out"]), got)
    return None


# ----------------------------------------------------------------------------------------------
# case generation
# ----------------------------------------------------------------------------------------------
PERCENTS = [None, 0.0, 1 / 7, 0.25, 0.29, 1 / 3, 0.5, 0.999, 1.0]


def layouts(max_len, n_cls):
    for L in range(max_len + 1):
        for cls in itertools.product(range(n_cls), repeat=L):
            yield list(cls)


def nc_options(cls):
    m = max(cls, default=-1) + 1
    return sorted({max(m, 1), m + 1, m + 2})


FLAT_HISTS = (
    {"at": 0, "w": "sort_by_class"},
    {"at": 0, "w": "oversampling", "kw": {"mode": "multiply"}},
    {"at": 0, "w": "sampler"},
    {"at": 0, "w": "same"},
    {"at": "other", "w": "same", "shared": True},
    {"at": "gone", "w": "same"},
    {"at": "other", "w": "sort_by_class"},
    {"at": 0, "w": "classwise_subset", "kw": {"end_percent": 0.5}},
    {"at": 0, "w": "shuffle", "kw": {"seed": 1}, "use": True},
    {"at": "gone", "w": "oversampling", "kw": {"mode": "exact"}},
)


def kwtype_applies(w, kw, kwtype):
    if kwtype == "tuple":
        return any(isinstance(v, list) for v in kw.values())
    if kwtype == "np":
        return (isinstance(kw.get("indices"), list) or isinstance(kw.get("seed"), int)
                or (w in ("percent_filter", "subset") and any(isinstance(v, float) for v in kw.values())))
    if kwtype == "torch":
        return isinstance(kw.get("indices"), list)
    return False


def case(w, cls, nc, **kw):
    c = {"w": w, "cls": list(cls), "nc": nc, "kw": kw}
    # every fifth case (by content) runs with a history: see _view_after_root_use
    if (len(c["cls"]) * 7 + sum(c["cls"]) * 3 + len(w) + len(kw)) % 5 == 0 and len(c["cls"]) > 0:
        c["view"] = True
    # shares of the cases (by content) run in a scenario: judged on a copy / other label data types / after other users of the root /
    # with other argument data types
    h = zlib.crc32(json.dumps([w, c["cls"], nc, kw], sort_keys=True, default=str).encode())
    if h % 4 == 0:
        c["copy"] = COPY_KINDS[(h // 4) % len(COPY_KINDS)]
    if h % 7 == 1 and not c.get("view"):
        c["root"] = ROOT_KINDS[1 + (h // 7) % (len(ROOT_KINDS) - 1)]
    if h % 5 == 2 and not c.get("view"):
        c["hist"] = [dict(FLAT_HISTS[(h // 5) % len(FLAT_HISTS)])]
    if h % 11 == 3:
        kt = ("tuple", "np", "torch")[(h // 11) % 3]
        if kwtype_applies(w, kw, kt):
            c["kwtype"] = kt
    return c


def percent_cases(rng, ns, percents):
    """wrappers whose selection depends on the dataset length only"""
    for n in ns:
        cls = [0] * n
        for p in percents:
            for q in percents:
                for cf, ct in ((False, False), (True, True), (True, False), (False, True)):
                    kw = {}
                    if p is not None:
                        kw["from_percent"] = p
                    if q is not None:
                        kw["to_percent"] = q
                    if cf:
                        kw["ceil_from_index"] = True
                    if ct:
                        kw["ceil_to_index"] = True
                    if (cf and p is None) or (ct and q is None):
                        continue
                    yield case("percent_filter", cls, 1, **kw)
                kw = {}
                if p is not None:
                    kw["start_percent"] = p
                if q is not None:
                    kw["end_percent"] = q
                yield case("subset", cls, 1, **kw)
        idxs = [None] + (list(range(n + 2)) if n <= 12 else [0, 1, n // 3, n - 1, n, n + 1])
        for s in idxs:
            for e in idxs:
                kw = {}
                if s is not None:
                    kw["start_index"] = s
                if e is not None:
                    kw["end_index"] = e
                yield case("subset", cls, 1, **kw)
        # int percents, out-of-range percents (assert), mixed index+percent (assert)
        yield case("percent_filter", cls, 1, to_percent=0)
        yield case("percent_filter", cls, 1, from_percent=1)
        yield case("percent_filter", cls, 1, from_percent=-0.25)
        yield case("percent_filter", cls, 1, to_percent=1.5)
        yield case("subset", cls, 1, end_percent=0)
        yield case("subset", cls, 1, start_percent=1.25)
        yield case("subset", cls, 1, start_index=0, end_percent=0.5)
        # explicit indices
        yield case("subset", cls, 1, indices=[])
        if n:
            yield case("subset", cls, 1, indices=[rng.randrange(-n, n) for _ in range(rng.randint(1, 4))])
            yield case("subset", cls, 1, indices=[n - 1, -n, 0])
            yield case("subset", cls, 1, indices=[0], start_index=0)
        yield case("subset", cls, 1, indices=[n])
        yield case("subset", cls, 1, indices=[-n - 1])
        # repeat
        for r in (None, 0, 1, 2, 3):
            for m in (None, 0, 1, n - 1, n, n + 1, 2 * n, 2 * n + 1, 3 * n + 2):
                if r is None and m is None and n % 2:
                    continue
                kw = {}
                if r is not None:
                    kw["repetitions"] = r
                if m is not None:
                    kw["min_size"] = m
                if r is not None and m is not None and (r, m) not in ((1, 1), (2, n)):
                    continue
                yield case("repeat", cls, 1, **kw)
        for seed in (None, 0, 1, 2, 3, 4):
            yield case("shuffle", cls, 1, seed=seed)


def layout_only_cases(cls, nc):
    """wrappers whose selection is a function of the class layout alone (no further arguments)"""
    yield case("sort_by_class", cls, nc)
    for mode in ("multiply", "exact"):
        yield case("oversampling", cls, nc, mode=mode)
    for s in ([], [0], [1], [0, 2], [1, 2, 5], [0, 0, 1], [3]):
        yield case("class_filter", cls, nc, valid_classes=s)
        yield case("class_filter", cls, nc, invalid_classes=s)


def class_cases(rng, cls, nc, full):
    """wrappers whose selection depends on the class layout and further arguments / a seed"""
    n = len(cls)
    for seed in ((0, 1, 2, 3, 4) if full else rng.sample(range(5), 3)):
        yield case("intra_class_shuffle", cls, nc, seed=seed)
        for shots in ((0, 1, 2, 3) if full else rng.sample(range(4), 2)):
            yield case("fewshot", cls, nc, num_shots=shots, seed=seed)
    ps = PERCENTS if full else rng.sample(PERCENTS, 4)
    for p in ps:
        for q in ps:
            if p is None and q is None:
                continue
            kw = {}
            if p is not None:
                kw["start_percent"] = p
            if q is not None:
                kw["end_percent"] = q
            yield case("classwise_subset", cls, nc, **kw)
    idxs = [None] + list(range(n + 2))
    if not full:
        idxs = [None, 0] + rng.sample(range(1, n + 2), min(2, n + 1))
    for s in idxs:
        for e in idxs:
            if s is None and e is None:
                continue
            kw = {}
            if s is not None:
                kw["start_index"] = s
            if e is not None:
                kw["end_index"] = e
            for chk in (True, False):
                yield case("classwise_subset", cls, nc, check_enough_samples=chk, **kw)


def odd_cases(rng):
    """argument errors, unlabeled samples, out-of-range labels: compared with the model, judged only where in-domain"""
    yield case("class_filter", [0, 1, 0], 2)
    yield case("class_filter", [0, 1, 0], 2, valid_classes=[0], invalid_classes=[1])
    yield case("class_filter", [0, -1, 1], 2, invalid_classes=[-1])
    yield case("repeat", [], 1, repetitions=2)
    yield case("subset", [0, 0], 1)
    yield case("classwise_subset", [0, 1], 2)
    yield case("classwise_subset", [0, 1], 2, start_index=0, end_percent=0.5)
    yield case("classwise_subset", [0, 1], 2, start_percent=0.75, end_percent=0.5)
    yield case("classwise_subset", [0, 1], 2, end_percent=1.5)
    yield case("oversampling", [0, 1, 1], 2, mode="foo")
    yield case("oversampling", [0, 0, 0], 1, mode="multiply")
    yield case("oversampling", [0, 0, 0], 1, mode="exact")
    yield case("intra_class_shuffle", [0, 1, 0], 2)          # seed=None: GlobalRng class has no `permutation`
    yield case("shuffle", [0, 0, 0], 1)
    for cls in ([0, -1, 1, 1], [-1, -1], [1, -1, 1, 0, 0, 0, -1], [0, 0, -1, 2, 2, 2, 2]):
        nc = max(cls) + 1 if max(cls) >= 0 else 2
        for mode in ("multiply", "exact"):
            yield case("oversampling", cls, nc, mode=mode)
        yield case("sort_by_class", cls, nc)
        yield case("fewshot", cls, nc, num_shots=1, seed=0)
        yield case("classwise_subset", cls, nc, end_percent=0.5)
    for cls, nc in (([0, 3, 1], 2), ([2, 2], 1), ([0, 1, 5], 3)):      # labels >= n_classes
        yield case("sort_by_class", cls, nc)
        yield case("oversampling", cls, nc, mode="multiply")
        yield case("classwise_subset", cls, nc, end_percent=0.5)
    yield case("fewshot", [1, 0, 1, 1, 0], 2, num_shots=-1, seed=3)
    yield case("fewshot", [1, 0, 1, 1, 0], 2, num_shots=2)
    yield case("fewshot", [], 2, num_shots=1, seed=0)


def random_case(rng):
    n = rng.choice([0, 1, 2, 3, 5, 7, 8, 10, 13, 16, 25, 100])
    k = rng.choice([1, 2, 3, 4, 6])
    skew = rng.random() < 0.5
    cls = [min(int(rng.expovariate(1.0)), k - 1) if skew else rng.randrange(k) for _ in range(n)]
    if rng.random() < 0.3:
        cls = [c + 1 if c >= 1 else c for c in cls]      # a gap: class 1 absent
    nc = max(max(cls, default=-1) + 1, 1) + rng.choice([0, 0, 1, 2])
    p, q = (rng.choice(PERCENTS + [rng.random(), round(rng.random(), 2)]) for _ in range(2))
    w = rng.choice(["class_filter", "percent_filter", "subset", "subset_i", "shuffle", "repeat", "oversampling", "sort_by_class",
                    "intra_class_shuffle", "fewshot", "classwise_subset", "classwise_subset_i"])
    if w == "class_filter":
        s = rng.sample(range(nc + 1), rng.randint(0, nc))
        return case(w, cls, nc, **{rng.choice(["valid_classes", "invalid_classes"]): s})
    if w == "percent_filter":
        if p is not None and q is not None and p > q and rng.random() < 0.8:
            p, q = q, p
        kw = {k_: v for k_, v in (("from_percent", p), ("to_percent", q)) if v is not None}
        c = rng.random() < 0.5
        if c and p is not None:
            kw["ceil_from_index"] = True
        if c and q is not None:
            kw["ceil_to_index"] = True
        return case(w, cls, nc, **kw)
    if w in ("subset", "classwise_subset"):
        if p is not None and q is not None and p > q and rng.random() < 0.8:
            p, q = q, p
        kw = {k_: v for k_, v in (("start_percent", p), ("end_percent", q)) if v is not None}
        if not kw:
            kw = {"end_percent": 0.0}
        return case(w, cls, nc, **kw)
    if w in ("subset_i", "classwise_subset_i"):
        s, e = (rng.choice([None, 0, n, n + 1] + list(range(n + 1))) for _ in range(2))
        kw = {k_: v for k_, v in (("start_index", s), ("end_index", e)) if v is not None}
        if not kw:
            kw = {"end_index": 0}
        if w == "classwise_subset_i":
            kw["check_enough_samples"] = rng.random() < 0.3
        return case(w[:-2], cls, nc, **kw)
    if w == "shuffle":
        return case(w, cls, nc, seed=rng.randrange(100))
    if w == "repeat":
        if rng.random() < 0.5:
            return case(w, cls, nc, repetitions=rng.randint(1, 4))
        return case(w, cls, nc, min_size=rng.randint(1, 3 * n + 3))
    if w == "oversampling":
        return case(w, cls, nc, mode=rng.choice(["multiply", "exact"]))
    if w == "sort_by_class":
        return case(w, cls, nc)
    if w == "intra_class_shuffle":
        return case(w, cls, nc, seed=rng.randrange(100))
    return case("fewshot", cls, nc, num_shots=rng.randint(0, 5), seed=rng.randrange(100))


def lower_layer(rng, k=None):
    """one wrapper to put below the wrapper under test (valid on every dataset with labels in range)"""
    if k is None:
        k = rng.randrange(N_LOWERS)
    s = rng.randrange(50)
    return [
        {"w": "identity"},
        {"w": "shuffle", "kw": {"seed": s}},
        {"w": "shuffle", "kw": {"seed": s}},
        {"w": "sort_by_class"},
        {"w": "sort_by_class"},
        {"w": "intra_class_shuffle", "kw": {"seed": s}},
        {"w": "subset", "perm_seed": s},
        {"w": "subset", "perm_seed": s, "kwtype": rng.choice(["tuple", "np", "torch"])},
        {"w": "subset", "reverse": True},
        {"w": "percent_filter", "kw": {"to_percent": 1.0}},
        {"w": "percent_filter", "kw": {"from_percent": 0.25}},
        {"w": "subset", "kw": {"start_index": 1}},
        {"w": "repeat", "kw": {"repetitions": rng.choice([1, 2])}},
        {"w": "class_filter", "kw": {"invalid_classes": [1]}},
        {"w": "class_filter", "kw": {"valid_classes": [0, 2, 3]}},
        {"w": "oversampling", "kw": {"mode": rng.choice(["multiply", "exact"])}},
        {"w": "fewshot", "kw": {"num_shots": 2, "seed": s}},
        {"w": "classwise_subset", "kw": {"end_percent": 0.5}},
        {"w": "classwise_subset", "kw": {"start_percent": 0.0, "end_percent": 1.0}},
    ][k]


N_LOWERS = 19


def all_lowers(rng):
    return [lower_layer(rng, k) for k in range(N_LOWERS)]


def hist_pool(rng, depth):
    """other users that came first: on the root, on a level of the stack, on another root of the same size (alive / gone)"""
    at = rng.randrange(depth + 1)
    return [
        [],
        [{"at": 0, "w": "sort_by_class"}],
        [{"at": 0, "w": "oversampling", "kw": {"mode": "multiply"}}],
        [{"at": 0, "w": "sampler"}],
        [{"at": 0, "w": "same"}],
        [{"at": at, "w": "same"}],
        [{"at": at, "w": "sort_by_class"}],
        [{"at": at, "w": "intra_class_shuffle", "kw": {"seed": 3}, "use": True}],
        [{"at": "other", "w": "same", "shared": True}],
        [{"at": "other", "w": "sort_by_class"}, {"at": "gone", "w": "oversampling", "kw": {"mode": "multiply"}}],
        [{"at": 0, "w": "classwise_subset", "kw": {"end_percent": 0.5}}, {"at": 0, "w": "fewshot", "kw": {"num_shots": 1, "seed": 0}}],
        [{"at": 0, "w": "sort_by_class"}, {"at": at, "w": "oversampling", "kw": {"mode": "exact"}}],
    ]


def top_pool(rng):
    s = rng.randrange(50)
    return [
        ("class_filter", {"valid_classes": [0, 2]}), ("class_filter", {"invalid_classes": [1]}),
        ("percent_filter", {"from_percent": 0.25, "to_percent": 0.8}), ("percent_filter", {"to_percent": 0.5, "ceil_to_index": True}),
        ("subset", {"indices": [2, 0, -1]}), ("subset", {"start_index": 1}), ("subset", {"end_percent": 0.5}),
        ("shuffle", {"seed": s}), ("repeat", {"repetitions": 2}), ("repeat", {"min_size": 7}),
        ("oversampling", {"mode": "multiply"}), ("oversampling", {"mode": "exact"}), ("sort_by_class", {}),
        ("intra_class_shuffle", {"seed": s}), ("fewshot", {"num_shots": rng.choice([1, 2]), "seed": s}),
        ("classwise_subset", {"end_percent": 0.5}), ("classwise_subset", {"start_index": 1, "check_enough_samples": False}),
    ]


def rich_layout(rng):
    """a class list of 4-10 samples over up to 4 classes in which most classes occur more than once"""
    n = rng.randint(4, 10)
    k = rng.choice([2, 3, 3, 4])
    cls = [rng.randrange(k) for _ in range(n)]
    return cls, max(cls) + 1 + rng.choice([0, 0, 1])


def alt_kw(rng, w, kw):
    """another configuration of the same wrapper class (None: the class has no configuration)"""
    if "seed" in kw:
        return dict(kw, seed=kw["seed"] + 1)
    others = [k for ww, k in top_pool(rng) if ww == w and k != kw]
    return rng.choice(others) if others else None


def _scenario(rng, c, below, hist):
    for k in ("view",) + SCENARIO_KEYS:
        c.pop(k, None)
    if below:
        c["below"] = below
    if hist:
        c["hist"] = hist
    if rng.random() < 0.5:
        c["root"] = rng.choice(ROOT_KINDS[1:])
    if rng.random() < 0.5:
        c["copy"] = rng.choice(COPY_KINDS)
    if rng.random() < 0.15:
        kt = rng.choice(["tuple", "np", "torch"])
        if kwtype_applies(c["w"], c["kw"], kt):
            c["kwtype"] = kt
    return c


def stack_cases(rng, n_hists, n_random):
    """compositions and histories: every (wrapper under test, wrapper below) pair without and with `n_hists` histories, then random
    stacks of depth 0-3 below a random case"""
    for w, kw in top_pool(rng):
        for low in all_lowers(rng):
            pool = hist_pool(rng, 1)
            alt = alt_kw(rng, w, kw)
            if alt is not None:     # an instance of the same class with another configuration is alive on the root / on the level below
                pool.append([{"at": rng.randrange(2), "w": "same", "kw": alt}])
            for hist in [pool[0]] + (rng.sample(pool[1:], n_hists) if n_hists < len(pool) - 1 else pool[1:]):
                cls, nc = rich_layout(rng)
                c = {"w": w, "cls": cls, "nc": nc, "kw": dict(kw)}
                yield _scenario(rng, c, [dict(low)], [dict(h) for h in hist])
    for _ in range(n_random):
        c = random_case(rng)
        c["cls"] = c["cls"][:30]
        depth = rng.choice([0, 1, 1, 1, 2, 2, 3])
        below = [lower_layer(rng) for _ in range(depth)]
        pool = hist_pool(rng, depth)
        alt = alt_kw(rng, c["w"], c["kw"])
        if alt is not None:
            pool.append([{"at": rng.randrange(depth + 1), "w": "same", "kw": alt}])
        hist = rng.choice(pool)
        yield _scenario(rng, c, below, [dict(h) for h in hist])


def signature(c, real):
    kw = c["kw"]
    cls = c["cls"]
    flags = tuple(sorted((k, (v if isinstance(v, (bool, str)) else (v is None, v == 0, v == 1 if not isinstance(v, list) else len(v) == 0)))
                         for k, v in kw.items() if k != "seed"))
    present = len(set(cls))
    absent = c["nc"] - present
    scen = (c.get("root", "item"), len(c.get("below", ())), bool(c.get("hist")), c.get("kwtype"), c.get("copy"))
    return (c["w"], flags, min(len(cls), 4), min(present, 3), absent > 0, real["out"], min(real.get("len", 0), 6), scen)


class C03(PropertyCheck):
    pid = "C03"
    claimed = True
    props_modules = ["KDVerif.Props.C03", "KDVerif.Lemmas.C03FloorBridge"]
    extra_build = ["KDVerif.Driver.Selection"]
    driver_main = "mains/Selection.lean"
    anchored = [
        "kappadata/wrappers/dataset_wrappers/class_filter_wrapper.py",
        "kappadata/wrappers/dataset_wrappers/percent_filter_wrapper.py",
        "kappadata/wrappers/dataset_wrappers/subset_wrapper.py",
        "kappadata/wrappers/dataset_wrappers/shuffle_wrapper.py",
        "kappadata/wrappers/dataset_wrappers/repeat_wrapper.py",
        "kappadata/wrappers/dataset_wrappers/oversampling_wrapper.py",
        "kappadata/wrappers/dataset_wrappers/sort_by_class_wrapper.py",
        "kappadata/wrappers/dataset_wrappers/intra_class_shuffle_wrapper.py",
        "kappadata/wrappers/dataset_wrappers/fewshot_wrapper.py",
        "kappadata/wrappers/dataset_wrappers/classwise_subset_wrapper.py",
        "kappadata/utils/class_counts.py",
    ]
    assumptions = [
        "numpy Generator.shuffle / Generator.permutation return a permutation of their input and are functions of the seed "
        "(the draws are recorded from the real generator and handed to the model as a tape; theorems hold for every permutation)",
        "float roundings int(p*n), np.ceil(p*n) (float64) and int(p*counts[i]) (float32 tensor product) are computed by the harness with the "
        "code's own expressions and handed to the Lean driver as integers; the theorems hold for every rounding `cut` with cut p n <= n, "
        "cut 0 n = 0, cut 1 n = n (and monotone in p where stated)",
        "int(np.ceil(min_size / len)) equals exact integer ceil-division and int(np.floor(max / count)) exact integer division "
        "(true below 2^52 resp. 2^24 samples)",
        "numpy/torch primitives arange, isin, boolean-mask indexing, nonzero, tile, concat, fancy indexing have their documented meaning",
        "the base dataset answers getitem_class(i) / getdim_class() consistently (the class list and n_classes the model is given)",
    ]
    trusted_extra = [
        "modelled by hand (KDVerif/Model/Selection.lean): the __init__ of the ten wrappers of wrappers/dataset_wrappers anchored to C03 and "
        "utils/class_counts.get_class_counts(_and_indices)",
        "not modelled: class-name arguments of ClassFilterWrapper (valid_class_names/invalid_class_names), KDSubset item forwarding "
        "(property C02; here it is observed through getitem_x/getitem_class on every case), negative start/end indices, non-int repetitions",
    ]
    technique = "Lean 4 proof over hand model + differential correspondence with recorded RNG tape + independent oracle"
    level_text = ("Lean theorems (KDVerif.Props.C03) for all class layouts, sizes, bounds and tapes: class filter = exactly the allowed classes "
                  "in original order; percent/index/class-wise ranges contiguous and complementary ranges partition (incl. 0 and 1, floor/floor and "
                  "ceil/ceil); shuffle, sort-by-class (sorted, stable), intra-class shuffle (class sequence kept) are permutations; repeat = minimal "
                  "number of whole round-robin copies; oversampling keeps all, multiply/exact balance, literal while loop terminates within a proved "
                  "fuel bound; few-shot and class-wise subset counts. Model tied to the code by differential correspondence each run.")
    level_note = ("trusted: Lean kernel + standard axioms; correspondence harness; numpy generator contract (tape is a permutation); float "
                  "roundings enter as integers from the harness' front end; 'function of arguments and seed only' is structural in the model "
                  "(pure functions of class list, arguments, tape) and probed dynamically on the real code under perturbed global RNG state, "
                  "after other users of the same / another root dataset, below stacks of other wrappers (judged on the class sequence the "
                  "dataset below exposes), for other label / argument data types and on pickled / deep-copied wrappers")
    design_ref = "DESIGN.md 3 (C03)"

    # ---- cases ---------------------------------------------------------------------------------
    def cases(self):
        quick = self.tier == "quick"
        rng = self.rng
        out = []
        cdir = CORPUS_DIR / "selection"
        if cdir.exists():
            for p in sorted(cdir.glob("*.json")):
                d = json.loads(p.read_text())
                out += d if isinstance(d, list) else [d]
        ncorp = len(out)
        out += list(odd_cases(rng))
        rnd_ps = [round(rng.random(), 3), rng.random()]
        ns = [0, 1, 2, 3, 4, 7] if quick else list(range(0, 13)) + [100]
        out += list(percent_cases(rng, ns, PERCENTS + (rnd_ps[:1] if quick else rnd_ps)))
        if quick:
            out += list(percent_cases(rng, [10, 100], [None, 0.0, 0.29, 1.0]))
        nex0 = len(out)
        if quick:
            lay = list(layouts(4, 3))
            lay_only = list(layouts(5, 3))
            full_idx = set(rng.sample(range(len(lay)), 20))
        else:
            lay = list(layouts(5, 3)) + [l for l in layouts(6, 4) if len(l) == 6 and rng.random() < 0.1]
            lay_only = list(layouts(6, 4))
            full_idx = set(rng.sample(range(len(lay)), 150))
        for cls in lay_only:
            for nc in nc_options(cls):
                out += list(layout_only_cases(cls, nc))
        for i, cls in enumerate(lay):
            opts = nc_options(cls)
            for nc in (opts if (i in full_idx or not quick) else [rng.choice(opts)]):
                out += list(class_cases(rng, cls, nc, full=i in full_idx))
        nex = len(out) - nex0
        for _ in range(1500 if quick else 12000):
            out.append(random_case(rng))
        out += list(stack_cases(rng, 2 if quick else 99, 1500 if quick else 12000))
        return out, ncorp, nex

    def correspond(self):
        res = CorrResult()
        cases, ncorp, nex = self.cases()
        res.rule = (f"{ncorp} corpus + argument-error/unlabeled/out-of-range-label cases + length-only wrappers (percent filter, subset, repeat, shuffle) "
                    f"on all sizes {'0-4,7,10,100' if self.tier == 'quick' else '0-12,100'} x all percent pairs from {{None,0,1/7,.25,.29,1/3,.5,.999,1,random}} x ceil modes, "
                    f"index bounds None/0..n+1 + {nex} class-layout cases (sort/oversampling/class filter on every class list of length <= {'5 over 3' if self.tier == 'quick' else '6 over 4'} classes, "
                    f"the argument-taking wrappers on every class list of length <= {'4' if self.tier == 'quick' else '5 (+10% of length 6 over 4 classes)'} "
                    f"over 3 classes; n_classes in {{max+1,max+2,max+3}}{'; arguments sampled per layout' if self.tier == 'quick' else ''}) + seeded random cases up to 100 samples; "
                    "+ every (wrapper, wrapper below) pair with and without earlier users of the root/stack + random stacks of depth 0-3; shares of all "
                    "cases judged on a pickled / deep-copied wrapper, with labels as numpy/tensor/bulk accessor, after other users of the root, "
                    "with tuple/numpy/torch arguments; "
                    "distinct = (wrapper, argument shape, size class, classes present/absent, outcome, selection size, scenario)")
        res.exhaustive = self.tier == "thorough"
        reals = [run_real(c) for c in cases]
        # the case as the property statement sees it (stacks: the class sequence the dataset below exposes); None = not built
        virt = [virtual(c, r) for c, r in zip(cases, reals)]
        answers = iter(self.driver.run([lean_request(v[0], v[1]) for v in virt if v is not None]))
        for c, real, v in zip(cases, reals, virt):
            res.cases += 1
            res.nontrivial.add(signature(c, real))
            res.bump(f"{c['w']}")
            res.bump(f"out={real['out']}")
            for k in SCENARIO_KEYS:
                if c.get(k):
                    res.bump(f"scenario:{k}" + (f"={c[k]}" if isinstance(c[k], str) else ""))
            if v is None:
                res.bump("layer-below-not-built (not judged)")
                continue
            vcase, vreal = v
            ans = next(answers)
            m, im = model_answer(vcase, ans), impl_answer(vcase, vreal)
            dom = in_domain(vcase)
            res.bump("in-domain" if dom else "out-of-domain")
            if m != im:
                if dom:
                    if len(res.disagreements) < 50:
                        res.disagreements.append(Disagreement(c, m, im))
                else:
                    # outside the property's domain the model is only informative: recorded, never judged
                    res.bump("out-of-domain-differs")
                    if len(res.observations) < 12:
                        res.observations.append({"what": "model and code differ outside the property's domain (not judged)",
                                                 "case": c, "model": m, "impl": im})
            if dom:
                f = judge(c, real)
                if f is not None and len(res.failures) < 200:
                    if sum(1 for g in res.failures if g.key == f.key) < 3:
                        res.failures.append(f)
            elif real["out"] == "ok" and c["w"] in ("oversampling", "sort_by_class") and -1 in c["cls"] and "base" not in real and len(res.observations) < 6:
                lost = sorted(set(range(len(c["cls"]))) - set(real["ids"]))
                if lost:
                    res.observations.append({"what": "unlabeled samples (-1) are dropped (outside the claim: labels in range)", "case": c, "lost": lost})
            if len(res.samples) < 5 and real["out"] == "ok" and real["len"] >= 3 and c["w"] in ("oversampling", "fewshot", "intra_class_shuffle", "classwise_subset", "percent_filter") and res.cases % 7 == 0:
                res.samples.append({"case": c, "indices": real["indices"], "tape": real["tape"]})
        self.exact_cut_leg(res)
        res.failures.sort(key=lambda f: len(json.dumps(f.input)))
        return res

    def exact_cut_leg(self, res):
        """the exact-rational cuts `exactCutF / exactCutC` (Model/C03Spec, the functions of the `*_exact_*` theorems) against the code's
        float expressions `int(p * n)`, `int(np.ceil(p * n))`, `int(p * torch.tensor(k))` for decimal percents p = k/100, k/8, k/3:
        agreement is counted; the grid points where binary floating point puts p * n on the other side of an integer (e.g.
        0.29 * 100 = 28.999999999999996) are listed as observations -- the partition / contiguity theorems hold for ANY monotone cut
        with cut(0) = 0 and cut(1) = n (proved for both), so such a point shifts a boundary by one sample but breaks no clause"""
        from fractions import Fraction
        ps = sorted({Fraction(k, 100) for k in range(0, 101)} | {Fraction(k, 8) for k in range(9)} | {Fraction(k, 3) for k in range(4)})
        ns = list(range(0, 41)) + [50, 64, 99, 100, 101, 128, 1000]
        rows = [[p.numerator, p.denominator, n] for p in ps for n in ns]
        ans = self.driver.run([{"op": "sel.exactCut", "rows": rows}])[0]
        dev = []
        for (a, b, n), (mf, mc) in zip(rows, ans):
            p = a / b
            got = (cutF(p, n), cutC(p, n), cutT(p, n))
            if got != (mf, mc, mf):
                dev.append({"p": f"{a}/{b}", "n": n, "exact_floor_ceil": [mf, mc], "float_floor_ceil_torchfloor": list(got)})
        res.cases += 1
        res.bump(f"exact-cut-grid-points={len(rows)}")
        res.bump(f"exact-cut-float-deviations={len(dev)}")
        if dev:
            res.observations.append({"what": f"float front end vs exact rational cut: {len(dev)} of {len(rows)} grid points differ (binary rounding of "
                                             "p*n across an integer); partition/contiguity are unaffected (proved for every monotone cut)",
                                     "first": dev[:8]})

    # ---- replay / search -------------------------------------------------------------------------
    def replay_input(self, inp):
        return judge(inp, run_real(inp))

    def search(self, budget_s, hints):
        t0 = time.time()
        out = []
        seen = set()

        def try_case(c):
            f = judge(c, run_real(c))
            if f is not None and f.key not in seen:
                seen.add(f.key)
                out.append(f)

        for h in hints:
            try_case(h)
            # neighbours of a disagreeing input that lie inside the domain (shrinks: shorter class list, default arguments)
            for k in range(len(h["cls"])):
                try_case(dict(h, cls=h["cls"][:k] + h["cls"][k + 1:]))
        rng = random.Random(self.seed + 303)
        gens = itertools.chain(odd_cases(rng), percent_cases(rng, [0, 1, 2, 3, 4, 7, 10], PERCENTS),
                               (c for cls in layouts(4, 3) for nc in nc_options(cls) for c in layout_only_cases(cls, nc)),
                               (c for cls in layouts(4, 3) for nc in nc_options(cls) for c in class_cases(rng, cls, nc, full=True)),
                               stack_cases(rng, 99, 3000))
        for c in gens:
            if out or time.time() - t0 > budget_s:
                break
            try_case(c)
        while not out and time.time() - t0 < budget_s:
            try_case(random_case(rng))
        return out
