"""Translator: Python source of /repo's transform / collator classes  ->  lean/KDVerif/Gen/RngTable.lean

For every class below kappadata.transforms, kappadata.common.transforms, kappadata.collators and
kappadata.common.collators that descends from KDTransform / KDCollatorBase the translator emits one `Row`
(see lean/KDVerif/Model/RngFlow.lean), *resolved through the real MRO*:

  hasCell     some class in the MRO assigns `self.rng` in `__init__`
  slots       `self.X = <child transform>` assignments in the `__init__`s of the MRO
              (constructor call of a KD class -> fixed; object_to_transform / a `transform(s)` parameter /
               comprehension of those -> dyn)
  setsOwn / forwards / raises   abstract interpretation of the resolved `set_rng` (following `super().set_rng`)
  globalDraw  any method of a kappadata class in the MRO calls a process-global RNG

Nothing is guessed: a construct that is not recognised makes the row *worse* (not forwarded / raises),
never better, so an unrecognised but harmless rewrite yields a failing obligation (reported as
`no-failing-input-found` when the dynamic probe finds nothing), not a silent pass.
"""
import ast
import builtins
import importlib
import inspect
import pkgutil
import sys
import textwrap
from pathlib import Path

VERIF = Path(__file__).resolve().parents[2]
GEN = VERIF / "lean" / "KDVerif" / "Gen"

PACKAGES = ["kappadata.transforms", "kappadata.common.transforms", "kappadata.collators", "kappadata.common.collators"]
GLOBAL_NP = {"rand", "randn", "randint", "random", "random_sample", "choice", "shuffle", "permutation", "uniform", "normal",
             "beta", "seed", "standard_normal", "binomial", "poisson", "exponential", "gamma", "bytes", "ranf", "sample",
             "random_integers", "triangular", "laplace", "lognormal", "multinomial", "dirichlet"}
GLOBAL_TORCH = {"rand", "randn", "randint", "randperm", "bernoulli", "multinomial", "normal", "rand_like", "randn_like",
                "randint_like", "poisson"}
GLOBAL_PY = {"random", "randint", "choice", "choices", "shuffle", "uniform", "sample", "gauss", "randrange", "betavariate",
             "normalvariate", "triangular"}
TENSOR_INPLACE = {"uniform_", "normal_", "random_", "bernoulli_", "exponential_", "geometric_", "cauchy_", "log_normal_"}


def iter_modules():
    mods, errors = [], []
    for pkg_name in PACKAGES:
        try:
            pkg = importlib.import_module(pkg_name)
        except Exception as e:
            errors.append((pkg_name, f"{type(e).__name__}: {e}"))
            continue
        mods.append(pkg)
        for m in pkgutil.walk_packages(pkg.__path__, prefix=pkg_name + "."):
            try:
                mods.append(importlib.import_module(m.name))
            except Exception as e:
                errors.append((m.name, f"{type(e).__name__}: {e}"))
    return mods, errors


def collect_classes():
    from kappadata.transforms.base.kd_transform import KDTransform
    from kappadata.collators.base.kd_collator_base import KDCollatorBase
    mods, errors = iter_modules()
    classes = {}
    for mod in mods:
        for name, obj in vars(mod).items():
            if inspect.isclass(obj) and issubclass(obj, (KDTransform, KDCollatorBase)) and obj.__module__.startswith("kappadata"):
                prev = classes.get(obj.__name__)
                if prev is not None and prev is not obj:
                    errors.append((obj.__name__, "duplicate class name in different modules"))
                classes[obj.__name__] = obj
    return classes, errors


def class_ast(cls):
    src = textwrap.dedent(inspect.getsource(cls))
    tree = ast.parse(src)
    return tree.body[0]


def func_of(cls_node, name):
    for n in cls_node.body:
        if isinstance(n, (ast.FunctionDef, ast.AsyncFunctionDef)) and n.name == name:
            return n
    return None


def is_self_attr(node, attr=None):
    return (isinstance(node, ast.Attribute) and isinstance(node.value, ast.Name) and node.value.id == "self"
            and (attr is None or node.attr == attr))


def kd_mro(cls):
    return [c for c in cls.__mro__ if c.__module__.startswith("kappadata")]


# ------------------------------------------------------------------------------------------------------
# slots
# ------------------------------------------------------------------------------------------------------
def classify_child_expr(expr, params, modglobals, base_types):
    """returns ('fixed', clsname) | ('dyn', None) | None"""
    if isinstance(expr, ast.Call):
        f = expr.func
        if isinstance(f, ast.Name):
            if f.id == "object_to_transform":
                return ("dyn", None)
            target = modglobals.get(f.id)
            if inspect.isclass(target) and issubclass(target, base_types):
                return ("fixed", target.__name__)
        return None
    if isinstance(expr, ast.ListComp) or isinstance(expr, ast.GeneratorExp):
        inner = classify_child_expr(expr.elt, params, modglobals, base_types)
        if inner is not None:
            return ("dyn", None)
        return None
    if isinstance(expr, (ast.List, ast.Tuple)):
        kinds = [classify_child_expr(e, params, modglobals, base_types) for e in expr.elts]
        if any(k is not None for k in kinds):
            return ("dyn", None)
        return None
    if isinstance(expr, ast.Name) and expr.id in params:
        low = expr.id.lower()
        if "transform" in low or "collator" in low:
            return ("dyn", None)
    return None


def slots_of(cls, base_types):
    slots = {}
    for c in kd_mro(cls):
        if "__init__" not in vars(c):
            continue
        node = class_ast(c)
        init = func_of(node, "__init__")
        if init is None:
            continue
        params = {a.arg for a in init.args.args + init.args.kwonlyargs}
        modglobals = vars(sys.modules[c.__module__])
        for n in ast.walk(init):
            if isinstance(n, ast.Assign):
                for tgt in n.targets:
                    tgts = tgt.elts if isinstance(tgt, ast.Tuple) else [tgt]
                    for t in tgts:
                        if is_self_attr(t):
                            k = classify_child_expr(n.value, params, modglobals, base_types)
                            if k is None:
                                continue
                            prev = slots.get(t.attr)
                            if prev is not None and prev != k:
                                k = ("dyn", None)
                            slots[t.attr] = k
    return slots


def has_cell(cls):
    for c in kd_mro(cls):
        if "__init__" not in vars(c):
            continue
        init = func_of(class_ast(c), "__init__")
        if init is None:
            continue
        for n in ast.walk(init):
            if isinstance(n, ast.Assign) and any(is_self_attr(t, "rng") for t in n.targets):
                return True
    return False


# ------------------------------------------------------------------------------------------------------
# set_rng abstract interpretation
# ------------------------------------------------------------------------------------------------------
class SetRngInfo:
    def __init__(self):
        self.sets_own = False
        self.forwards = set()
        self.partial = {}       # slot -> reason (guarded forwarding that is not `isinstance(·, KDTransform)`)
        self.raises = False
        self.abstract = False
        self.notes = []


def guard_is_total(test, var_src, modglobals, base_types):
    """`isinstance(<var>, G)` with the root base type among G -> every cell-owning child passes"""
    if not (isinstance(test, ast.Call) and isinstance(test.func, ast.Name) and test.func.id == "isinstance" and len(test.args) == 2):
        return False
    if ast.unparse(test.args[0]) != var_src:
        return False
    g = test.args[1]
    names = g.elts if isinstance(g, ast.Tuple) else [g]
    for nm in names:
        if isinstance(nm, ast.Name):
            obj = modglobals.get(nm.id)
            if inspect.isclass(obj) and obj in base_types:
                return True
    return False


def analyse_set_rng(cls, base_types, info=None, start_after=None):
    info = info or SetRngInfo()
    mro = kd_mro(cls)
    if start_after is not None:
        mro = mro[mro.index(start_after) + 1:]
    owner = next((c for c in mro if "set_rng" in vars(c)), None)
    if owner is None:
        info.notes.append("no set_rng in MRO")
        return info
    fn = func_of(class_ast(owner), "set_rng")
    modglobals = vars(sys.modules[owner.__module__])
    params = [a.arg for a in fn.args.args]
    rng_name = params[1] if len(params) > 1 else None
    bound = set(params)
    for n in ast.walk(fn):
        if isinstance(n, ast.Name) and isinstance(n.ctx, ast.Store):
            bound.add(n.id)
        if isinstance(n, ast.comprehension):
            for t in ast.walk(n.target):
                if isinstance(t, ast.Name):
                    bound.add(t.id)
    for n in ast.walk(fn):
        if isinstance(n, ast.Name) and isinstance(n.ctx, ast.Load):
            if n.id not in bound and n.id not in modglobals and not hasattr(builtins, n.id):
                info.raises = True
                info.notes.append(f"{owner.__name__}.set_rng: unbound name '{n.id}'")
        if isinstance(n, ast.Raise):
            info.raises = True
            info.notes.append(f"{owner.__name__}.set_rng raises")
    if (len(fn.body) == 1 and isinstance(fn.body[0], ast.Raise) and "NotImplementedError" in ast.unparse(fn.body[0])
            and owner is cls):
        info.abstract = True

    def is_set_rng_call(call, recv_src=None):
        return (isinstance(call, ast.Call) and isinstance(call.func, ast.Attribute) and call.func.attr == "set_rng"
                and len(call.args) == 1 and isinstance(call.args[0], ast.Name) and call.args[0].id == rng_name
                and (recv_src is None or ast.unparse(call.func.value) == recv_src))

    def visit(stmts, guards):
        for st in stmts:
            if isinstance(st, ast.If):
                visit(st.body, guards + [st.test])
                visit(st.orelse, guards + [ast.UnaryOp(op=ast.Not(), operand=st.test)])
                continue
            if isinstance(st, ast.For):
                # for t in self.X: [if isinstance(t, G):] t.set_rng(rng)
                it, var = st.iter, st.target
                if is_self_attr(it) and isinstance(var, ast.Name):
                    handle_loop(st.body, it.attr, var.id, guards)
                continue
            calls = [c for c in ast.walk(st) if isinstance(c, ast.Call)]
            for c in calls:
                if not is_set_rng_call(c):
                    continue
                recv = c.func.value
                if is_self_attr(recv):
                    record(recv.attr, ast.unparse(recv), guards)
                elif (isinstance(recv, ast.Call) and isinstance(recv.func, ast.Name) and recv.func.id == "super"):
                    analyse_set_rng(cls, base_types, info, start_after=owner)
            if isinstance(st, ast.Assign) and any(is_self_attr(t, "rng") for t in st.targets):
                if isinstance(st.value, ast.Name) and st.value.id == rng_name and not guards:
                    info.sets_own = True

    def record(slot, var_src, guards):
        if all(guard_is_total(g, var_src, modglobals, base_types) for g in guards):
            info.forwards.add(slot)
        else:
            info.partial[slot] = "guarded by " + " and ".join(ast.unparse(g) for g in guards)

    def handle_loop(body, slot, var, guards):
        for st in body:
            if isinstance(st, ast.If):
                handle_loop(st.body, slot, var, guards + [st.test])
                continue
            for c in ast.walk(st):
                if is_set_rng_call(c, var):
                    record(slot, var, guards)

    visit(fn.body, [])
    return info


# ------------------------------------------------------------------------------------------------------
# global RNG use
# ------------------------------------------------------------------------------------------------------
CALL_ROOTS = ("__call__", "forward", "get_params", "collate")


def call_reachable(cls):
    """names of methods (of kappadata classes in the MRO) transitively reachable from the call path via `self.<m>(...)`"""
    bodies = {}
    for c in reversed(kd_mro(cls)):
        node = class_ast(c)
        for fn in node.body:
            if isinstance(fn, (ast.FunctionDef, ast.AsyncFunctionDef)):
                bodies[fn.name] = fn
    seen, todo = set(), [r for r in CALL_ROOTS if r in bodies]
    while todo:
        m = todo.pop()
        if m in seen:
            continue
        seen.add(m)
        for n in ast.walk(bodies[m]):
            if isinstance(n, ast.Call) and is_self_attr(n.func) and n.func.attr in bodies:
                todo.append(n.func.attr)
    return seen


def global_draws(cls):
    hits = []
    reach = call_reachable(cls)
    for c in kd_mro(cls):
        node = class_ast(c)
        for fn in node.body:
            if not isinstance(fn, (ast.FunctionDef, ast.AsyncFunctionDef)):
                continue
            for n in ast.walk(fn):
                if not isinstance(n, ast.Call):
                    continue
                f = n.func
                src = ast.unparse(f)
                kw = {k.arg for k in n.keywords}
                if src.startswith(("np.random.", "numpy.random.")) and src.split(".")[-1] in GLOBAL_NP:
                    hits.append(f"{c.__name__}.{fn.name}: {src}")
                elif src.startswith("torch.") and src.split(".")[-1] in GLOBAL_TORCH and src.count(".") == 1 and "generator" not in kw:
                    hits.append(f"{c.__name__}.{fn.name}: {src} without generator")
                elif src.startswith("random.") and src.split(".")[-1] in GLOBAL_PY:
                    hits.append(f"{c.__name__}.{fn.name}: {src}")
                elif isinstance(f, ast.Attribute) and f.attr in TENSOR_INPLACE and "generator" not in kw:
                    hits.append(f"{c.__name__}.{fn.name}: .{f.attr}() without generator")
                elif src in ("get_rng_from_global", "kappadata.utils.random.get_rng_from_global") and fn.name in reach:
                    # deriving a generator from the global state is what construction / worker init are for;
                    # on the call path it would make every call depend on (and consume) the global state
                    hits.append(f"{c.__name__}.{fn.name}: get_rng_from_global() on the call path")
    return hits


# ------------------------------------------------------------------------------------------------------
def build_table():
    from kappadata.transforms.base.kd_transform import KDTransform
    from kappadata.collators.base.kd_collator_base import KDCollatorBase
    base_types = (KDTransform, KDCollatorBase)
    classes, errors = collect_classes()
    rows = []
    for name in sorted(classes):
        cls = classes[name]
        try:
            sl = slots_of(cls, base_types)
            info = analyse_set_rng(cls, base_types)
            if info.abstract:
                errors.append((name, "abstract set_rng (raise NotImplementedError): not a row; concrete subclasses are rows"))
                continue
            slot_list = [(s, k[0], k[1]) for s, k in sorted(sl.items())]
            row = {
                "name": name,
                "module": cls.__module__,
                "kind": "transform" if issubclass(cls, KDTransform) else "collator",
                "hasCell": has_cell(cls),
                "slots": slot_list,
                "setsOwn": info.sets_own,
                "forwards": sorted(info.forwards),
                "partial": info.partial,
                "raises": info.raises,
                "globalDraw": global_draws(cls),
                "notes": info.notes,
                "source": "static",
            }
            # what the code DOES decides (robust against refactorings the static reading cannot follow); the static reading
            # stays as a cross-check and is the only source for classes that cannot be built here
            if row["hasCell"] or slot_list:
                dyn = dynamic_set_rng_facts(name, cls, slot_list, base_types)
                if dyn is None:
                    row["_pending"] = (cls, slot_list)
                if dyn is not None:
                    static_view = (row["setsOwn"], row["forwards"], row["raises"])
                    row["setsOwn"] = dyn["setsOwn"] if row["hasCell"] else row["setsOwn"]
                    row["forwards"] = sorted(dyn["forwards"])
                    row["raises"] = dyn["raises"]
                    row["source"] = "dynamic"
                    row["notes"] = row["notes"] + dyn["notes"]
                    if static_view != (row["setsOwn"], row["forwards"], row["raises"]):
                        row["notes"].append(f"static reading differed: setsOwn/forwards/raises = {static_view}")
        except Exception as e:   # source not available etc.: emit the worst row
            row = {"name": name, "module": cls.__module__, "kind": "?", "hasCell": True, "slots": [], "setsOwn": False,
                   "forwards": [], "partial": {}, "raises": True, "globalDraw": [], "notes": [f"translator: {type(e).__name__}: {e}"]}
        rows.append(row)
    # second pass: classes that cannot be constructed here inherit the observation made on a class running the same code
    for row in rows:
        pend = row.pop("_pending", None)
        if pend is None:
            continue
        dyn = inherited_dynamic_facts(*pend)
        if dyn is not None:
            row["setsOwn"] = dyn["setsOwn"] if row["hasCell"] else row["setsOwn"]
            row["forwards"] = sorted(dyn["forwards"])
            row["raises"] = dyn["raises"]
            row["source"] = "dynamic (observed on a class resolving set_rng to the same code)"
        else:
            row["notes"].append("class cannot be constructed in this environment: static reading only")
    return rows, errors


# ------------------------------------------------------------------------------------------------------
# dynamic refinement: what the resolved set_rng of a class DOES, observed on a real instance
# ------------------------------------------------------------------------------------------------------
def _probe_children():
    """stochastic children of the four shapes a `set_rng` guard may treat differently"""
    import kappadata.transforms as T
    return [
        ("leaf", lambda: T.KDRandomCrop(size=4)),
        ("compose", lambda: T.KDComposeTransform([T.KDRandomCrop(size=4)])),
        ("patchwise", lambda: T.PatchwiseTransform(patch_size=4, transform=T.KDRandomCrop(size=4))),
        ("scheduled", lambda: T.KDScheduledTransform(transform=T.KDRandomCrop(size=4))),
    ]


def _probe_collator_children():
    import kappadata.collators as C
    return [("mix", lambda: C.KDMixCollator(mixup_alpha=0.8, mixup_p=1.0))]


def _cells(obj, base_types, seen=None):
    """all generator cells in the KD subtree below obj (obj included)"""
    import numpy as np
    seen = set() if seen is None else seen
    out = []
    if not isinstance(obj, base_types) or id(obj) in seen:
        return out
    seen.add(id(obj))
    r = vars(obj).get("rng")
    if isinstance(r, np.random.Generator):
        out.append(r)
    for v in vars(obj).values():
        if isinstance(v, base_types):
            out += _cells(v, base_types, seen)
        elif isinstance(v, (list, tuple)):
            for e in v:
                out += _cells(e, base_types, seen)
        elif isinstance(v, dict):
            for e in v.values():
                out += _cells(e, base_types, seen)
    return out


def _constructors(name, cls):
    """ways to build an instance: the harness recipes for the class, then a no-argument call"""
    out = []
    try:
        from .rngflow import recipes, collator_recipes
        out += [th for _, th, _ in recipes().get(name, [])]
        cr = collator_recipes()
        if name in cr:
            out.append(cr[name])
    except Exception:
        pass
    out.append(lambda: cls())

    def _mix():
        import kappadata.collators as C
        return C.KDMixCollator(mixup_alpha=0.8, mixup_p=1.0)

    def _leaf():
        import kappadata.transforms as T
        return T.KDRandomCrop(size=4)
    # generic constructor shapes of the package's composites
    out += [
        lambda: cls(collator=_mix(), dataset_mode="x class"),
        lambda: cls(collators=[_mix()], dataset_mode="x class"),
        lambda: cls(dataset_mode="x class", return_ctx=False),
        lambda: cls(transform=_leaf()),
        lambda: cls(transforms=[_leaf()]),
        lambda: cls(transform=_leaf(), p=0.5),
        lambda: cls(patch_size=4, transform=_leaf()),
        lambda: cls(p=0.5),
    ]
    return out


def resolved_closure(cls, root="set_rng"):
    """the function objects `root` resolves to on cls together with everything it (transitively) calls through `self.<m>(...)`.
    Two classes with the same closure and the same slots run literally the same code on the same attribute names."""
    seen, todo, out = set(), [root], []
    while todo:
        m = todo.pop()
        if m in seen:
            continue
        seen.add(m)
        f = inspect.getattr_static(cls, m, None)
        if isinstance(f, (staticmethod, classmethod)):
            f = f.__func__
        if isinstance(f, property):
            f = f.fget
        if not inspect.isfunction(f):
            continue
        out.append(f)
        try:
            tree = ast.parse(textwrap.dedent(inspect.getsource(f)))
        except (OSError, TypeError, SyntaxError):
            continue
        for n in ast.walk(tree):
            if isinstance(n, ast.Call) and is_self_attr(n.func):
                todo.append(n.func.attr)
            elif is_self_attr(n) and isinstance(inspect.getattr_static(cls, n.attr, None), property):
                todo.append(n.attr)
    return tuple(sorted(id(f) for f in out))


_DYN_CACHE = {}


def dynamic_set_rng_facts(name, cls, slots, base_types):
    key = (resolved_closure(cls), tuple(slots))
    facts = _dynamic_set_rng_facts(name, cls, slots, base_types)
    if facts is not None:
        _DYN_CACHE.setdefault(key, facts)
        return facts
    return None


def inherited_dynamic_facts(cls, slots):
    """for a class that cannot be built here: the facts observed on another class that resolves set_rng to the very same code
    (same function objects for set_rng and everything it calls on self) over the same slots"""
    return _DYN_CACHE.get((resolved_closure(cls), tuple(slots)))


def _dynamic_set_rng_facts(name, cls, slots, base_types):
    """returns None (class cannot be built here) or {setsOwn, raises, forwards: set, notes}"""
    import numpy as np
    from kappadata.collators.base.kd_collator_base import KDCollatorBase
    inst = None
    for th in _constructors(name, cls):
        try:
            np.random.seed(123)
            inst = th()
            if type(inst) is cls:
                break
            inst = None
        except Exception:
            inst = None
    if inst is None:
        return None
    facts = {"raises": False, "setsOwn": False, "forwards": set(), "notes": []}
    sentinel = np.random.default_rng(987654321)
    try:
        inst.set_rng(sentinel)
    except Exception as e:
        facts["raises"] = True
        facts["notes"].append(f"dynamic: set_rng raised {type(e).__name__}: {e}")
        return facts
    facts["setsOwn"] = vars(inst).get("rng") is sentinel
    probes = _probe_collator_children() if issubclass(cls, KDCollatorBase) else _probe_children()
    for slot, kind, fixed_cls in slots:
        if slot not in vars(inst):
            continue
        original = vars(inst)[slot]
        ok = True
        if kind == "fixed":
            s2 = np.random.default_rng(555)
            try:
                inst.set_rng(s2)
                ok = all(c is s2 for c in _cells(original, base_types))
            except Exception as e:
                facts["raises"] = True
                ok = False
        else:
            for pname, pth in probes:
                child = pth()
                injected = [child] if isinstance(original, (list, tuple)) else child
                try:
                    setattr(inst, slot, injected)
                    s2 = np.random.default_rng(556)
                    inst.set_rng(s2)
                    cells = _cells(child, base_types)
                    if not cells or not all(c is s2 for c in cells):
                        ok = False
                        facts["notes"].append(f"dynamic: slot '{slot}' does not reach a {pname} child")
                except Exception as e:
                    facts["raises"] = True
                    ok = False
                    facts["notes"].append(f"dynamic: set_rng with a {pname} child in '{slot}' raised {type(e).__name__}: {e}")
                finally:
                    setattr(inst, slot, original)
        if ok:
            facts["forwards"].add(slot)
    return facts


# python twin of Lean's rowOk (used only to point the failing-input search at offending rows)
def cell_free(rows_by_name, fuel, cls):
    if fuel == 0:
        return False
    r = rows_by_name.get(cls)
    if r is None:
        return False
    return (not r["hasCell"]) and all(k == "fixed" and cell_free(rows_by_name, fuel - 1, c) for _, k, c in r["slots"])


def row_problems(rows):
    by = {r["name"]: r for r in rows}
    out = {}
    for r in rows:
        p = []
        if r["raises"]:
            p.append("set_rng raises: " + "; ".join(r["notes"]))
        if r["globalDraw"]:
            p.append("global RNG: " + "; ".join(r["globalDraw"]))
        if r["hasCell"] and not r["setsOwn"]:
            p.append("own cell not set by set_rng")
        for s, k, c in r["slots"]:
            if s in r["forwards"]:
                continue
            if k == "fixed" and cell_free(by, len(rows), c):
                continue
            p.append(f"slot '{s}' ({k}{' ' + c if c else ''}) not reached by set_rng" + (f" ({r['partial'][s]})" if s in r["partial"] else ""))
        if p:
            out[r["name"]] = p
    return out


def lean_str(s):
    return '"' + s.replace("\\", "\\\\").replace('"', '\\"') + '"'


def emit(rows, errors):
    lines = ["/- GENERATED by harness/kdv/translate_rngflow.py from /repo — do not edit. -/",
             "import KDVerif.Model.RngFlow", "", "namespace KDVerif.Gen.RngTable", "open KDVerif.RngFlow", "",
             "def table : Table := ["]
    body = []
    for r in rows:
        slots = ", ".join(
            f"⟨{lean_str(s)}, " + (f".fixed {lean_str(c)}" if k == "fixed" else ".dyn") + "⟩" for s, k, c in r["slots"])
        fw = ", ".join(lean_str(s) for s in r["forwards"])
        body.append(f"  {{ name := {lean_str(r['name'])}, hasCell := {str(r['hasCell']).lower()}, slots := [{slots}], "
                    f"setsOwn := {str(r['setsOwn']).lower()}, forwards := [{fw}], raises := {str(r['raises']).lower()}, "
                    f"globalDraw := {str(bool(r['globalDraw'])).lower()} }}")
    lines.append(",\n".join(body))
    lines += ["]", "", "end KDVerif.Gen.RngTable", ""]
    return "\n".join(lines)


def generate():
    rows, errors = build_table()
    text = emit(rows, errors)
    GEN.mkdir(parents=True, exist_ok=True)
    p = GEN / "RngTable.lean"
    changed = (not p.exists()) or p.read_text() != text
    if changed:
        p.write_text(text)
    return rows, errors, changed


if __name__ == "__main__":
    rows, errors, changed = generate()
    print(f"rows={len(rows)} changed={changed} import_errors={errors}")
    for n, p in row_problems(rows).items():
        print("PROBLEM", n, p)
