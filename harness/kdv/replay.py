"""bin/replay <Cxx> <file>: run the property oracle of a recorded counterexample on the implementation"""
import json
import sys

from .check import registry


def main():
    pid, path = sys.argv[1], sys.argv[2]
    d = json.load(open(path))
    if d.get("kind") != "counterexample":
        print(f"{path}: kind={d.get('kind')}: names the obligation/correspondence that no longer checks; nothing to execute")
        print(json.dumps(d.get("broken"), indent=1)[:4000])
        return 1
    cls = registry()[pid]
    chk = cls("quick", 0)
    f = chk.replay_input(d["input"])
    if f is None:
        print("property holds on this input now")
        return 0
    print(f"STILL FAILS: {f.key}: {f.what}\n expected: {json.dumps(f.expected, default=str)[:2000]}\n actual:   {json.dumps(f.actual, default=str)[:2000]}")
    return 1


if __name__ == "__main__":
    sys.exit(main())
