"""Generates /verif/MANIFEST.json from the check registry (run: bin/gen_manifest)."""
import json
from pathlib import Path

from .check import registry

VERIF = Path(__file__).resolve().parents[2]
BASE_CMD = ("cd /repo && /venv/bin/python -m pytest -ra -q -p no:cacheprovider --timeout=900 "
            "--continue-on-collection-errors --junitxml=/tmp/kdv_baseline.junit.xml")
ALL = [f"C{i:02d}" for i in range(1, 21)]


def main():
    reg = registry()
    checks = []
    for pid in ALL:
        cls = reg.get(pid)
        if cls is None or not getattr(cls, "claimed", False):
            continue
        n_thm = 0
        for m in getattr(cls, "props_modules", []):
            f = VERIF / "lean" / (m.replace(".", "/") + ".lean")
            if f.exists():
                import re
                n_thm += len(re.findall(r"^theorem\s", f.read_text(), flags=re.M))
        text = cls.level_text + (f" [{n_thm} audited theorems in {', '.join(getattr(cls, 'props_modules', []))}; the complete inventory with the "
                                 f"clause each one states is in DESIGN.md 11.9]" if n_thm else "")
        checks.append({
            "property_id": pid,
            "quick_cmd": f"bin/check {pid} quick",
            "thorough_cmd": f"bin/check {pid} thorough",
            "evidence_file": f"evidence/{pid}.json",
            "replay_cmd_template": f"bin/replay {pid} {{path}}",
            "engine": "kdverif-lean",
            "level_claimed": {"category": "proof", "text": text, "design_ref": cls.design_ref},
            "level_note": cls.level_note,
            "technique": cls.technique,
        })
    na = []
    for pid in ALL:
        if pid not in {c["property_id"] for c in checks}:
            reason = getattr(reg.get(pid), "na_reason", None) or "check not built yet in this round (no claim made); see DESIGN.md section 3 for the plan"
            na.append({"property_id": pid, "reason": reason})
    man = {
        "version": 1,
        "setup_cmd": "bin/setup",
        "hooks": {
            "guard": "KAPPADATA_VERIF",
            "enable": "no source hooks: every observation uses harness-side proxies (recording RNGs, instrumented samplers/datasets, audit hooks); bin/check exports KAPPADATA_VERIF=1 for uniformity",
            "baseline_off_cmd": BASE_CMD,
            "source_commits": [],
            "add_only": True,
        },
        "engines": [
            {"name": "kdverif-lean", "path": "lean", "serves_properties": [c["property_id"] for c in checks],
             "kind_free_text": "Lean 4 library KDVerif: executable models (Model/), property theorems (Props/), generated tables (Gen/), JSON-lines driver (Driver.lean)"},
            {"name": "kdv-harness", "path": "harness/kdv", "serves_properties": [c["property_id"] for c in checks],
             "kind_free_text": "Python: correspondence (model vs implementation), translators, independent property oracles, failing-input search, evidence"},
        ],
        "checks": checks,
        "not_applicable": na,
        "notes": "All checks decide by machine-checked proof in Lean 4 over a model tied to /repo on every run by differential correspondence and/or regenerated tables. Exit 2 = infrastructure failure.",
    }
    (VERIF / "MANIFEST.json").write_text(json.dumps(man, indent=1) + "\n")
    print(f"claimed={len(checks)} not_applicable={len(na)}")


if __name__ == "__main__":
    main()
