"""C02 — stacked subsets / concats / wrappers address the right underlying sample.

case generator (random nestings, depth <= 5), real-code runner (real KDSubset / SubsetWrapper / ShuffleWrapper / RepeatWrapper /
KDConcatDataset / KDWrapper subclasses over an id-encoded base), independent property oracle, PropertyCheck subclass.

Every in-domain stack is also followed through a later life (`run_history`, judged by `judge_history` with the same statement as the
first reads, on the index maps the layers hold at that moment): index maps changed in place / replaced between reads, deepcopy and
pickle copies of the used stack, a second instance alive at the same time, a second stack on top of shared layers.

Every in-domain stack is also built a second time over INDEX-DERIVED roots (`run_strict`, judged by `judge_strict`): a root whose sample
is computed from the index it is asked for (like an offset into a file / a synthetic dataset) instead of looked up in a Python list, so
that a layer which forwards a negative index it should have translated itself (k -> len + k at the layer that receives it) addresses a
visibly different sample. Only indices whose route through the layers' index maps ends at a non-negative root index are judged.
"""
import copy
import itertools
import json
import pickle
import random
import signal
import time
import warnings
from pathlib import Path

from .common import CorrResult, Disagreement, Failure, PropertyCheck

CODE = 1000          # sample i of base b is the integer b * CODE + i
TY_KDSUBSET, TY_SUBSETW, TY_SHUFFLE, TY_REPEAT, TY_PLAIN, TY_PLAIN2, TY_XTRANSFORM, TY_LABELSMOOTH = 1, 2, 3, 4, 5, 6, 7, 8
ALL_TYS = [1, 2, 3, 4, 5, 6, 7, 8]
SUBSET_CLS = {TY_KDSUBSET: "KDSubset", TY_SUBSETW: "SubsetWrapper", TY_SHUFFLE: "ShuffleWrapper", TY_REPEAT: "RepeatWrapper"}
WRAP_CLS = {TY_PLAIN: "Plain", TY_PLAIN2: "Plain2", TY_XTRANSFORM: "XTransformWrapper", TY_LABELSMOOTH: "LabelSmoothingWrapper"}
MAX_SIZE = 48


# ----------------------------------------------------------------------------------------------
# real objects
# ----------------------------------------------------------------------------------------------
_CLASSES = {}


def _classes():
    """lazily import the package under test and define the harness-side leaf / trivial wrapper classes"""
    if _CLASSES:
        return _CLASSES
    import numpy as np
    import torch
    from kappadata.datasets.kd_dataset import KDDataset
    from kappadata.datasets.kd_wrapper import KDWrapper
    from kappadata.datasets.kd_subset import KDSubset
    from kappadata.datasets.kd_concat_dataset import KDConcatDataset
    from kappadata.wrappers.dataset_wrappers.subset_wrapper import SubsetWrapper
    from kappadata.wrappers.dataset_wrappers.shuffle_wrapper import ShuffleWrapper
    from kappadata.wrappers.dataset_wrappers.repeat_wrapper import RepeatWrapper
    from kappadata.wrappers.sample_wrappers.x_transform_wrapper import XTransformWrapper
    from kappadata.wrappers.sample_wrappers.label_smoothing_wrapper import LabelSmoothingWrapper

    class Base(KDDataset):
        """item i of base b is b*CODE+i; getitem_x uses Python list indexing like tests_util IndexDataset"""

        def __init__(self, bid, n, kind, log, strict=False):
            super().__init__()
            self.bid, self.n, self.kind, self.log, self.strict = bid, n, kind, log, strict
            self.data = [bid * CODE + i for i in range(n)]
            self.kdvattr_0 = bid
            if kind != "absent":
                self.getall_x = self._getall_x

        def getitem_x(self, idx, ctx=None):
            if self.strict:
                # index-derived root: the sample is computed from the index (no sequence lookup that would forgive a negative index)
                return self.bid * CODE + int(idx)
            return self.data[idx]

        def _getall_x(self):
            if self.kind == "list":
                # like real datasets (`return self.targets`): every second base hands out its STORED list, so a layer that
                # modifies a bulk result in place corrupts the dataset for later reads
                return self.data if self.bid % 2 == 1 else list(self.data)
            if self.kind == "tensor":
                return torch.tensor(self.data, dtype=torch.long)
            return np.array(self.data, dtype=np.int64)

        def getshape_x(self):
            return (self.bid + 1,)

        def __len__(self):
            return self.n

        def dispose(self):
            self.log.append(self.bid)

    class Plain(KDWrapper):
        pass

    class Plain2(KDWrapper):
        pass

    # the harness-side classes live in a function: publish them under module-level names so that stacks can be pickled
    for cls in (Base, Plain, Plain2):
        cls.__qualname__ = f"_kdv_{cls.__name__}"
        cls.__module__ = __name__
        globals()[cls.__qualname__] = cls

    _CLASSES.update(np=np, torch=torch, Base=Base, Plain=Plain, Plain2=Plain2, KDSubset=KDSubset, KDConcatDataset=KDConcatDataset,
                    SubsetWrapper=SubsetWrapper, ShuffleWrapper=ShuffleWrapper, RepeatWrapper=RepeatWrapper,
                    XTransformWrapper=XTransformWrapper, LabelSmoothingWrapper=LabelSmoothingWrapper, KDWrapper=KDWrapper)
    return _CLASSES


def _identity(x):
    return x


def ty_to_class(ty):
    C = _classes()
    return {TY_KDSUBSET: C["KDSubset"], TY_SUBSETW: C["SubsetWrapper"], TY_SHUFFLE: C["ShuffleWrapper"], TY_REPEAT: C["RepeatWrapper"],
            TY_PLAIN: C["Plain"], TY_PLAIN2: C["Plain2"], TY_XTRANSFORM: C["XTransformWrapper"],
            TY_LABELSMOOTH: C["LabelSmoothingWrapper"]}[ty]


def _container(idx, cont):
    C = _classes()
    if cont == "np":
        return C["np"].array(idx, dtype=C["np"].int64)
    if cont == "torch":
        return C["torch"].tensor(idx, dtype=C["torch"].long)
    if cont == "np32":
        return C["np"].array(idx, dtype=C["np"].int32)
    if cont == "torch32":
        return C["torch"].tensor(idx, dtype=C["torch"].int32)
    return list(idx)


def construct(spec, env):
    """builds the real object of a spec node bottom-up; env collects uid -> object, the dispose log and the index lists
    selection wrappers computed themselves"""
    C = _classes()
    t = spec["t"]
    if t == "base":
        obj = C["Base"](spec["id"], spec["n"], spec["kind"], env["log"], strict=bool(env.get("strict")))
        env["bases"][spec["id"]] = obj
        return obj
    if t == "concat":
        parts = [construct(p, env) for p in spec["ds"]]
        return C["KDConcatDataset"](parts, balanced_sampling=spec["bal"])
    inner = construct(spec["d"], env)
    ty = spec["ty"]
    if t == "subset":
        if ty == TY_KDSUBSET:
            obj = C["KDSubset"](inner, _container(spec["idx"], spec.get("cont", "list")))
        elif ty == TY_SUBSETW:
            obj = C["SubsetWrapper"](inner, indices=_container(spec["idx"], spec.get("cont", "list")))
        elif ty == TY_SHUFFLE:
            obj = C["ShuffleWrapper"](inner, seed=spec["seed"])
        elif ty == TY_REPEAT:
            obj = C["RepeatWrapper"](inner, repetitions=spec["reps"])
        else:
            raise ValueError(ty)
        spec["idx"] = [int(i) for i in obj.indices]    # the index map this layer really holds
    else:
        if ty == TY_PLAIN:
            obj = C["Plain"](inner)
        elif ty == TY_PLAIN2:
            obj = C["Plain2"](inner)
        elif ty == TY_XTRANSFORM:
            obj = C["XTransformWrapper"](inner, transform=_identity)
        elif ty == TY_LABELSMOOTH:
            obj = C["LabelSmoothingWrapper"](inner, smoothing=0.)
        else:
            raise ValueError(ty)
    setattr(obj, f"kdvattr_{ty}", spec["uid"])
    obj._kdv_uid = spec["uid"]
    env["objs"][spec["uid"]] = obj
    return obj


class _Timeout(Exception):
    pass


_NOBODY = object()


def _alarm(signum, frame):
    raise _Timeout()


def _exc_name(e):
    return type(e).__name__


def _decode(v):
    v = int(v)
    return [v // CODE, v % CODE]


def _guard(f):
    try:
        return f()
    except _Timeout:
        raise
    except Exception as e:  # noqa: the exception kind is the observation
        return _exc_name(e)


def uids_of(spec):
    out = []
    if spec["t"] in ("subset", "wrap"):
        out.append(spec["uid"])
        out += uids_of(spec["d"])
    elif spec["t"] == "concat":
        for p in spec["ds"]:
            out += uids_of(p)
    return out


def _read(ds, ks, converters=True, ktype="int"):
    """everything the property speaks about for one stack object as it is now: len, per-sample access, bulk access, converters
    (ktype: the integer type the per-sample indices are handed over in - samplers built on numpy yield numpy integers)"""
    C = _classes()
    from kappadata.utils.getall_as_tensor import getall_as_list, getall_as_numpy, getall_as_tensor
    out = {"len": _guard(lambda: len(ds))}
    conv_k = C["np"].int64 if ktype == "np.int64" else int
    out["items"] = [_guard(lambda k=k: _decode(ds.getitem_x(conv_k(k)))) for k in ks]

    def bulk():
        r = ds.getall_x()
        kind = "list" if isinstance(r, list) else "tensor" if C["torch"].is_tensor(r) else \
            "ndarray" if isinstance(r, C["np"].ndarray) else type(r).__name__
        return [kind, [_decode(v) for v in r]]

    out["getall"] = _guard(bulk)
    if not converters:
        return out

    def conv(f, want):
        r = f(ds, item="x")
        if not want(r):
            return f"wrong-type:{type(r).__name__}"
        return [_decode(v) for v in (r.tolist() if not isinstance(r, list) else r)]

    out["as_list"] = _guard(lambda: conv(getall_as_list, lambda r: isinstance(r, list)))
    out["as_numpy"] = _guard(lambda: conv(getall_as_numpy, lambda r: isinstance(r, C["np"].ndarray)))
    out["as_tensor"] = _guard(lambda: conv(getall_as_tensor, C["torch"].is_tensor))
    return out


def run_real(case):
    """same answer layout as the Lean driver's im.run (plus `getdim`, which is checked against `root`)"""
    _classes()
    env = {"log": [], "bases": {}, "objs": {}}
    old = signal.signal(signal.SIGALRM, _alarm)
    signal.setitimer(signal.ITIMER_REAL, 5.0)
    try:
        with warnings.catch_warnings():
            warnings.simplefilter("ignore")
            try:
                ds = construct(case["ds"], env)
            except _Timeout:
                return {"build": "timeout"}
            except Exception as e:  # noqa
                return {"build": _exc_name(e)}
            out = {"build": "ok"}
            first = _read(ds, case["ks"])
            out["len"], out["items"], out["getall"] = first["len"], first["items"], first["getall"]
            out["hasattr"] = hasattr(ds, "getall_x")
            out["as_list"], out["as_numpy"], out["as_tensor"] = first["as_list"], first["as_numpy"], first["as_tensor"]
            # state carried across calls: reading again (bulk and per sample) must give what the first reads gave
            again = _read(ds, case["ks"], converters=False)
            out["_again"] = {"getall": again["getall"], "items": again["items"], "len": again["len"]}
            out["root"] = _guard(lambda: _bid(ds.root_dataset))
            out["getdim"] = _guard(lambda: ds.getdim_x() - 1)
            out["wrappers"] = _guard(lambda: [[_uid(w), _ty_of(w)] for w in ds.all_wrappers])
            out["wrapper_types"] = _guard(lambda: [_ty_of_type(t) for t in ds.all_wrapper_types])
            out["of_type"] = [_guard(lambda t=t: [_uid(w) for w in ds.get_wrappers_of_type(ty_to_class(t))]) for t in case["tys"]]
            out["has_type"] = [_guard(lambda t=t: bool(ds.has_wrapper_type(ty_to_class(t)))) for t in case["tys"]]
            out["has"] = [_guard(lambda u=u: bool(ds.has_wrapper(env["objs"].get(u, _NOBODY)))) for u in case["uids"]]
            out["lookup"] = [_guard_attr(ds, f"kdvattr_{t}") for t in [0] + case["tys"]]
            # the same stack over roots that derive the sample from the index they are asked for (oracle only)
            out["_strict"] = run_strict(case)
            if case.get("hist"):
                # the stack has been used by now: its later life (index maps changed in place / replaced, copies, a second instance)
                out["_hist"] = run_history(ds, env, case)
            del env["log"][:]
            r = _guard(lambda: ds.dispose())
            out["dispose"] = list(env["log"]) if r is None else r
            return out
    except _Timeout:
        return {"build": "timeout"}
    finally:
        signal.setitimer(signal.ITIMER_REAL, 0)
        signal.signal(signal.SIGALRM, old)


# ----------------------------------------------------------------------------------------------
# index-derived roots: the same stack over roots that compute the sample from the index (no list lookup)
# ----------------------------------------------------------------------------------------------
def run_strict(case):
    """builds the stack of the case a second time over index-derived roots and reads len / per-sample / bulk once; nothing is judged
    here. Returns {spec, ks, ktype, reads} or None (out of domain / cannot be built: the ordinary instance is judged for that)."""
    spec = copy.deepcopy(case["ds"])           # construct() has filled in the index maps of the selection wrappers
    if not _in_domain_safe(spec):
        return None
    env = {"log": [], "bases": {}, "objs": {}, "strict": True}
    try:
        ds = construct(spec, env)
    except _Timeout:
        raise
    except Exception as e:  # noqa
        return {"error": _exc_name(e)}
    seed = (case.get("hist") or {}).get("seed", 0)
    ktype = "np.int64" if seed % 3 == 1 else "int"
    return {"spec": spec, "ks": list(case["ks"]), "ktype": ktype, "reads": _read(ds, case["ks"], converters=False, ktype=ktype)}


# ----------------------------------------------------------------------------------------------
# histories: what happens to a stack after it has been used
# ----------------------------------------------------------------------------------------------
HIST_MODES = ["inplace", "inplace", "inplace", "copy", "copy", "twin", "sibling"]
ASSIGN_CONTS = ["list", "np", "torch", "np32", "torch32"]


def with_hist(case, hrng):
    """attaches a history (mode + seed, the steps are derived from them once the real index maps are known) to a case"""
    if "hist" not in case:
        case["hist"] = {"mode": hrng.choice(HIST_MODES), "seed": hrng.randrange(1 << 30)}
    return case


def _subset_nodes(spec, below=None):
    """(node, what sits above it: None = only wrappers, "subset", "concat") for every subset layer of the stack"""
    t = spec["t"]
    if t == "base":
        return []
    if t == "concat":
        return [x for p in spec["ds"] for x in _subset_nodes(p, "concat")]
    if t == "subset":
        return [(spec, below)] + _subset_nodes(spec["d"], below or "subset")
    return _subset_nodes(spec["d"], below)


def _children(obj):
    """public structure of the real classes (torch Subset.dataset / ConcatDataset.datasets / KDWrapper.dataset)"""
    C = _classes()
    if isinstance(obj, C["KDConcatDataset"]):
        return list(obj.datasets)
    if isinstance(obj, (C["KDSubset"], C["KDWrapper"])):
        return [obj.dataset]
    return []


def _layer_objects(obj, acc=None):
    """uid -> layer object of a stack the harness did not construct itself (a copy)"""
    acc = {} if acc is None else acc
    uid = obj.__dict__.get("_kdv_uid")
    if uid is not None:
        acc[uid] = obj
    for c in _children(obj):
        _layer_objects(c, acc)
    return acc


def _new_values(node, rng, m):
    """m valid positions of the layer below `node` (None: that layer has none)"""
    n = spec_size(node["d"])
    if n is None:
        return [rng.randint(0, 11) for _ in range(m)]
    if n == 0:
        return None if m else []
    if rng.random() < 0.5:
        return [rng.randint(0, n - 1) for _ in range(m)]
    return [rng.randint(-n, n - 1) for _ in range(m)]


def _mutate(spec, objs, rng):
    """changes the index map of one subset layer of the real stack (objs: uid -> object) and of `spec` alike; returns a description of
    the step or None if there is nothing to change. In place = element-wise writes into the container the layer holds (what
    rng.shuffle(layer.indices) / layer.indices[:] = ... do); containers that cannot be written (range, tuple) get a new object."""
    nodes = [(nd, b) for nd, b in _subset_nodes(spec) if nd["uid"] in objs]
    if not nodes:
        return None
    node, below = rng.choice(nodes)
    obj = objs[node["uid"]]
    old = list(node["idx"])
    ops = ["perm", "perm", "assign-perm"]
    if node["ty"] in (TY_KDSUBSET, TY_SUBSETW):
        ops += ["set", "fill", "assign"]
        if below != "concat":
            ops += ["resize"]        # a concat fixes its part boundaries at construction: parts keep their size
    op = rng.choice(ops)
    if op in ("perm", "assign-perm"):
        new = list(old)
        if len(new) == 2 or (new and rng.random() < 0.3):
            r = rng.randrange(1, len(new)) if len(new) > 1 else 0
            new = new[r:] + new[:r]
        else:
            rng.shuffle(new)
    elif op == "set":
        new = list(old)
        v = _new_values(node, rng, 1)
        if not new or not v:
            return None
        new[rng.randrange(len(new))] = v[0]
    else:
        m = len(old)
        if op == "resize":
            # below another subset layer the map only grows (the positions that layer addresses stay valid)
            m = rng.choice([len(old) + 1, len(old) + 2] + ([0, 1, 2, max(len(old) - 1, 0)] if below is None else []))
        new = _new_values(node, rng, m)
        if new is None:
            return None
    step = {"uid": node["uid"], "layer": SUBSET_CLS[node["ty"]], "op": op, "old": old, "new": new}
    if op in ("perm", "set", "fill"):
        try:
            ind = obj.indices
            for j, v in enumerate(new):
                ind[j] = v
            step["how"] = f"in place ({type(ind).__name__})"
        except _Timeout:
            raise
        except Exception:  # noqa: range / tuple / read-only array
            obj.indices = list(new)
            step["how"] = "new list (container not writable)"
    else:
        cont = rng.choice(ASSIGN_CONTS)
        obj.indices = _container(new, cont)
        step["how"] = f"new {cont} object"
    node["idx"] = list(new)
    return step


def _stage(who, step, spec, ks, ds, ktype="int"):
    return {"who": who, "step": step, "spec": copy.deepcopy(spec), "ks": list(ks), "ktype": ktype, "reads": _read(ds, ks, ktype=ktype)}


def _ks_now(spec, rng, ks):
    """ks of the case while the stack keeps its size, a fresh window otherwise"""
    size = spec_size(spec)
    if size is None or (ks and max(ks) == size):
        return ks
    return ks_for(spec, size, rng)


def run_history(ds, env, case):
    """the later life of the used stack `ds`; returns stages {who, step, spec (what the stack is now), ks, reads}.
    Every random choice derives from case["hist"]; nothing here is judged (the oracle does that on the stages)."""
    spec = copy.deepcopy(case["ds"])       # construct() has filled in the index maps the layers really hold
    try:
        if not in_domain(spec):
            return []
    except _OutOfClaim:
        return []
    mode, rng = case["hist"]["mode"], random.Random(f"hist:{case['hist']['seed']}")
    ks = list(case["ks"])
    stages = []
    kt = rng.choice(["int", "int", "int", "np.int64"])
    if mode == "inplace":
        # same objects, the index map of a layer is re-drawn / edited / replaced between two reads (new epoch)
        for _ in range(rng.randint(1, 3)):
            step = _mutate(spec, env["objs"], rng)
            if step is None:
                break
            ks = _ks_now(spec, rng, ks)
            stages.append(_stage("same objects", step, spec, ks, ds, kt))
    elif mode == "copy":
        # a copy of the used stack (deepcopy / pickle round trip as to a worker process) is a stack of its own
        how = rng.choice(["deepcopy", "pickle"])
        try:
            cp = copy.deepcopy(ds) if how == "deepcopy" else pickle.loads(pickle.dumps(ds))
            cp_objs = _layer_objects(cp)
        except _Timeout:
            raise
        except Exception as e:  # noqa: a stack that cannot be copied is not judged
            return [{"who": how, "error": _exc_name(e), "judged": False}]
        stages.append(_stage(f"{how} of the used stack", None, spec, ks, cp, kt))
        orig = copy.deepcopy(spec)
        step = _mutate(spec, cp_objs, rng)
        if step is not None:
            ks2 = _ks_now(spec, rng, ks)
            stages.append(_stage(f"{how} of the used stack", step, spec, ks2, cp, kt))
            stages.append(_stage(f"original after its {how} was changed", None, orig, ks, ds))
    elif mode == "twin":
        # a second instance of the same stack with another index map in one layer is alive at the same time
        env2 = {"log": [], "bases": {}, "objs": {}}
        tspec = copy.deepcopy(case["ds"])
        try:
            twin = construct(tspec, env2)
        except _Timeout:
            raise
        except Exception as e:  # noqa: the first instance of this very stack could be constructed
            return [{"who": "second instance", "error": _exc_name(e), "judged": True, "spec": spec}]
        step = _mutate(tspec, env2["objs"], rng)          # before the twin was ever read
        kst = _ks_now(tspec, rng, ks)
        stages.append(_stage("second instance (changed before its first read)", step, tspec, kst, twin))
        stages.append(_stage("first instance after the second one was read", None, spec, ks, ds))
        step = _mutate(tspec, env2["objs"], rng)
        if step is not None:
            kst = _ks_now(tspec, rng, kst)
            stages.append(_stage("second instance", step, tspec, kst, twin, kt))
            stages.append(_stage("first instance after the second one was changed", None, spec, ks, ds))
    elif mode == "sibling":
        # a second stack is put on top of the used one: both share every layer below, a change of a shared layer shows in both
        size = spec_size(spec)
        if size is None:
            idx = [rng.randint(0, 11) for _ in range(rng.randint(1, 6))]
        else:
            idx = [rng.randrange(-size, size) for _ in range(rng.choice([size, size, size + 1, 2]))] if size else []
        cont = rng.choice(ASSIGN_CONTS)
        suid = max(uids_of(spec) + [100]) + 500
        sspec = {"t": "subset", "uid": suid, "ty": TY_KDSUBSET, "cont": cont, "idx": idx, "d": spec}
        try:
            sib = _classes()["KDSubset"](ds, _container(idx, cont))
        except _Timeout:
            raise
        except Exception as e:  # noqa
            return [{"who": "KDSubset on top of the used stack", "error": _exc_name(e), "judged": True, "spec": copy.deepcopy(sspec)}]
        objs = dict(env["objs"])
        objs[suid] = sib
        kss = ks_for(sspec, len(idx), rng)
        stages.append(_stage("KDSubset on top of the used stack", None, sspec, kss, sib, kt))
        for _ in range(rng.randint(1, 2)):
            step = _mutate(sspec, objs, rng)
            if step is None:
                break
            kss = _ks_now(sspec, rng, kss)
            ks = _ks_now(spec, rng, ks)
            stages.append(_stage("KDSubset on top of the used stack", step, sspec, kss, sib, kt))
            stages.append(_stage("used stack below the new KDSubset", step, spec, ks, ds))
    return stages


def _uid(obj):
    """identity of a layer object (read from the instance dict: attribute delegation must not answer for another layer)"""
    return obj.__dict__.get("_kdv_uid", f"not-a-layer:{type(obj).__name__}")


def _bid(obj):
    if type(obj) is not _classes()["Base"]:
        return f"not-a-base:{type(obj).__name__}"
    return obj.bid


def _guard_attr(ds, name):
    try:
        return getattr(ds, name)
    except AttributeError:
        return None
    except Exception as e:  # noqa
        return _exc_name(e)


def _ty_of(obj):
    return _ty_of_type(type(obj))


def _ty_of_type(tp):
    for t in ALL_TYS:
        if ty_to_class(t) is tp:
            return t
    return -1


# ----------------------------------------------------------------------------------------------
# independent oracle: the property statement evaluated on the spec (no Lean model, no bisect, no cumulative sizes)
# ----------------------------------------------------------------------------------------------
class _OutOfClaim(Exception):
    pass


def spec_size(spec):
    """number of samples the composed dataset has; None for an unsized (balanced) stack"""
    t = spec["t"]
    if t == "base":
        return spec["n"]
    if t == "subset":
        return len(spec["idx"])
    if t == "wrap":
        return spec_size(spec["d"])
    if spec["bal"]:
        return None
    sizes = [spec_size(p) for p in spec["ds"]]
    if any(s is None for s in sizes):
        raise _OutOfClaim("concat over an unsized part cannot be constructed")
    return sum(sizes)


def spec_flat(spec):
    """the list of underlying samples of a sized stack: base = its samples, subset = chosen positions, concat = parts in a row"""
    t = spec["t"]
    if t == "base":
        return [[spec["id"], i] for i in range(spec["n"])]
    if t == "wrap":
        return spec_flat(spec["d"])
    if t == "subset":
        return [spec_item(spec["d"], i) for i in spec["idx"]]
    if spec["bal"]:
        raise _OutOfClaim("balanced concat has no size")
    if not spec["ds"]:
        raise _OutOfClaim("empty concat")
    return [s for p in spec["ds"] for s in spec_flat(p)]


def spec_item(spec, k):
    """item k of the composed dataset = composition of the layers' index maps"""
    t = spec["t"]
    if t == "concat" and spec["bal"]:
        if not spec["ds"]:
            raise _OutOfClaim("empty concat")
        if k < 0:
            raise _OutOfClaim("negative index into a balanced concat")
        P = len(spec["ds"])
        part = spec["ds"][k % P]
        n = spec_size(part)
        if n is None or n == 0:
            raise _OutOfClaim("balanced concat over an empty / unsized part")
        return spec_item(part, (k // P) % n)          # round m = k // P, part j = k % P yields its (m mod size)-th sample
    if t == "wrap":
        return spec_item(spec["d"], k)
    if t == "subset":
        n = len(spec["idx"])
        if not -n <= k < n:
            raise _OutOfClaim("index outside the subset")
        return spec_item(spec["d"], spec["idx"][k])
    flat = spec_flat(spec)
    if not -len(flat) <= k < len(flat):
        raise _OutOfClaim("index outside the dataset")
    return flat[k]


def root_gets_negative(spec, k):
    """does the route of index k through the layers' index maps end at a root with a negative index? (wrapper: k as it is; subset:
    the entry at position k as it is; concat: the non-negative position inside the part that holds item k, negative k counted from
    the end; balanced concat: round-robin position). Such a k relies on the root's own sequence indexing."""
    t = spec["t"]
    if t == "base":
        return k < 0
    if t == "wrap":
        return root_gets_negative(spec["d"], k)
    if t == "subset":
        n = len(spec["idx"])
        if not -n <= k < n:
            raise _OutOfClaim("index outside the subset")
        return root_gets_negative(spec["d"], spec["idx"][k])
    if not spec["ds"]:
        raise _OutOfClaim("empty concat")
    if spec["bal"]:
        if k < 0:
            raise _OutOfClaim("negative index into a balanced concat")
        part = spec["ds"][k % len(spec["ds"])]
        n = spec_size(part)
        if not n:
            raise _OutOfClaim("balanced concat over an empty / unsized part")
        return root_gets_negative(part, (k // len(spec["ds"])) % n)
    sizes = [spec_size(p) for p in spec["ds"]]
    if any(s is None for s in sizes):
        raise _OutOfClaim("concat over an unsized part")
    total = sum(sizes)
    if not -total <= k < total:
        raise _OutOfClaim("index outside the dataset")
    k = k + total if k < 0 else k
    for p, s in zip(spec["ds"], sizes):
        if k < s:
            return root_gets_negative(p, k)
        k -= s
    raise _OutOfClaim("index outside the dataset")


def judge_strict(case, st):
    """the property statement on the reads of the stack over index-derived roots: len = size of the map, item k = item map(k) of the
    underlying dataset for every k whose route ends at a non-negative root index"""
    if not st or "reads" not in st:
        return []
    spec, r = st["spec"], st["reads"]
    how = "index-derived roots" + (f", indices handed over as {st['ktype']}" if st.get("ktype", "int") != "int" else "")
    try:
        if not in_domain(spec):
            return []
        size = spec_size(spec)
    except _OutOfClaim:
        return []
    desc = describe(spec)
    if size is not None and r["len"] != size:
        return [Failure("indexmaps:len:index-derived-root", f"len differs from the size of the index map ({how}) for {desc}", case,
                        size, r["len"])]
    for k, got in zip(st["ks"], r["items"]):
        try:
            if root_gets_negative(spec, k):
                continue
            exp = spec_item(spec, k)
        except (_OutOfClaim, IndexError):
            continue
        if got != exp:
            return [Failure("indexmaps:getitem:index-derived-root", f"getitem_x({k}) addresses the wrong underlying sample when the "
                            f"roots compute the sample from the index they are asked for ({how}; a layer forwarded an index it has "
                            f"to translate itself) for {desc}", case, exp, got)]
    return []


def in_domain(spec):
    """the stacks the property quantifies over: every concat has parts and all of them are sized, every subset index addresses an
    existing position of the layer below (a non-negative round-robin position when that layer is a balanced concat)"""
    t = spec["t"]
    if t == "base":
        return True
    if t == "wrap":
        return in_domain(spec["d"])
    if t == "subset":
        if not in_domain(spec["d"]):
            return False
        n = spec_size(spec["d"])
        if n is None:
            return all(i >= 0 for i in spec["idx"]) and _balanced_parts_nonempty(spec["d"])
        return all(-n <= i < n for i in spec["idx"])
    if not spec["ds"]:
        return False
    return all(in_domain(p) and spec_size(p) is not None for p in spec["ds"])


def _balanced_parts_nonempty(spec):
    while spec["t"] == "wrap":
        spec = spec["d"]
    if spec["t"] == "concat" and spec["bal"]:
        return all(spec_size(p) for p in spec["ds"])
    return True


def has_balanced(spec):
    if spec["t"] == "base":
        return False
    if spec["t"] == "concat":
        return spec["bal"] or any(has_balanced(p) for p in spec["ds"])
    return has_balanced(spec["d"])


def bulk_kind(spec):
    """container kind getall_x hands back (None: an intended assertion / missing accessor makes the bulk path unavailable)"""
    t = spec["t"]
    if t == "base":
        return None if spec["kind"] == "absent" else spec["kind"]
    if t == "wrap":
        return bulk_kind(spec["d"])
    if t == "subset":
        return None if bulk_kind(spec["d"]) is None else "list"
    if any(bulk_kind(p) != "list" for p in spec["ds"]):
        return None      # KDConcatDataset asserts that every part hands over a list
    return "list"


def linear_chain(spec):
    """layers (outer to inner) and base of a linear chain; None if the stack branches"""
    layers = []
    while spec["t"] != "base":
        if spec["t"] == "concat":
            if len(spec["ds"]) != 1:
                return None
            spec = spec["ds"][0]
        else:
            layers.append((spec["uid"], spec["ty"]))
            spec = spec["d"]
    return layers, spec["id"]


def describe(spec):
    t = spec["t"]
    if t == "base":
        return f"Base#{spec['id']}(n={spec['n']},{spec['kind']})"
    if t == "concat":
        return ("Balanced" if spec["bal"] else "") + "Concat[" + ", ".join(describe(p) for p in spec["ds"]) + "]"
    if t == "subset":
        return f"{SUBSET_CLS[spec['ty']]}({describe(spec['d'])}, {spec.get('idx')})"
    return f"{WRAP_CLS[spec['ty']]}({describe(spec['d'])})"


def judge_reads(spec, ks, r):
    """the property statement on one set of reads (len, items for ks, getall, as_*) of the stack described by `spec`;
    returns (key, what, expected, actual) tuples"""
    out = []
    desc = describe(spec)
    size = spec_size(spec)
    flat = None
    if size is not None:
        flat = spec_flat(spec)
        if r["len"] != len(flat):
            out.append(("indexmaps:len", f"len differs from the size of the index map for {desc}", len(flat), r["len"]))
    # per-sample accessor
    for k, got in zip(ks, r["items"]):
        try:
            exp = spec_item(spec, k)
        except _OutOfClaim:
            continue
        except IndexError:
            continue
        if got != exp:
            key = "indexmaps:balanced" if (spec["t"] == "concat" and spec["bal"]) else "indexmaps:getitem"
            out.append((key, f"getitem_x({k}) addresses the wrong underlying sample for {desc}", exp, got))
            break
    # bulk accessors
    if size is not None and not has_balanced(spec):
        kind = bulk_kind(spec)
        if kind is not None:
            if r["getall"] != [kind, flat]:
                out.append(("indexmaps:getall", f"getall_x() differs from the per-sample accessors for {desc}", [kind, flat], r["getall"]))
        top_has = kind is not None or not _claims_getall(spec)
        if top_has:
            for name in ("as_list", "as_numpy", "as_tensor"):
                if name in r and r[name] != flat:
                    src = kind if kind is not None else "per-sample"
                    out.append((f"getall_{name}:{src}-input", f"getall_{name}(stack, 'x') differs from the per-sample accessors "
                                f"(bulk source: {src}) for {desc}", flat, r[name]))
    # bulk accessors of a sized stack that has a balanced concat below another layer (known finding: parts in a row vs round-robin)
    if size is not None and has_balanced(spec):
        kind = bulk_kind(spec)
        if kind is not None:
            if r["getall"] != [kind, flat]:
                out.append((KNOWN_BALANCED_KEY, f"getall_x() of a stack over a balanced concat differs from the per-sample "
                            f"accessors (parts in a row instead of round-robin) for {desc}", [kind, flat], r["getall"]))
            for name in ("as_list", "as_numpy", "as_tensor"):
                if name in r and r[name] != flat:
                    out.append((KNOWN_BALANCED_KEY, f"getall_{name}(stack, 'x') of a stack over a balanced concat differs from "
                                f"the per-sample accessors for {desc}", flat, r[name]))
                    break
    return out


def _step_text(stage):
    st = stage.get("step")
    who = stage["who"] + (f", indices handed over as {stage['ktype']}" if stage.get("ktype", "int") != "int" else "")
    if not st:
        return who
    return f"{who}: index map of layer {st['layer']}#{st['uid']} {st['op']} {st['old']} -> {st['new']} ({st['how']})"


def oracle(case, real):
    """returns a list of Failure (property statement checked directly on the real answers)"""
    spec = case["ds"]
    _fill_idx(spec)
    fails = []
    desc = describe(spec)
    if not in_domain(spec):
        return []
    if real.get("build") != "ok":
        fails.append(Failure("indexmaps:ctor", f"stack cannot be constructed ({real.get('build')}): {desc}", case, "ok", real.get("build")))
        return fails
    first = judge_reads(spec, case["ks"], real)
    for key, what, exp, got in first:
        if key == "indexmaps:len":
            fails.append(Failure(key, what, case, exp, got))
    for key, what, exp, got in first:
        if key in ("indexmaps:getitem", "indexmaps:balanced"):
            fails.append(Failure(key, what, case, exp, got))
    ag = real.get("_again")
    if ag is not None and not has_balanced(spec):
        for what, a, b in (("getall_x()", real["getall"], ag["getall"]), ("getitem_x", real["items"], ag["items"]),
                           ("len", real["len"], ag["len"])):
            if isinstance(a, (list, int)) and a != b:
                fails.append(Failure("indexmaps:second-read", f"reading {what} a second time gives something else than the first time "
                                     f"(an earlier bulk read changed the stack) for {desc}", case, a, b))
                break
    for key, what, exp, got in first:
        if key not in ("indexmaps:len", "indexmaps:getitem", "indexmaps:balanced"):
            fails.append(Failure(key, what, case, exp, got))
    # introspection over linear chains
    ch = linear_chain(spec)
    if ch is not None:
        layers, bid = ch
        exp = {"root": bid, "getdim": bid, "wrappers": [[u, t] for u, t in layers], "wrapper_types": [t for _, t in layers],
               "of_type": [[u for u, t in layers if t == ty] for ty in case["tys"]],
               "has_type": [any(t == ty for _, t in layers) for ty in case["tys"]],
               "has": [any(u == uu for u, _ in layers) for uu in case["uids"]],
               "dispose": [bid],
               "lookup": [bid] + [next((u for u, t in layers if t == ty), None) for ty in case["tys"]]}
        for k, v in exp.items():
            if real.get(k) != v:
                fails.append(Failure("indexmaps:introspection", f"{k} does not resolve through the linear chain {desc}", case, v, real.get(k)))
                break
    # the same stack over index-derived roots
    if not any(f.key != KNOWN_BALANCED_KEY for f in fails):
        fails += judge_strict(case, real.get("_strict"))
    # the later life of the used stack: every stage is a stack with the index maps its layers hold NOW
    if not any(f.key != KNOWN_BALANCED_KEY for f in fails):
        fails += judge_history(case, real.get("_hist") or [])
    return fails


def _in_domain_safe(spec):
    try:
        return in_domain(spec)
    except _OutOfClaim:
        return False


def judge_history(case, stages):
    fails = []
    for n, stage in enumerate(stages):
        if "error" in stage:
            if stage.get("judged"):
                fails.append(Failure("indexmaps:ctor:history", f"{stage['who']} cannot be constructed ({stage['error']}) although the "
                                     f"stack itself could: {describe(stage['spec'])}", case, "ok", stage["error"]))
            break
        spec = stage["spec"]
        try:
            if not in_domain(spec):
                break
            found = judge_reads(spec, stage["ks"], stage["reads"])
        except _OutOfClaim:
            break
        if found:
            key, what, exp, got = found[0]
            if key != KNOWN_BALANCED_KEY:
                key += ":history"
            fails.append(Failure(key, f"after [{_step_text(stage)}] (stage {n + 1} of history {case['hist']}): {what}", case, exp, got))
            if key != KNOWN_BALANCED_KEY:
                break
    return fails


def _claims_getall(spec):
    """hasattr(stack, 'getall_x'): a subset claims the accessor iff the wrapped dataset does, a concat iff all parts do"""
    t = spec["t"]
    if t == "base":
        return spec["kind"] != "absent"
    if t == "concat":
        return all(_claims_getall(p) for p in spec["ds"])
    return _claims_getall(spec["d"])


KNOWN_BALANCED_KEY = "indexmaps:getall-over-balanced-concat"


def known_witness():
    """KDSubset(KDConcatDataset([A(2), B(2)], balanced_sampling=True), indices=[0, 1, 2, 3])"""
    spec = {"t": "subset", "uid": 101, "ty": TY_KDSUBSET, "cont": "list", "idx": [0, 1, 2, 3],
            "d": {"t": "concat", "bal": True, "ds": [{"t": "base", "id": 1, "n": 2, "kind": "list"},
                                                     {"t": "base", "id": 2, "n": 2, "kind": "list"}]}}
    return {"op": "im.run", "ds": spec, "ks": [0, 1, 2, 3], "tys": list(ALL_TYS), "uids": [101]}


# ----------------------------------------------------------------------------------------------
# case generation
# ----------------------------------------------------------------------------------------------
class _Gen:
    def __init__(self, rng, thorough=False):
        self.rng = rng
        self.uid = 100
        self.bid = 0
        self.thorough = thorough

    def next_uid(self):
        self.uid += 1
        return self.uid

    def base(self):
        self.bid += 1
        n = self.rng.choice([0, 1, 1, 2, 2, 3, 3, 4, 5, 6, 7])
        kind = self.rng.choice(["list"] * 7 + ["tensor", "ndarray", "absent"])
        return {"t": "base", "id": self.bid, "n": n, "kind": kind}, n

    def stack(self, depth):
        """returns (spec, size or None for unsized)"""
        rng = self.rng
        if depth <= 0:
            return self.base()
        r = rng.random()
        if r < 0.42:
            inner, size = self.stack(depth - 1)
            return self.subset(inner, size)
        if r < 0.64:
            inner, size = self.stack(depth - 1)
            ty = rng.choice([TY_PLAIN, TY_PLAIN, TY_PLAIN2, TY_XTRANSFORM, TY_LABELSMOOTH])
            return {"t": "wrap", "uid": self.next_uid(), "ty": ty, "d": inner}, size
        arity = rng.choice([1, 2, 2, 2, 3, 3, 4])
        if rng.random() < 0.01:
            arity = 0
        parts, sizes = [], []
        for _ in range(arity):
            p, s = self.stack(rng.randint(0, depth - 1))
            if sum(x or 0 for x in sizes) + (s or 0) > MAX_SIZE:
                p, s = self.base()
            parts.append(p)
            sizes.append(s)
        bal = rng.random() < 0.2
        if any(s is None for s in sizes) and rng.random() < 0.9:
            # a concat over a balanced concat cannot be constructed: keep those rare
            fixed = []
            for p, s in zip(parts, sizes):
                if s is None:
                    p, s = self.base()
                    sizes[len(fixed)] = s
                fixed.append(p)
            parts = fixed
        size = None if (bal or any(s is None for s in sizes)) else sum(sizes)
        return {"t": "concat", "ds": parts, "bal": bal}, size

    def subset(self, inner, size):
        rng = self.rng
        uid = self.next_uid()
        opts = [TY_KDSUBSET] * 5
        if size is not None:
            opts += [TY_SUBSETW, TY_SHUFFLE]
            if 0 < size <= MAX_SIZE // 3:
                opts += [TY_REPEAT]
        ty = rng.choice(opts)
        node = {"t": "subset", "uid": uid, "ty": ty, "d": inner}
        if ty == TY_SHUFFLE:
            node["seed"] = rng.randint(0, 5)
            return node, size
        if ty == TY_REPEAT:
            node["reps"] = rng.randint(1, 3)
            return node, size * node["reps"]
        # explicit indices
        if size is None:
            m = rng.randint(0, 6)
            idx = [rng.randint(0, 11) for _ in range(m)]
            if rng.random() < 0.1 and idx:
                idx[rng.randrange(m)] = -rng.randint(1, 5)      # negative into a balanced concat: compared, not judged
        elif size == 0:
            idx = [] if rng.random() < 0.85 or ty == TY_SUBSETW else [rng.choice([0, -1])]
        else:
            m = rng.choice([0, 1, 1, 2, 2, 3, 3, 4, 5, size, size + 1])
            mode = rng.random()
            if mode < 0.4:
                idx = [rng.randint(-size, size - 1) for _ in range(m)]
            elif mode < 0.7:
                idx = [rng.randint(0, size - 1) for _ in range(m)]
            elif mode < 0.85:
                idx = rng.sample(range(size), min(m, size))
            else:
                idx = sorted(rng.sample(range(-size, size), min(m, 2 * size)))
            if rng.random() < 0.04 and idx and ty == TY_KDSUBSET:
                idx[rng.randrange(len(idx))] = rng.choice([size, -size - 1, size + 3])   # dangling index: compared, not judged
        node["idx"] = idx
        node["cont"] = rng.choice(["list", "list", "np", "torch"])
        return node, len(idx)


def ks_for(spec, size, rng):
    if size is not None:
        ks = list(range(-size - 1, size + 1))
        if len(ks) > 40:
            ks = sorted(set(rng.sample(ks, 34) + [-size - 1, -size, -1, 0, size - 1, size]))
        return ks
    P = len(spec["ds"]) if spec["t"] == "concat" else 3
    return list(range(-2 * P - 1, 0)) + list(range(0, min(40, 9 * max(P, 1))))


def gen_case(rng, max_depth=5, thorough=False):
    g = _Gen(rng, thorough)
    depth = rng.choice([0, 1, 1, 2, 2, 2, 3, 3, 3, 4, 4, 5])
    depth = min(depth, max_depth)
    spec, size = g.stack(depth)
    return make_case(spec, size, rng)


def make_case(spec, size, rng):
    uids = uids_of(spec)
    probe = list(uids)
    if probe:
        probe.append(max(probe) + 1000)    # an object that is in no chain
    return {"op": "im.run", "ds": spec, "ks": ks_for(spec, size, rng), "tys": list(ALL_TYS), "uids": probe[:12]}


def exhaustive_cases(rng):
    """depth <= 3 over a fixed layer alphabet: every chain of layers from the alphabet over two fixed part lists"""
    alphabet = ["sub_neg", "sub_dup", "plain", "xt", "concat2", "concat_e", "concat1", "bal"]
    for depth in range(0, 4):
        for layers in itertools.product(alphabet, repeat=depth):
            uid = [100]
            bid = [0]

            def base(n, kind="list"):
                bid[0] += 1
                return {"t": "base", "id": bid[0], "n": n, "kind": kind}, n

            def nu():
                uid[0] += 1
                return uid[0]

            spec, size = base(3)
            ok = True
            for l in reversed(layers):
                if l == "sub_neg":
                    if not size:
                        ok = False
                        break
                    idx = [-1, 0, -size] if size is not None else [2, 0, 5]
                    spec, size = {"t": "subset", "uid": nu(), "ty": TY_KDSUBSET, "d": spec, "idx": idx, "cont": "list"}, 3
                elif l == "sub_dup":
                    if not size:
                        ok = False
                        break
                    idx = [size - 1, size - 1, 0, 1 % size] if size is not None else [1, 1, 4]
                    spec, size = {"t": "subset", "uid": nu(), "ty": TY_KDSUBSET, "d": spec, "idx": idx, "cont": "np"}, len(idx)
                elif l == "plain":
                    spec = {"t": "wrap", "uid": nu(), "ty": TY_PLAIN, "d": spec}
                elif l == "xt":
                    spec = {"t": "wrap", "uid": nu(), "ty": TY_XTRANSFORM, "d": spec}
                elif l in ("concat2", "concat_e", "concat1", "bal"):
                    if size is None:
                        ok = False
                        break
                    if l == "concat1":
                        spec = {"t": "concat", "ds": [spec], "bal": False}
                    elif l == "concat2":
                        b, n = base(2)
                        spec, size = {"t": "concat", "ds": [b, spec], "bal": False}, size + n
                    elif l == "concat_e":
                        b0, _ = base(0)
                        b1, n1 = base(1)
                        spec, size = {"t": "concat", "ds": [spec, b0, b1], "bal": False}, size + n1
                    else:
                        b, n = base(2)
                        spec, size = {"t": "concat", "ds": [spec, b], "bal": True}, None
            if ok:
                yield make_case(spec, size, rng)


def signature(case, real):
    def shape(spec, d=0):
        t = spec["t"]
        if t == "base":
            return ("b", min(spec["n"], 2), spec["kind"])
        if t == "concat":
            return ("c", spec["bal"], tuple(shape(p, d + 1) for p in spec["ds"][:3])) if d < 3 else ("c",)
        if t == "subset":
            neg = any(i < 0 for i in spec.get("idx", []))
            return ("s", spec["ty"], neg, shape(spec["d"], d + 1)) if d < 3 else ("s",)
        return ("w", spec["ty"], shape(spec["d"], d + 1)) if d < 3 else ("w",)
    return (shape(case["ds"]), real.get("build"), str(real.get("len"))[:6], str(real.get("getall"))[:4])


def strip_private(d):
    return {k: v for k, v in d.items() if not k.startswith("_")}


def depth_of(spec):
    if spec["t"] == "base":
        return 0
    if spec["t"] == "concat":
        return 1 + max([depth_of(p) for p in spec["ds"]] or [0])
    return 1 + depth_of(spec["d"])


def py_semantics_cases():
    out = []
    for n in range(0, 5):
        for k in range(-7, 8):
            for szs in ([n], [1, n], [0, n, 2], [n, 0, 0, 1]):
                out.append({"op": "im.py", "n": n, "k": k, "szs": szs, "P": max(len(szs), 1)})
    return out


def py_semantics_real(c):
    import bisect
    n, k, szs, P = c["n"], c["k"], c["szs"], c["P"]
    try:
        idx = list(range(n))[k]
    except IndexError:
        idx = "IndexError"
    total = sum(szs)
    cum = list(itertools.accumulate(szs))
    if k < 0 and -k > total:
        conc = "ValueError"
    else:
        kk = total + k if k < 0 else k
        di = bisect.bisect_right(cum, kk)
        conc = [di, kk if di == 0 else kk - cum[di - 1]]
    return {"idx": idx, "concat": conc, "bal": [k % P, int(k / P) % max(n, 1)]}


class C02(PropertyCheck):
    pid = "C02"
    claimed = True
    props_modules = ["KDVerif.Props.C02"]
    extra_build = ["KDVerif.Driver.IndexMaps"]
    driver_main = "mains/IndexMaps.lean"
    anchored = ["kappadata/datasets/kd_subset.py", "kappadata/datasets/kd_concat_dataset.py", "kappadata/datasets/kd_wrapper.py",
                "kappadata/datasets/kd_dataset.py", "kappadata/utils/getall_as_tensor.py"]
    assumptions = [
        "base datasets answer getitem_<item>(k) by Python sequence indexing (-n <= k < n) and getall_<item>() with all their samples in order",
        "list / numpy / torch index containers of a subset agree on element access (values only are compared)",
        "tensor <-> ndarray <-> list conversions of the getall_as_* helpers keep every element (values compared, not container identity)",
        "int(idx / P) equals truncated integer division for the index magnitudes in use (float division exact below 2**53)",
    ]
    trusted_extra = [
        "modelled by hand: KDSubset.__getattr__/_call_getitem/_call_getall, KDConcatDataset.__init__ (torch ConcatDataset cumsum + asserts)/"
        "_call_getitem/_to_concat_idx/_call_getall/__len__/dispose/introspection, KDWrapper and KDDataset delegation/introspection, "
        "utils.getall_as_tensor.getall/getall_as_list/numpy/tensor",
        "not modelled: torch Dataset base classes beyond the members above, arbitrary attribute names (delegation is sampled with marker "
        "attributes), worker_init_fn / collators / fused_operations delegation (C09/C18/C01)",
    ]
    technique = "Lean 4 proof over hand model + differential correspondence"
    level_text = ("Lean theorems (KDVerif.Props.C02), by induction over every finite stack of base/subset/wrapper/concat layers: per-sample access "
                  "(negative indices, bisect over cumulative sizes incl. empty parts) returns element norm(k) of the spec list `flatten`; len = |flatten|; "
                  "the bulk accessor and the three getall_as_* helpers (fast and slow path) return `flatten`, hence bulk = per-sample element-wise; "
                  "balanced concat: index m*P+j yields sample (m mod size) of part j; introspection (root, all_wrappers, wrappers of type, has_wrapper, "
                  "attribute lookup, dispose) enumerates exactly the layers of every linear chain. Model tied to the real classes each run.")
    level_note = ("trusted: Lean kernel + standard axioms; the correspondence harness; base dataset contract; a balanced concat *below* another layer "
                  "is outside the bulk theorems (named _partial): its bulk accessor lists parts in a row while per-sample access round-robins - known "
                  "finding indexmaps:getall-over-balanced-concat, negation proved on a witness (bulk_ne_per_sample_over_balanced_concat), judged by "
                  "the oracle and replayed every run; arbitrary attribute names are sampled, not proved")
    design_ref = "DESIGN.md 3 (C02)"

    def cases(self):
        corpus = []
        cdir = Path(__file__).resolve().parents[2] / "corpus" / "indexmaps"
        if cdir.exists():
            for p in sorted(cdir.glob("*.json")):
                corpus.append(json.loads(p.read_text()))
        ex = list(exhaustive_cases(self.rng))
        if self.tier == "quick":
            self.rng.shuffle(ex)
            ex = ex[:250]
        n_rand = 2200 if self.tier == "quick" else 40000
        rnd = [gen_case(self.rng, thorough=self.tier != "quick") for _ in range(n_rand)]
        return corpus, ex, rnd

    def correspond(self):
        res = CorrResult()
        corpus, ex, rnd = self.cases()
        res.rule = (f"{len(corpus)} corpus + {len(ex)} stacks of the exhaustive depth<=3 sweep over the layer alphabet "
                    f"(negative/duplicating subsets, two wrapper kinds, concat with 1/2/3 parts incl. an empty part, balanced concat"
                    f"{'; sampled' if self.tier == 'quick' else '; complete'}) + {len(rnd)} seeded random nestings (depth<=5, base sizes 0-7, "
                    "concat arity 0-4, four subset classes with list/numpy/torch index containers, four wrapper classes, four bulk kinds) "
                    "+ the Python micro-semantics table; every stack compares len, getitem_x for all k in [-len-1, len], getall_x, "
                    "getall_as_list/numpy/tensor, root_dataset, getdim, all_wrappers, get_wrappers_of_type, has_wrapper(_type), attribute "
                    "lookup, dispose; every in-domain stack is built a second time over index-derived roots (sample computed from the index "
                    "asked for, int / numpy.int64 indices; oracle only, judged for every k whose route ends at a non-negative root index); "
                    "afterwards every in-domain stack lives on (oracle only): the index map of 1-3 subset layers is permuted / "
                    "edited in place or replaced by a new list/numpy/torch (int64/int32) object (also of another size where no concat or subset "
                    "above fixes it) and everything is read again; or a deepcopy / pickle round trip of the used stack is read, changed and "
                    "the original re-read; or a second instance of the stack is changed before its first read while the first is alive; "
                    "distinct = (shape of the top three levels with classes/negativity/bulk kinds, build outcome, len, bulk outcome)")
        res.exhaustive = self.tier == "thorough"
        # Python micro-semantics (pyIdx, _to_concat_idx arithmetic, balanced arithmetic) against CPython
        pyc = py_semantics_cases()
        for c, m in zip(pyc, self.driver.run(pyc)):
            r = py_semantics_real(c)
            res.cases += 1
            res.bump("py-semantics")
            if m != r:
                res.disagreements.append(Disagreement(c, m, r, "python micro-semantics"))
        cases = corpus + ex + rnd
        # every stack lives on after its first reads (own random stream: the stacks themselves do not depend on it)
        hrng = random.Random(f"C02-hist:{self.seed}")
        for c in cases:
            with_hist(c, hrng)
        # the real side runs first: selection wrappers (shuffle / repeat) fill in the index map they hold
        reals = [run_real(c) for c in cases]
        for c in cases:
            _fill_idx(c["ds"])
        answers = self.driver.run(cases)
        # the model on the stack as it is at the end of its history (same objects, index maps changed meanwhile)
        later = []
        for case, real in zip(cases, reals):
            stages = [st for st in real.get("_hist") or [] if "reads" in st]
            if stages and _in_domain_safe(stages[-1]["spec"]):
                st = stages[-1]
                later.append(({"op": "im.run", "ds": st["spec"], "ks": st["ks"], "tys": [], "uids": []}, st, case))
        for (req, st, case), model in zip(later, self.driver.run([x[0] for x in later])):
            res.cases += 1
            res.bump("later-life-vs-model")
            if model.get("build") != "ok":
                continue
            keys = ("len", "items", "getall", "as_list", "as_numpy", "as_tensor")
            diff = {k: [model.get(k), st["reads"].get(k)] for k in keys if model.get(k) != st["reads"].get(k)}
            if diff and len(res.disagreements) < 50:
                res.disagreements.append(Disagreement(case, {k: v[0] for k, v in diff.items()}, {k: v[1] for k, v in diff.items()},
                                                      f"after [{_step_text(st)}]: {describe(st['spec'])}"))
        for case, model, real in zip(cases, answers, reals):
            res.cases += 1
            res.nontrivial.add(signature(case, real))
            res.bump(f"build={real.get('build')}")
            res.bump(f"depth={depth_of(case['ds'])}")
            res.bump(f"top={case['ds']['t']}" + ("-balanced" if case["ds"].get("bal") else ""))
            if real.get("build") == "ok":
                res.bump(f"getall={'ok' if isinstance(real['getall'], list) else real['getall']}")
                for it in real["items"]:
                    res.bump(f"item={'ok' if isinstance(it, list) else it}")
                if (real.get("_strict") or {}).get("reads"):
                    res.bump("index-derived-roots=read")
                for stage in real.get("_hist") or []:
                    st = stage.get("step")
                    res.bump(f"history={stage['who']}" + (f" error={stage['error']}" if "error" in stage else ""))
                    if st:
                        res.bump(f"history-step={st['layer']}:{st['op']}:{st['how']}")
            mv = {k: v for k, v in model.items() if k not in ("flatten", "valid")}
            rv = strip_private(real)
            if mv != rv:
                if len(res.disagreements) < 50:
                    diff = {k: [mv.get(k), rv.get(k)] for k in set(mv) | set(rv) if mv.get(k) != rv.get(k)}
                    res.disagreements.append(Disagreement(case, {k: v[0] for k, v in diff.items()}, {k: v[1] for k, v in diff.items()},
                                                          describe(case["ds"])))
            for f in oracle(case, real):
                if len(res.failures) < 50 and (sum(g.key == f.key for g in res.failures) < 3):
                    res.failures.append(f)
            if len(res.samples) < 3 and real.get("build") == "ok" and depth_of(case["ds"]) >= 3 and isinstance(real.get("getall"), list):
                res.samples.append({"stack": describe(case["ds"]), "len": real["len"], "getall_x": real["getall"]})
        res.failures.sort(key=lambda f: len(json.dumps(f.input)))
        return res

    def replay_input(self, inp):
        real = run_real(inp)
        fs = oracle(inp, real)
        return fs[0] if fs else None

    def replay_known(self, finding):
        if finding.get("key") != KNOWN_BALANCED_KEY:
            return False
        w = known_witness()
        real = run_real(w)
        if real.get("build") != "ok" or not isinstance(real.get("getall"), list):
            return True
        per = [it for it in real["items"]]
        return real["getall"][1] != per

    def search(self, budget_s, hints):
        t0 = time.time()
        out = []
        for h in hints:
            if h.get("op") != "im.run":
                continue
            out += oracle(h, run_real(h))
        rng = random.Random(self.seed + 202)
        while not out and time.time() - t0 < budget_s:
            c = with_hist(gen_case(rng), rng)
            out += oracle(c, run_real(c))
        out.sort(key=lambda f: len(json.dumps(f.input)))
        return out


def _fill_idx(spec):
    """specs whose real construction failed before a selection wrapper computed its indices still need an `idx` for the model"""
    if spec["t"] == "subset":
        if "idx" not in spec:
            spec["idx"] = []
        _fill_idx(spec["d"])
    elif spec["t"] == "wrap":
        _fill_idx(spec["d"])
    elif spec["t"] == "concat":
        for p in spec["ds"]:
            _fill_idx(p)
