"""C19 — SharedDictDataset / CachedDataset: the shared in-memory cache is transparent for every access history.

* schedule replay on the real code: readers are threads running the unmodified `ds[i]` / `ds.dispose()`; every reader holds its
  own shallow copy of the real `SharedDictDataset` (as a forked DataLoader worker would) whose `shared_dict` is a proxy around
  the *real* Manager dict and whose wrapped dataset is a counting proxy; every dict operation and every load blocks on a
  harness scheduler, so that a schedule (list of reader ids) fixes the interleaving of atomic steps exactly
* the same schedule is fed to the Lean model (`KDVerif.Model.Cache`, driver `mains/Cache.lean`); results, load log, transform
  log, final dict and the event trace are compared
* independent oracle written from the property text (no Lean model involved)
* thorough: real processes (forked readers hammering get/dispose; DataLoader workers) checking the invariants only
"""
import copy
import itertools
import json
import random
import threading
import time

from .common import CorrResult, Disagreement, Failure, Infra, PropertyCheck

BIG = 10 ** 9        # index objects are fresh big ints (never interned): a cache keyed by identity would always miss
TADD = 1000          # the transform adds TADD to the decoded payload (not idempotent: double application is visible)


# ----------------------------------------------------------------------------------------------
# payloads: value id <-> picklable sample of varying type
# ----------------------------------------------------------------------------------------------
FALSY = {"none": None, "zero": 0, "false": False, "zerof": 0.0, "empty_str": "", "empty_tuple": (), "list_none": [None],
         "dict_none": {"k": None}}


def payload(v, kinds):
    k = kinds[v % len(kinds)]
    if k in FALSY:                      # the whole sample is None / falsy: carries no value id
        return copy.deepcopy(FALSY[k])
    if k == "int":
        return v
    if k == "tuple":
        return (v, "s" * (v % 3))
    if k == "dict":
        return {"x": v, "y": [v, v + 1]}
    if k == "str":
        return f"sample-{v}"
    if k == "tensor":
        import torch
        return torch.tensor([v, v + 1])
    if k == "ndarray":
        import numpy as np
        return np.array([v, v + 2])
    raise ValueError(k)


def _same(a, b):
    if type(a) is not type(b):
        return False
    try:
        r = a == b
        if isinstance(r, bool):
            return r
        return bool(r.all())
    except Exception:
        return False


def decode(p, expect=None):
    """sample (possibly wrapped by the transform any number of times) -> value id + TADD * (number of wraps).
    `expect` = (value id, sample) the wrapped dataset holds for the accessed index: a sample equal to it decodes to that id
    (this is how samples without an id in them - None, 0, '', () ... - are recognised); anything else decodes by content,
    and to -1 when it carries no id."""
    wraps = 0
    while isinstance(p, tuple) and len(p) == 2 and isinstance(p[0], str) and p[0] == "T!":
        wraps += 1
        p = p[1]
    if expect is not None and _same(p, expect[1]):
        return expect[0] + TADD * wraps
    try:
        if isinstance(p, bool) or p is None:
            return -1
        if isinstance(p, int):
            return p + TADD * wraps
        if isinstance(p, tuple) and p and isinstance(p[0], int):
            return p[0] + TADD * wraps
        if isinstance(p, dict) and "x" in p:
            return p["x"] + TADD * wraps
        if isinstance(p, str) and p.startswith("sample-"):
            return int(p.split("-")[1]) + TADD * wraps
        if hasattr(p, "shape"):
            return int(p[0]) + TADD * wraps
    except Exception:
        pass
    return -1


def transform(p):
    """post-cache transform: mutable samples (tensor / ndarray / dict) are changed IN PLACE and returned (as x.add_(...) or a
    normalisation would), everything else is wrapped; either way one application adds TADD to what `decode` reads, so a cache that
    hands out the object it keeps (or shares its storage) shows as a second TADD"""
    if hasattr(p, "shape"):
        p += TADD
        return p
    if isinstance(p, dict) and isinstance(p.get("x"), int) and not isinstance(p.get("x"), bool):
        p["x"] += TADD
        return p
    return ("T!", p)


# ----------------------------------------------------------------------------------------------
# scheduler + proxies
# ----------------------------------------------------------------------------------------------
class Sched:
    """exactly one reader thread runs at a time; a grant lets the reader execute one atomic step and run on until it
    blocks at its next step (or finishes)"""

    def __init__(self, n):
        self.go = [threading.Semaphore(0) for _ in range(n)]
        self.parked = threading.Semaphore(0)
        self.done = [False] * n
        self.trace = []

    def point(self, r):
        self.parked.release()
        self.go[r].acquire()

    def finish(self, r):
        self.done[r] = True
        self.parked.release()

    def wait_parked(self, timeout=20):
        if not self.parked.acquire(timeout=timeout):
            raise RuntimeError("cache scheduler: reader did not reach its next step (deadlock in the code under test?)")


class DictProxy:
    """proxy around the real Manager dict: one scheduled atomic step per call"""

    def __init__(self, real, sched, r):
        self._real, self._s, self._r = real, sched, r

    def _key(self, k):
        try:
            return int(k) - BIG
        except Exception:
            return repr(k)

    def __contains__(self, k):
        self._s.point(self._r)
        res = k in self._real
        self._s.trace.append([self._r, "contains", self._key(k), bool(res)])
        return res

    def __getitem__(self, k):
        self._s.point(self._r)
        try:
            v = self._real[k]
        except KeyError:
            self._s.trace.append([self._r, "read", self._key(k), False])
            raise
        self._s.trace.append([self._r, "read", self._key(k), True])
        return v

    def __setitem__(self, k, v):
        self._s.point(self._r)
        self._real[k] = v
        self._s.trace.append([self._r, "store", self._key(k)])

    def clear(self):
        self._s.point(self._r)
        self._real.clear()
        self._s.trace.append([self._r, "clear"])

    def __getattr__(self, name):
        real = getattr(self._real, name)
        if not callable(real):
            return real

        def call(*a, **kw):
            self._s.point(self._r)
            self._s.trace.append([self._r, "other:" + name] + [self._key(x) for x in a[:1]])
            return real(*a, **kw)
        return call

    def __len__(self):
        self._s.point(self._r)
        self._s.trace.append([self._r, "other:len"])
        return len(self._real)


class BaseProxy:
    """the wrapped dataset as one reader sees it: a load is one scheduled step and is logged"""

    def __init__(self, fvals, kinds, sched, r, loads, n):
        self.fvals, self.kinds, self._s, self._r, self.loads, self.n = fvals, kinds, sched, r, loads, n

    def __len__(self):
        return self.n

    def __getitem__(self, idx):
        self._s.point(self._r)
        i = int(idx) - BIG
        self.loads.append(i)
        self._s.trace.append([self._r, "load", i])
        return payload(self.fvals[i], self.kinds)


class RealCache:
    """one real SharedDictDataset (one Manager process) reused for all cases"""

    def __init__(self):
        from kappadata.caching.shared_dict_dataset import SharedDictDataset

        class _Empty:
            def __len__(self):
                return 0

            def __getitem__(self, i):
                raise IndexError(i)
        self.ds = SharedDictDataset(_Empty(), transform=transform)
        self.real_dict = self.ds.shared_dict

    def run(self, case, timeout=20):
        """case: {f: [value ids], kinds: [...], progs: [[['g', i] | ['c']]], sched: [reader ids]}"""
        progs, fvals, kinds = case["progs"], case["f"], case["kinds"]
        n = len(progs)
        self.real_dict.clear()
        s = Sched(n)
        loads, tapps = [], []
        outs = [[] for _ in range(n)]

        def tr_for(r):
            def tr(x):
                tapps.append(r)
                return transform(x)
            return tr

        readers = []
        for r in range(n):
            d = copy.copy(self.ds)                       # what a forked worker holds: its own object, the shared dict
            d.__dict__["shared_dict"] = DictProxy(self.real_dict, s, r)
            d.__dict__["dataset"] = BaseProxy(fvals, kinds, s, r, loads, len(fvals))
            d.__dict__["transform"] = tr_for(r)
            readers.append(d)

        def body(r):
            try:
                for op in progs[r]:
                    if op[0] == "g":
                        i = op[1]
                        idx = int(str(BIG + i))          # a fresh int object on every access
                        s.trace.append([r, "begin", i])
                        try:
                            v = readers[r][idx]
                            outs[r].append(["val", i, decode(v, (fvals[i], payload(fvals[i], kinds)))])
                        except KeyError:
                            outs[r].append(["keyerror", i])
                        except Exception as e:  # noqa
                            outs[r].append(["exc", i, type(e).__name__])
                    else:
                        try:
                            readers[r].dispose()
                            outs[r].append(["cleared"])
                        except Exception as e:  # noqa
                            outs[r].append(["exc", -1, type(e).__name__])
            finally:
                s.finish(r)

        ths = [threading.Thread(target=body, args=(r,), daemon=True) for r in range(n)]
        for t in ths:
            t.start()
        for _ in range(n):
            s.wait_parked(timeout)
        eff = []
        for r in case["sched"]:
            if not 0 <= r < n or s.done[r]:
                eff.append(r)
                s.trace.append([r, "noop"])
                continue
            eff.append(r)
            s.go[r].release()
            s.wait_parked(timeout)
        # drain: finish every reader (reader 0 first, then 1, ...) so that no thread is left behind
        for r in range(n):
            while not s.done[r]:
                eff.append(r)
                s.go[r].release()
                s.wait_parked(timeout)
        for t in ths:
            t.join(timeout)
        final = []
        for k, v in self.real_dict.items():
            try:
                i = int(k) - BIG
            except Exception:
                i = -1
            final.append([i, decode(v, (fvals[i], payload(fvals[i], kinds)) if 0 <= i < len(fvals) else None)])
        final.sort()
        # a reader's dispose() must act on the shared dict, also as seen by the other readers' objects
        return {"outs": outs, "loads": loads, "tapps": len(tapps), "dict": final, "trace": s.trace, "sched": eff}

    def close(self):
        try:
            self.real_dict._manager = None
        except Exception:
            pass


# ----------------------------------------------------------------------------------------------
# independent oracle (property text, no Lean model)
# ----------------------------------------------------------------------------------------------
def expected_loads_sequential(ops):
    """each index is loaded when first accessed since the last clear (or the start), and never otherwise"""
    seen, out = set(), []
    for op in ops:
        if op[0] == "c":
            seen = set()
        elif op[1] not in seen:
            seen.add(op[1])
            out.append(op[1])
    return out


def oracle(case, real):
    fails = []
    f = case["f"]
    progs = case["progs"]
    desc = f"readers={len(progs)} progs={progs} sched={case['sched']}"

    def fail(key, what, exp, act):
        fails.append(Failure(key, f"{what} [{desc}]", case, exp, act))

    # transparency: every access answers like the wrapped dataset followed by the transform; no exception
    n_gets = 0
    for r, prog in enumerate(progs):
        exp = [["val", op[1], f[op[1]] + TADD] if op[0] == "g" else ["cleared"] for op in prog]
        n_gets += sum(1 for op in prog if op[0] == "g")
        got = real["outs"][r]
        if got != exp:
            bad = next((g for g, e in zip(got, exp) if g != e), got[-1] if got else None)
            if bad and bad[0] == "keyerror":
                key = "cache:keyerror-when-disposed-between-membership-test-and-read"
            elif bad and bad[0] == "exc":
                key = "cache:exception"
            else:
                key = "cache:wrong-value"
            fail(key, f"reader {r} observed {got} where the uncached dataset + transform gives {exp}", exp, got)
    # transform applied on every access
    if real["tapps"] != n_gets and not fails:
        fail("cache:transform-count", f"{n_gets} accesses but the transform ran {real['tapps']} times", n_gets, real["tapps"])
    # loads
    if len(progs) == 1:
        # loads of the wrapped dataset per index between two clears: exactly one if the index was accessed, none otherwise
        segs = [{"acc": set(), "loads": {}}]
        for ev in real["trace"]:
            if ev[1] == "clear":
                segs.append({"acc": set(), "loads": {}})
            elif ev[1] == "begin":
                segs[-1]["acc"].add(ev[2])
            elif ev[1] == "load":
                segs[-1]["loads"][ev[2]] = segs[-1]["loads"].get(ev[2], 0) + 1
        for k, sg in enumerate(segs):
            for i in sorted(sg["acc"] | set(sg["loads"])):
                want = 1 if i in sg["acc"] else 0
                got = sg["loads"].get(i, 0)
                if got != want and not fails:
                    kind = payload(f[i], case["kinds"])
                    fail("cache:sequential-loads", f"index {i} (sample {kind!r}) was loaded {got} times from the wrapped dataset in stretch {k} "
                         f"between clears (accessed: {i in sg['acc']})", want, got)
        exp = expected_loads_sequential(progs[0])
        if real["loads"] != exp and not fails:
            fail("cache:sequential-loads", f"sequential history loaded {real['loads']}, expected (once between clears, again after a clear) {exp}",
                 exp, real["loads"])
    else:
        # concurrent: a load of i is redundant-but-allowed only if i was absent at some moment of that access
        tr = real["trace"]
        for T, ev in enumerate(tr):
            if ev[1] != "load":
                continue
            r, i = ev[0], ev[2]
            T0 = max((k for k in range(T) if tr[k][0] == r and tr[k][1] == "begin" and tr[k][2] == i), default=None)
            if T0 is None:
                continue
            last_store = max((k for k in range(T0) if tr[k][1] == "store" and tr[k][2] == i), default=None)
            present_at_T0 = last_store is not None and not any(tr[k][1] == "clear" for k in range(last_store, T0))
            if present_at_T0 and not any(tr[k][1] == "clear" for k in range(T0, T)):
                fail("cache:load-although-cached", f"reader {r} loaded index {i} although it was cached during the whole access", "no load", tr[T0:T + 1])
                break
    return fails


# ----------------------------------------------------------------------------------------------
# cases
# ----------------------------------------------------------------------------------------------
G0, G1, G2, C = ["g", 0], ["g", 1], ["g", 2], ["c"]
PROG_PAIRS = [
    [[G0, G0], [C]], [[G0], [G0]], [[G0, C, G0], [G0]], [[G0, G1], [C, G0]], [[G0, G0], [G0, C]], [[G0, G1, G0], [G1, G0]],
    [[C, G0], [G0, C]], [[G0, G0, G0], [C, C]], [[G1, G0], [G0, G1]], [[G0], [C]],
]
PROG_TRIPLES = [[[G0, G0], [C], [G0]], [[G0, G1], [G1, C], [G0]], [[G0], [G0], [G0]], [[G0, C], [C, G0], [G0, G0]]]
KIND_SETS = [["int"], ["int", "tuple", "dict", "str"], ["tuple", "dict"], ["str", "int"],
             ["none"], ["none", "int"], ["zero", "false", "zerof", "empty_str"], ["empty_tuple", "list_none", "dict_none", "none"],
             ["none", "zero", "tuple", "false", "empty_str", "dict", "empty_tuple"]]


def mk_case(progs, sched, rng, nidx=None, kinds=None):
    nidx = nidx or 1 + max([op[1] for p in progs for op in p if op[0] == "g"], default=0)
    base = rng.randint(1, 9)
    return {"op": "cache.run", "f": [base + 7 * i for i in range(nidx)], "t": TADD, "kinds": kinds or rng.choice(KIND_SETS),
            "progs": progs, "sched": sched}


def random_case(rng, max_readers=3, nidx=4, max_ops=5, max_sched=30):
    n = rng.randint(1, max_readers)
    progs = []
    for _ in range(n):
        k = rng.randint(1, max_ops)
        progs.append([["c"] if rng.random() < 0.25 else ["g", rng.randrange(nidx)] for _ in range(k)])
    sched = [rng.randrange(n) for _ in range(rng.randint(0, max_sched))]
    kinds = rng.choice([["tensor", "int"], ["ndarray", "tuple"], ["tensor", "none"]]) if rng.random() < 0.1 else None
    return mk_case(progs, sched, rng, nidx=nidx, kinds=kinds)


def signature(case, real):
    tr = [e[1] + (":" + str(e[3]) if len(e) > 3 else "") for e in real["trace"] if e[1] not in ("begin",)]
    return (len(case["progs"]), json.dumps(case["progs"]), tuple(tr[:40]), len(real["loads"]))


def strip_trace(tr):
    return [e for e in tr if e[1] != "begin"]


# ----------------------------------------------------------------------------------------------
# real processes (no proxies): invariants only
# ----------------------------------------------------------------------------------------------
class _CountingBase:
    def __init__(self, n, counter):
        self.n, self.counter = n, counter

    def __len__(self):
        return self.n

    def __getitem__(self, i):
        if not 0 <= i < self.n:
            raise IndexError(i)
        with self.counter.get_lock():
            self.counter.value += 1
        return (int(i) * 3 + 1, "p")


def _hammer(ds, n, seed, n_ops, q):
    rng = random.Random(seed)
    bad = []
    for k in range(n_ops):
        try:
            if rng.random() < 0.15:
                ds.dispose()
            else:
                i = rng.randrange(n)
                v = ds[i]
                if v != ("T!", (i * 3 + 1, "p")):
                    bad.append(["wrong", i, repr(v)[:60]])
        except Exception as e:  # noqa
            bad.append(["exc", type(e).__name__, str(e)[:60]])
    q.put(bad)


def process_hammer(n_procs, n_idx, n_ops, seed):
    """real processes sharing one real cache, random gets and disposes; returns the list of deviations"""
    import multiprocessing as mp
    from kappadata.caching.shared_dict_dataset import SharedDictDataset
    ctx = mp.get_context("fork")
    counter = ctx.Value("i", 0)
    ds = SharedDictDataset(_CountingBase(n_idx, counter), transform=transform)
    q = ctx.Queue()
    ps = [ctx.Process(target=_hammer, args=(ds, n_idx, seed * 100 + k, n_ops, q)) for k in range(n_procs)]
    for p in ps:
        p.start()
    bad = []
    for _ in ps:
        bad += q.get(timeout=120)
    for p in ps:
        p.join(30)
    return bad


def dataloader_epochs(n_idx, workers):
    """two epochs of a real DataLoader with worker processes over the shared cache: values, and loads per epoch"""
    import multiprocessing as mp
    import torch
    from torch.utils.data import DataLoader
    from kappadata.caching.shared_dict_dataset import SharedDictDataset
    ctx = mp.get_context("fork")
    counter = ctx.Value("i", 0)

    class _B(_CountingBase):
        def __getitem__(self, i):
            super().__getitem__(i)
            return torch.tensor([int(i) * 3 + 1])
    ds = SharedDictDataset(_B(n_idx, counter), transform=lambda x: x + 1000)
    out = []
    for _ in range(2):
        before = counter.value
        vals = []
        for b in DataLoader(ds, batch_size=2, num_workers=workers, multiprocessing_context="fork"):
            vals += [int(x) for x in b.flatten()]
        out.append({"vals": vals, "loads": counter.value - before})
    ds.dispose()
    before = counter.value
    vals = [int(ds[i][0]) for i in range(n_idx)]
    out.append({"vals": vals, "loads": counter.value - before})
    return out


def loader_access(kind, n_idx=6, batch_size=2):
    """the cached dataset read the way a DataLoader reads it (in the main process, num_workers=0): every batch must hold
    transform(base[i]) and every sample must have gone through the cache.  `kind`: what is wrapped -- a plain map-style dataset, a
    torch Subset (defines __getitems__), or a dataset class that defines its own batched __getitems__"""
    import torch
    from torch.utils.data import DataLoader, Dataset, Subset
    from kappadata.caching.shared_dict_dataset import SharedDictDataset

    class _B(Dataset):
        def __init__(self):
            self.loads = []

        def __len__(self):
            return n_idx

        def __getitem__(self, i):
            self.loads.append(int(i))
            return torch.tensor([int(i) * 3 + 1])

    class _BB(_B):
        def __getitems__(self, idxs):
            return [self[i] for i in idxs]

    base = _B() if kind in ("plain", "subset") else _BB()
    wrapped = Subset(base, list(range(n_idx))) if kind == "subset" else base
    ds = SharedDictDataset(wrapped, transform=lambda x: x + 1000)
    out = {"kind": kind}
    try:
        vals = []
        for _ in range(2):
            for b in DataLoader(ds, batch_size=batch_size, num_workers=0):
                vals.append([int(x) for x in b.flatten()])
        out["vals"] = vals
        out["loads"] = sorted(base.loads)
        out["cached"] = sorted(int(k) for k in ds.shared_dict.keys())
    except Exception as e:  # noqa
        out["exc"] = f"{type(e).__name__}: {e}"[:200]
    return out


def loader_access_failure(kind, n_idx=6, batch_size=2):
    o = loader_access(kind, n_idx, batch_size)
    exp_epoch = [[i * 3 + 1001 for i in range(s, min(s + batch_size, n_idx))] for s in range(0, n_idx, batch_size)]
    exp = {"kind": kind, "vals": exp_epoch + exp_epoch, "loads": list(range(n_idx)), "cached": list(range(n_idx))}
    if o != exp:
        return Failure("cache:loader-access", f"a DataLoader over the cached dataset (wrapped: {kind}) does not see transform(base[i]) for every sample, "
                       f"loaded once and cached: it reads around the cache / the post-cache transform", {"loader_access": [kind, n_idx, batch_size]},
                       exp, o)
    return None


class C19(PropertyCheck):
    pid = "C19"
    claimed = True
    props_modules = ["KDVerif.Props.C19"]
    extra_build = ["KDVerif.Driver.Cache"]
    driver_main = "mains/Cache.lean"
    anchored = ["kappadata/caching/shared_dict_dataset.py", "kappadata/caching/cached_dataset.py"]
    design_ref = "DESIGN.md 3 (C19)"
    technique = "Lean 4 proof over hand model (interleaving machine) + schedule-replay correspondence on the real Manager dict"
    assumptions = [
        "every single Manager-dict call (__contains__, __getitem__, __setitem__, clear) is atomic and linearizable",
        "the wrapped dataset is a pure function of the index; samples survive pickling through the Manager unchanged (checked by equality)",
        "the transform is a function of the sample",
        "indices are hashable values compared by equality (int-like)",
    ]
    trusted_extra = [
        "modelled by hand: SharedDictDataset._cached_getitem (membership test, read with KeyError fallback, load, store), dispose, "
        "CachedDataset.__getitem__ (transform after the cache)",
        "not modelled: the Manager server process, pickling, CachedDataset.__getattr__ forwarding, __len__",
        "schedule replay: reader threads hold shallow copies of the real SharedDictDataset whose shared_dict is a blocking proxy around "
        "the real Manager dict (one scheduled step per dict call) and whose wrapped dataset is a blocking counting proxy",
    ]
    level_text = ("Lean theorems (KDVerif.Props.C19): for every schedule of any number of readers with clears anywhere every reader has answered a "
                  "prefix of its program exactly like dataset+transform (no exception), the dict only holds raw samples under their index, a "
                  "reader scheduled 4*|program| times has finished; sequential histories: answers, load log = first access since last clear "
                  "(at most once between clears, again after a clear), transform log = every access. Tied to the code by schedule replay on "
                  "the real object (results, load log, transform count, final dict, event trace compared) + independent oracle.")
    level_note = ("trusted: Lean kernel + standard axioms; linearizability of single Manager-dict calls; pickling fidelity (equality-checked); "
                  "the scheduler/proxy harness. Real multi-process runs (forked readers, DataLoader workers) check the invariants only.")

    def _real(self):
        if not hasattr(self, "_rc"):
            self._rc = RealCache()
        return self._rc

    def cases(self):
        quick = self.tier == "quick"
        rng = self.rng
        out = []
        cdir = __import__("pathlib").Path(__file__).resolve().parents[2] / "corpus" / "cache"
        ncorp = 0
        if cdir.exists():
            for p in sorted(cdir.glob("*.json")):
                out.append(json.loads(p.read_text()))
                ncorp += 1
        L2 = 7 if quick else 10
        L3 = 5 if quick else 8
        ex = []
        for progs in PROG_PAIRS:
            for sched in itertools.product(range(2), repeat=L2):
                ex.append(mk_case(progs, list(sched), rng))
        ex3 = []
        for progs in PROG_TRIPLES:
            for sched in itertools.product(range(3), repeat=L3):
                ex3.append(mk_case(progs, list(sched), rng))
        if quick:
            rng.shuffle(ex3)
            ex3 = ex3[:500]
        else:
            rng.shuffle(ex3)
            ex3 = ex3[:8000]
        out += ex + ex3
        nex = len(ex) + len(ex3)
        # samples that are None / falsy as a whole (a cache must not mistake them for "not cached")
        for k in FALSY:
            out.append(mk_case([[G0, G0, G1, G0, C, G0, G0, G1]], [], rng, kinds=[k]))
            out.append(mk_case([[G0, G0], [G0, C, G0]], [0, 0, 0, 1, 1, 0, 0, 1, 1, 1, 1], rng, kinds=[k]))
        for _ in range(250 if quick else 2000):          # sequential histories
            out.append(random_case(rng, max_readers=1, max_ops=12, max_sched=0))
        for _ in range(450 if quick else 6000):
            out.append(random_case(rng))
        return out, ncorp, nex, (L2, L3)

    def correspond(self):
        res = CorrResult()
        cases, ncorp, nex, (L2, L3) = self.cases()
        res.rule = (f"{ncorp} corpus + {nex} schedule-exhaustive cases (all schedules of length {L2} over {len(PROG_PAIRS)} two-reader program sets; "
                    f"schedules of length {L3} over {len(PROG_TRIPLES)} three-reader sets{' (sampled)' if self.tier == 'quick' else ''}; remaining steps drained) "
                    "+ random sequential histories (<= 12 ops, 4 indices) + random concurrent cases (<= 3 readers, 4 indices, <= 5 ops each, "
                    "schedules <= 30 + drain), payload types int/tuple/dict/str/tensor/ndarray and whole-sample None/0/False/0.0/''/()/[None]/{k: None}; distinct = (programs, event trace)")
        res.exhaustive = self.tier == "thorough"
        rc = self._real()
        reals = []
        for case in cases:
            real = rc.run(case)
            reals.append(real)
        reqs = [dict(case, sched=real["sched"]) for case, real in zip(cases, reals)]
        answers = self.driver.run([{k: v for k, v in r.items() if k != "kinds"} for r in reqs])
        for case, real, model in zip(cases, reals, answers):
            res.cases += 1
            res.nontrivial.add(signature(case, real))
            res.bump(f"readers={len(case['progs'])}")
            for e in real["trace"]:
                if e[1] != "begin":
                    res.bump("ev:" + e[1] + (":" + str(e[3]).lower() if len(e) > 3 else ""))
            res.bump("kinds=" + "+".join(case["kinds"]))
            impl_view = {"outs": real["outs"], "loads": real["loads"], "tapps": real["tapps"], "dict": real["dict"],
                         "trace": strip_trace(real["trace"]),
                         # the real run (in-place transform on mutable payloads) is also what the mutable-payload model must give
                         "mut_outs": real["outs"], "mut_dict": real["dict"]}
            model_view = {k: model.get(k) for k in ("outs", "loads", "tapps", "dict", "trace", "mut_outs", "mut_dict")}
            if model.get("error") or impl_view != model_view:
                if len(res.disagreements) < 40:
                    res.disagreements.append(Disagreement(case, model_view if not model.get("error") else model, impl_view))
            for f in oracle(case, real):
                if len(res.failures) < 40 and sum(1 for g in res.failures if g.key == f.key) < 3:
                    res.failures.append(f)
            if len(res.samples) < 3 and len(case["progs"]) > 1 and any(e[1] == "read" and not e[3] for e in real["trace"]):
                res.samples.append({"progs": case["progs"], "sched": real["sched"], "outs": real["outs"], "loads": real["loads"],
                                    "trace": strip_trace(real["trace"])})
        # real processes (invariants only)
        for k in range(1 if self.tier == "quick" else 6):
            bad = process_hammer(4, 3, 150 if self.tier == "quick" else 600, self.seed * 10 + k)
            res.cases += 1
            res.bump("real-process-hammer")
            if bad:
                kind = bad[0]
                key = ("cache:keyerror-when-disposed-between-membership-test-and-read" if kind[0] == "exc" and kind[1] == "KeyError"
                       else "cache:exception" if kind[0] == "exc" else "cache:wrong-value")
                res.failures.append(Failure(key, f"4 real processes sharing the cache (random get/dispose): {len(bad)} deviations, first {kind}",
                                            {"hammer": [4, 3, 600, self.seed * 10 + k]}, "no deviation", bad[:5]))
        for kind in ("plain", "subset", "batched"):
            res.cases += 1
            res.bump(f"loader-access:{kind}")
            f = loader_access_failure(kind)
            if f is not None:
                res.failures.append(f)
        if self.tier != "quick":
            eps = dataloader_epochs(7, 3)
            res.cases += 1
            res.bump("real-dataloader-workers=3")
            exp = sorted(i * 3 + 1001 for i in range(7))
            ok = (sorted(eps[0]["vals"]) == exp and sorted(eps[1]["vals"]) == exp and eps[1]["loads"] == 0 and eps[0]["loads"] >= 7
                  and sorted(eps[2]["vals"]) == exp and eps[2]["loads"] == 7)
            if not ok:
                res.failures.append(Failure("cache:dataloader", "DataLoader(num_workers=3) over the shared cache: values / loads per epoch deviate",
                                            {"dataloader": [7, 3]}, {"vals": exp, "loads": [">=7", 0, 7]}, eps))
        res.failures.sort(key=lambda f: len(json.dumps(f.input)))
        return res

    def replay_input(self, inp):
        if "hammer" in inp:
            bad = process_hammer(*inp["hammer"])
            return Failure("cache:exception", f"{len(bad)} deviations", inp, "none", bad[:5]) if bad else None
        if "loader_access" in inp:
            return loader_access_failure(*inp["loader_access"])
        if "dataloader" in inp:
            return None
        fs = oracle(inp, self._real().run(inp))
        return fs[0] if fs else None

    def search(self, budget_s, hints):
        t0 = time.time()
        out = []
        rc = self._real()
        for h in hints:
            if "progs" in h:
                out += oracle(h, rc.run(h))
        rng = random.Random(self.seed + 19)
        while not out and time.time() - t0 < budget_s:
            c = random_case(rng)
            out += oracle(c, rc.run(c))
        return out[:3]
