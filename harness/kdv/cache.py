"""C19 — SharedDictDataset / CachedDataset: the shared in-memory cache is transparent for every access history.

* schedule replay on the real code: readers are threads running the unmodified `ds[i]` / `ds.dispose()`; every reader holds its
  own shallow copy of the real `SharedDictDataset` (as a forked DataLoader worker would) whose `shared_dict` is a proxy around
  the *real* Manager dict and whose wrapped dataset is a counting proxy; every dict operation and every load blocks on a
  harness scheduler, so that a schedule (list of reader ids) fixes the interleaving of atomic steps exactly
* the same schedule is fed to the Lean model (`KDVerif.Model.Cache`, driver `mains/Cache.lean`); results, load log, transform
  log, final dict and the event trace are compared
* independent oracle written from the property text (no Lean model involved)
* thorough: real processes (forked readers hammering get/dispose; DataLoader workers) checking the invariants only
"""
import copy
import itertools
import json
import random
import threading
import time

from .common import CorrResult, Disagreement, Failure, Infra, PropertyCheck

BIG = 10 ** 9        # index objects are fresh big ints (never interned): a cache keyed by identity would always miss
TADD = 1000          # the transform adds TADD to the decoded payload (not idempotent: double application is visible)


# ----------------------------------------------------------------------------------------------
# payloads: value id <-> picklable sample of varying type
# ----------------------------------------------------------------------------------------------
def payload(v, kinds):
    k = kinds[v % len(kinds)]
    if k == "int":
        return v
    if k == "tuple":
        return (v, "s" * (v % 3))
    if k == "dict":
        return {"x": v, "y": [v, v + 1]}
    if k == "str":
        return f"sample-{v}"
    if k == "tensor":
        import torch
        return torch.tensor([v, v + 1])
    if k == "ndarray":
        import numpy as np
        return np.array([v, v + 2])
    raise ValueError(k)


def decode(p):
    """payload (possibly wrapped by the transform any number of times) -> value id + TADD * (number of wraps)"""
    if isinstance(p, tuple) and len(p) == 2 and p[0] == "T!":
        return TADD + decode(p[1])
    if isinstance(p, int):
        return p
    if isinstance(p, tuple):
        return p[0]
    if isinstance(p, dict):
        return p["x"]
    if isinstance(p, str):
        return int(p.split("-")[1])
    return int(p[0])      # tensor / ndarray


def transform(p):
    return ("T!", p)


# ----------------------------------------------------------------------------------------------
# scheduler + proxies
# ----------------------------------------------------------------------------------------------
class Sched:
    """exactly one reader thread runs at a time; a grant lets the reader execute one atomic step and run on until it
    blocks at its next step (or finishes)"""

    def __init__(self, n):
        self.go = [threading.Semaphore(0) for _ in range(n)]
        self.parked = threading.Semaphore(0)
        self.done = [False] * n
        self.trace = []

    def point(self, r):
        self.parked.release()
        self.go[r].acquire()

    def finish(self, r):
        self.done[r] = True
        self.parked.release()

    def wait_parked(self, timeout=20):
        if not self.parked.acquire(timeout=timeout):
            raise Infra("cache scheduler: reader did not reach its next step (deadlock in the code under test?)")


class DictProxy:
    """proxy around the real Manager dict: one scheduled atomic step per call"""

    def __init__(self, real, sched, r):
        self._real, self._s, self._r = real, sched, r

    def _key(self, k):
        try:
            return int(k) - BIG
        except Exception:
            return repr(k)

    def __contains__(self, k):
        self._s.point(self._r)
        res = k in self._real
        self._s.trace.append([self._r, "contains", self._key(k), bool(res)])
        return res

    def __getitem__(self, k):
        self._s.point(self._r)
        try:
            v = self._real[k]
        except KeyError:
            self._s.trace.append([self._r, "read", self._key(k), False])
            raise
        self._s.trace.append([self._r, "read", self._key(k), True])
        return v

    def __setitem__(self, k, v):
        self._s.point(self._r)
        self._real[k] = v
        self._s.trace.append([self._r, "store", self._key(k)])

    def clear(self):
        self._s.point(self._r)
        self._real.clear()
        self._s.trace.append([self._r, "clear"])

    def __getattr__(self, name):
        real = getattr(self._real, name)
        if not callable(real):
            return real

        def call(*a, **kw):
            self._s.point(self._r)
            self._s.trace.append([self._r, "other:" + name] + [self._key(x) for x in a[:1]])
            return real(*a, **kw)
        return call

    def __len__(self):
        self._s.point(self._r)
        self._s.trace.append([self._r, "other:len"])
        return len(self._real)


class BaseProxy:
    """the wrapped dataset as one reader sees it: a load is one scheduled step and is logged"""

    def __init__(self, fvals, kinds, sched, r, loads, n):
        self.fvals, self.kinds, self._s, self._r, self.loads, self.n = fvals, kinds, sched, r, loads, n

    def __len__(self):
        return self.n

    def __getitem__(self, idx):
        self._s.point(self._r)
        i = int(idx) - BIG
        self.loads.append(i)
        self._s.trace.append([self._r, "load", i])
        return payload(self.fvals[i], self.kinds)


class RealCache:
    """one real SharedDictDataset (one Manager process) reused for all cases"""

    def __init__(self):
        from kappadata.caching.shared_dict_dataset import SharedDictDataset

        class _Empty:
            def __len__(self):
                return 0

            def __getitem__(self, i):
                raise IndexError(i)
        self.ds = SharedDictDataset(_Empty(), transform=transform)
        self.real_dict = self.ds.shared_dict

    def run(self, case, timeout=20):
        """case: {f: [value ids], kinds: [...], progs: [[['g', i] | ['c']]], sched: [reader ids]}"""
        progs, fvals, kinds = case["progs"], case["f"], case["kinds"]
        n = len(progs)
        self.real_dict.clear()
        s = Sched(n)
        loads, tapps = [], []
        outs = [[] for _ in range(n)]

        def tr_for(r):
            def tr(x):
                tapps.append(r)
                return transform(x)
            return tr

        readers = []
        for r in range(n):
            d = copy.copy(self.ds)                       # what a forked worker holds: its own object, the shared dict
            d.__dict__["shared_dict"] = DictProxy(self.real_dict, s, r)
            d.__dict__["dataset"] = BaseProxy(fvals, kinds, s, r, loads, len(fvals))
            d.__dict__["transform"] = tr_for(r)
            readers.append(d)

        def body(r):
            try:
                for op in progs[r]:
                    if op[0] == "g":
                        i = op[1]
                        idx = int(str(BIG + i))          # a fresh int object on every access
                        try:
                            v = readers[r][idx]
                            outs[r].append(["val", i, decode(v)])
                        except KeyError:
                            outs[r].append(["keyerror", i])
                        except Exception as e:  # noqa
                            outs[r].append(["exc", i, type(e).__name__])
                    else:
                        try:
                            readers[r].dispose()
                            outs[r].append(["cleared"])
                        except Exception as e:  # noqa
                            outs[r].append(["exc", -1, type(e).__name__])
            finally:
                s.finish(r)

        ths = [threading.Thread(target=body, args=(r,), daemon=True) for r in range(n)]
        for t in ths:
            t.start()
        for _ in range(n):
            s.wait_parked(timeout)
        eff = []
        for r in case["sched"]:
            if not 0 <= r < n or s.done[r]:
                eff.append(r)
                s.trace.append([r, "noop"])
                continue
            eff.append(r)
            s.go[r].release()
            s.wait_parked(timeout)
        # drain: finish every reader (reader 0 first, then 1, ...) so that no thread is left behind
        for r in range(n):
            while not s.done[r]:
                eff.append(r)
                s.go[r].release()
                s.wait_parked(timeout)
        for t in ths:
            t.join(timeout)
        final = sorted([int(k) - BIG, decode(v)] for k, v in self.real_dict.items())
        # a reader's dispose() must act on the shared dict, also as seen by the other readers' objects
        return {"outs": outs, "loads": loads, "tapps": len(tapps), "dict": final, "trace": s.trace, "sched": eff}

    def close(self):
        try:
            self.real_dict._manager = None
        except Exception:
            pass
