"""Translator: the `einops.rearrange` pattern strings used by the patch transforms of /repo
->  lean/KDVerif/Gen/Patterns.lean   (patterns as lists of axis groups + the obligations of C14, re-proved by `decide`)

Extracted by AST (no import of the modules): every call `einops.rearrange(...)` in
  kappadata/transforms/patchify_image.py      -> patchifyImage
  kappadata/transforms/unpatchify_image.py    -> unpatchifyImage
  kappadata/transforms/patchify.py            -> patchify
  kappadata/transforms/unpatchify.py          -> unpatchify
  kappadata/transforms/patchwise_transform.py -> patchwiseFlatten, patchwiseUnflatten (in source order)
Obligations emitted: every pattern is well formed; unpatchifyImage = swap patchifyImage; unpatchify = swap patchify;
patchwiseUnflatten = swap patchwiseFlatten; patchwiseFlatten starts from patchify's output layout and patchwiseUnflatten ends in
unpatchify's input layout. A pattern that cannot be found / parsed is emitted as the empty pattern, which fails the obligations.
"""
import ast
import os
import re
from pathlib import Path

VERIF = Path(__file__).resolve().parents[2]
GEN = VERIF / "lean" / "KDVerif" / "Gen"
REPO = Path(os.environ.get("KDV_REPO", "/repo"))

SOURCES = [
    ("kappadata/transforms/patchify_image.py", ["patchifyImage"]),
    ("kappadata/transforms/unpatchify_image.py", ["unpatchifyImage"]),
    ("kappadata/transforms/patchify.py", ["patchify"]),
    ("kappadata/transforms/unpatchify.py", ["unpatchify"]),
    ("kappadata/transforms/patchwise_transform.py", ["patchwiseFlatten", "patchwiseUnflatten"]),
]
ORDER = [n for _, ns in SOURCES for n in ns]


def parse_side(s):
    """'c (lh ph) (lw pw)' -> [['c'], ['lh','ph'], ['lw','pw']]; raises ValueError on anything else"""
    groups, cur, depth = [], None, 0
    for tok in re.findall(r"\(|\)|[^\s()]+", s):
        if tok == "(":
            if depth:
                raise ValueError("nested parenthesis")
            depth, cur = 1, []
        elif tok == ")":
            if not depth:
                raise ValueError("unbalanced parenthesis")
            groups.append(cur)
            depth, cur = 0, None
        else:
            if not re.fullmatch(r"[A-Za-z_][A-Za-z_0-9]*", tok):
                raise ValueError(f"unsupported token {tok!r}")
            if depth:
                cur.append(tok)
            else:
                groups.append([tok])
    if depth:
        raise ValueError("unbalanced parenthesis")
    return groups


def parse_pattern(p):
    if p.count("->") != 1:
        raise ValueError("no single '->'")
    l, r = p.split("->")
    return parse_side(l), parse_side(r)


def rearrange_calls(path):
    """[(pattern string or None, [keyword names])] for every einops.rearrange call in source order"""
    tree = ast.parse(Path(path).read_text())
    calls = []
    for node in ast.walk(tree):
        if isinstance(node, ast.Call):
            f = node.func
            name = f.attr if isinstance(f, ast.Attribute) else (f.id if isinstance(f, ast.Name) else None)
            if name != "rearrange":
                continue
            pat = None
            if len(node.args) >= 2 and isinstance(node.args[1], ast.Constant) and isinstance(node.args[1].value, str):
                pat = node.args[1].value
            kws = []
            for kw in node.keywords:
                if kw.arg == "pattern" and isinstance(kw.value, ast.Constant) and isinstance(kw.value.value, str):
                    pat = kw.value.value
                elif kw.arg not in ("pattern", "tensor", None):
                    kws.append(kw.arg)
            calls.append((node.lineno, node.col_offset, pat, kws))
    calls.sort()
    return [(p, k) for _, _, p, k in calls]


def extract():
    """name -> dict(raw, lhs, rhs, kws, error)"""
    out = {}
    for rel, names in SOURCES:
        try:
            calls = rearrange_calls(REPO / rel)
            err = None
        except Exception as e:
            calls, err = [], f"{type(e).__name__}: {e}"
        for k, name in enumerate(names):
            d = {"file": rel, "raw": None, "lhs": [], "rhs": [], "kws": [], "error": err}
            if k < len(calls):
                raw, kws = calls[k]
                d["raw"], d["kws"] = raw, kws
                try:
                    if raw is None:
                        raise ValueError("pattern is not a string literal")
                    d["lhs"], d["rhs"] = parse_pattern(raw)
                except ValueError as e:
                    d["error"] = str(e)
            elif err is None:
                d["error"] = "no einops.rearrange call found"
            if len(calls) != len(names) and err is None and d["error"] is None:
                d["error"] = f"expected {len(names)} rearrange calls, found {len(calls)}"
            out[name] = d
    return out


def extract_dynamic():
    """the pattern strings the transforms actually hand to einops.rearrange (observed on tiny tensors); robust against
    refactorings that move the pattern into a constant / helper.  Returns name -> raw pattern, or None if anything fails."""
    try:
        import einops
        import torch
        from unittest import mock
        import kappadata.transforms as T
        seen = []
        orig = einops.rearrange

        def rec(tensor, pattern, *a, **kw):
            seen.append(pattern)
            return orig(tensor, pattern, *a, **kw)
        out = {}
        with mock.patch.object(einops, "rearrange", rec):
            x = torch.arange(3 * 4 * 6, dtype=torch.float32).reshape(3, 4, 6)
            ctx = {}
            del seen[:]
            p = T.PatchifyImage(patch_size=2)(x.clone(), ctx=ctx)
            out["patchifyImage"] = list(seen)
            del seen[:]
            T.UnpatchifyImage()(p, ctx=ctx)
            out["unpatchifyImage"] = list(seen)
            del seen[:]
            q = T.Patchify(patch_size=2)(x.clone())
            out["patchify"] = list(seen)
            del seen[:]
            T.Unpatchify()(q)
            out["unpatchify"] = list(seen)
            del seen[:]
            T.PatchwiseTransform(patch_size=2, transform=T.KDIdentityTransform())(x.clone())
            pw = list(seen)
        if any(len(v) != 1 for v in out.values()):
            return None
        res = {k: v[0] for k, v in out.items()}
        def sides(pat):
            l, r = pat.split("->")
            return " ".join(l.split()), " ".join(r.split())
        if len(pw) >= 2 and pw[0] == out["patchify"][0] and pw[-1] == out["unpatchify"][0] and len(pw) <= 4:
            mid = pw[1:-1]
            p_out, u_in = sides(out["patchify"][0])[1], sides(out["unpatchify"][0])[0]
            fl = [m for m in mid if sides(m)[0] == p_out]
            un = [m for m in mid if sides(m)[1] == u_in and m not in fl]
            if len(fl) + len(un) != len(mid) or len(fl) > 1 or len(un) > 1:
                return None
            # between patchify and unpatchify PatchwiseTransform flattens the patch grid, transforms patch by patch and restores the
            # grid; a step that is done without einops (tensor.flatten / unbind / stack ...) is represented by the swap of its
            # einops counterpart, or by the identity pattern when neither step uses einops -- the traversal itself is checked
            # behaviourally (sub = "patchwise": an identity inner transform gives the input back)
            if fl and un:
                res["patchwiseFlatten"], res["patchwiseUnflatten"] = fl[0], un[0]
            elif fl:
                l, r = sides(fl[0])
                res["patchwiseFlatten"], res["patchwiseUnflatten"] = fl[0], f"{r} -> {l}"
                res["_patchwise_note"] = "unflatten step done without einops (represented by the swap of the flatten pattern)"
            elif un:
                l, r = sides(un[0])
                res["patchwiseFlatten"], res["patchwiseUnflatten"] = f"{r} -> {l}", un[0]
                res["_patchwise_note"] = "flatten step done without einops (represented by the swap of the unflatten pattern)"
            else:
                res["patchwiseFlatten"] = res["patchwiseUnflatten"] = f"{p_out} -> {p_out}"
                res["_patchwise_note"] = "no einops rearrangement between patchify and unpatchify in PatchwiseTransform"
        else:
            return None
        return res
    except Exception:
        return None


def lean_side(groups):
    return "[" + ", ".join("[" + ", ".join(f'"{a}"' for a in g) + "]" for g in groups) + "]"


def lean_shape(groups):
    def prod(g):
        e = "1"
        for a in reversed(g):
            e = f's "{a}" * {e}' if e == "1" else f's "{a}" * ({e})'
        return e
    return "[" + ", ".join(prod(g) for g in groups) + "]"


def emit(pats):
    L = ["/- GENERATED by harness/kdv/translate_einops.py from /repo — do not edit. -/",
         "import KDVerif.Model.Rearrange", "", "namespace KDVerif.Gen.Patterns", "open KDVerif.Rearrange", ""]
    for n in ORDER:
        d = pats[n]
        L.append(f"/-- `{d['file']}`: `{d['raw']}`" + (f" (translator: {d['error']})" if d["error"] else "") + " -/")
        L.append(f"def {n} : Pattern := ⟨{lean_side(d['lhs'])}, {lean_side(d['rhs'])}⟩")
        L.append("")
    L.append("/-! obligations (re-proved against the source on every run) -/")
    L.append("")
    for n in ORDER:
        L.append(f"theorem {n}_wf : {n}.WellFormed := by decide")
        L.append(f"theorem {n}_nonempty : {n}.lhs ≠ [] := by decide")
    L.append("")
    L.append("/-- `UnpatchifyImage` undoes `PatchifyImage` -/")
    L.append("theorem unpatchifyImage_is_swap : unpatchifyImage = patchifyImage.swap := by decide")
    L.append("/-- `Unpatchify` undoes `Patchify` -/")
    L.append("theorem unpatchify_is_swap : unpatchify = patchify.swap := by decide")
    L.append("/-- inside `PatchwiseTransform` the second rearrangement undoes the first -/")
    L.append("theorem patchwiseUnflatten_is_swap : patchwiseUnflatten = patchwiseFlatten.swap := by decide")
    L.append("/-- … and they sit between `Patchify`'s output layout and `Unpatchify`'s input layout -/")
    L.append("theorem patchwise_chain : patchwiseFlatten.lhs = patchify.rhs ∧ patchwiseUnflatten.rhs = unpatchify.lhs := by decide")
    L.append("")
    L.append("/-! the tensor shapes einops checks the patterns against -/")
    L.append("")
    for n in ORDER:
        d = pats[n]
        L.append(f"theorem {n}_lhs_shape (s : Sizes) : shapeOf s {n}.lhs = {lean_shape(d['lhs'])} := rfl")
        L.append(f"theorem {n}_rhs_shape (s : Sizes) : shapeOf s {n}.rhs = {lean_shape(d['rhs'])} := rfl")
    L.append("")
    L.append("end KDVerif.Gen.Patterns")
    return "\n".join(L) + "\n"


def problems(pats):
    """the obligations, evaluated in Python (for the evidence / the search hints; Lean is the judge)"""
    bad = []
    for n in ORDER:
        d = pats[n]
        if d["error"]:
            bad.append(f"{n}: {d['error']}")
            continue
        fl = [a for g in d["lhs"] for a in g]
        fr = [a for g in d["rhs"] for a in g]
        if len(set(fl)) != len(fl) or len(set(fr)) != len(fr) or set(fl) != set(fr) or not fl:
            bad.append(f"{n}: not well formed")
    for a, b in (("unpatchifyImage", "patchifyImage"), ("unpatchify", "patchify"), ("patchwiseUnflatten", "patchwiseFlatten")):
        if (pats[a]["lhs"], pats[a]["rhs"]) != (pats[b]["rhs"], pats[b]["lhs"]):
            bad.append(f"{a} is not the swap of {b}")
    if pats["patchwiseFlatten"]["lhs"] != pats["patchify"]["rhs"] or pats["patchwiseUnflatten"]["rhs"] != pats["unpatchify"]["lhs"]:
        bad.append("patchwise chain does not match patchify/unpatchify layouts")
    return bad


def generate():
    pats = extract()
    dyn = extract_dynamic()
    if dyn is not None:
        # what the code does decides; the AST reading is kept as the fallback when the transforms cannot be run
        for n in ORDER:
            d = pats[n]
            if d["raw"] != dyn[n]:
                d["raw"], d["error"] = dyn[n], None
                try:
                    d["lhs"], d["rhs"] = parse_pattern(dyn[n])
                except ValueError as e:
                    d["lhs"], d["rhs"], d["error"] = [], [], str(e)
            d["source"] = "observed on a real call"
        if dyn.get("_patchwise_note"):
            for n in ("patchwiseFlatten", "patchwiseUnflatten"):
                pats[n]["raw"] = pats[n]["raw"] + "   -- " + dyn["_patchwise_note"]
    text = emit(pats)
    GEN.mkdir(parents=True, exist_ok=True)
    p = GEN / "Patterns.lean"
    changed = (not p.exists()) or p.read_text() != text
    if changed:
        p.write_text(text)
    return pats, problems(pats), changed


if __name__ == "__main__":
    pats, bad, changed = generate()
    for n in ORDER:
        print(n, pats[n]["raw"], pats[n]["kws"], pats[n]["error"])
    print("changed", changed, "problems", bad)
