"""C04 / C05 / C06 — InterleavedSampler: case generator, real-code runner, property oracles."""
import itertools
import json
import random

from .common import CorrResult, Disagreement, Failure, PropertyCheck

MAX_EVENTS = 6000
FUEL = 80


# ----------------------------------------------------------------------------------------------
# real code runner
# ----------------------------------------------------------------------------------------------
N_EPOCHS = 16      # rows of the main-sampler table (epochs the model / the oracle know about)


class _DS:
    """data source: item i of dataset `tag` is (tag, i)"""

    def __init__(self, tag, n):
        self.tag, self.n = tag, n

    def __len__(self):
        return self.n

    def __getitem__(self, i):
        if not 0 <= i < self.n:
            raise IndexError(i)
        return (self.tag, int(i))

    def worker_init_fn(self, rank, **kwargs):
        pass


class _DSC(_DS):
    """data source with class labels (what the package's ClassBalancedSampler / SemiSampler ask their dataset for)"""

    def __init__(self, tag, classes):
        super().__init__(tag, len(classes))
        self.classes = [int(c) for c in classes]

    def getall_class(self):
        return list(self.classes)

    def getitem_class(self, idx, ctx=None):
        return self.classes[idx]

    def getdim_class(self):
        return max(self.classes) + 1


class _OutOfTable(Exception):
    """the run needs more epochs than the oracle table holds: treated as 'does not end'"""


def _np_int(x):
    import numpy as np
    return np.int64(x)


class _Main:
    def __init__(self, table, n, ds, log, wrap=None):
        self.table, self.n, self.data_source, self.log = table, n, ds, log
        self.epoch = None
        self.wrap = wrap

    def set_epoch(self, e):
        self.epoch = e
        self.log.append([2, e])

    def __len__(self):
        return self.n

    def _row(self):
        if self.epoch >= len(self.table):
            raise _OutOfTable()
        row = self.table[self.epoch]
        return [self.wrap(x) for x in row] if self.wrap else row

    def __iter__(self):
        yield from self._row()


class _MainEager(_Main):
    """a main sampler that fixes its order when `iter()` is called (like torch's DistributedSampler, epoch 0 by default):
    the epoch has to be announced BEFORE the iterator is created"""

    def __init__(self, table, n, ds, log, wrap=None):
        super().__init__(table, n, ds, log, wrap)
        self.epoch = 0

    def __iter__(self):
        return iter(list(self._row()))


class _Side:
    def __init__(self, idxs, n, ds, wrap=None):
        self.idxs, self.n, self.dataset = idxs, n, ds
        self.wrap = wrap

    def __len__(self):
        return self.n

    def __iter__(self):
        for x in self.idxs:
            yield self.wrap(x) if self.wrap else x


class _Coll:
    def __init__(self, tag):
        self.tag = tag

    def __call__(self, data):
        return (self.tag, list(data))


# ---- main samplers shipped by the package / by torch (rank r of world_size w) -------------------------------------------
_REC = {}


def _recording(base):
    """subclass of a real sampler class that reports the set_epoch calls it receives (arguments forwarded verbatim) and,
    like `_Main`, stops runs that leave the table of epochs"""
    cls = _REC.get(base)
    if cls is None:
        class Rec(base):
            _kdv_log = None
            _kdv_epoch = None

            def set_epoch(self, epoch):
                self._kdv_epoch = epoch
                if self._kdv_log is not None:
                    self._kdv_log.append([2, epoch])
                up = getattr(super(), "set_epoch", None)
                if up is not None:
                    up(epoch)

            def __iter__(self):
                if self._kdv_epoch is not None and self._kdv_epoch >= N_EPOCHS:
                    raise _OutOfTable()
                return super().__iter__()

        Rec.__name__ = Rec.__qualname__ = base.__name__
        _REC[base] = cls = Rec
    return cls


def msamp_dataset(ms):
    if "classes" in ms:
        return _DSC(0, ms["classes"])
    return _DS(0, ms["n"])


def make_msamp(ms, ds, log):
    """the real main sampler described by `ms` over the data source `ds`"""
    import torch
    import kappadata.samplers as ks
    from torch.utils.data import DistributedSampler as TorchDistributedSampler
    k = ms["kind"]
    if k == "kd_dist":
        s = _recording(ks.DistributedSampler)(ds, num_replicas=ms["w"], rank=ms["r"], shuffle=ms["shuffle"], seed=ms["seed"],
                                              drop_last=ms["sdl"], num_repeats=ms["rep"])
    elif k == "torch_dist":
        s = _recording(TorchDistributedSampler)(ds, num_replicas=ms["w"], rank=ms["r"], shuffle=ms["shuffle"], seed=ms["seed"],
                                                drop_last=ms["sdl"])
    elif k == "kd_weighted":
        s = _recording(ks.WeightedSampler)(ds, weights=torch.tensor(ms["weights"], dtype=torch.float32), size=ms["size"],
                                           seed=ms["seed"], rank=ms["r"], world_size=ms["w"])
    elif k == "kd_cb":
        s = _recording(ks.ClassBalancedSampler)(ds, shuffle=ms["shuffle"], samples_per_class=ms["spc"], seed=ms["seed"],
                                                rank=ms["r"], world_size=ms["w"])
    elif k == "kd_semi":
        s = _recording(ks.SemiSampler)(ds, num_labeled=ms["nl"], num_unlabeled=ms["nu"], rank=ms["r"], world_size=ms["w"],
                                       seed=ms["seed"], length_mode=ms["mode"])
    elif k == "kd_seq":
        s = _recording(ks.SequentialSampler)(ds)
    else:
        raise ValueError(k)
    s._kdv_log = log
    return s


def materialise_msamp(ms):
    """(len(sampler), len(data source), [the sampler's own iteration of epoch e for e < N_EPOCHS]) from a reference instance"""
    ds = msamp_dataset(ms)
    ref = make_msamp(ms, ds, None)
    n = len(ref)
    table = []
    for e in range(N_EPOCHS):
        ref.set_epoch(e)
        table.append([int(i) for i in ref])
    return n, len(ds), table


class _Built:
    s = None          # the sampler under observation
    itp = None        # iterator of a second sampler that is alive at the same time and shares the config objects
    post = None       # builds (and maybe runs) a later user of the same config objects


def _consume(it, limit=MAX_EVENTS):
    try:
        for k, _ in enumerate(it):
            if k > limit:
                break
    except Exception:
        pass


def build_real(case, log):
    from kappadata.samplers.interleaved_sampler import InterleavedSampler, InterleavedSamplerConfig
    wrap = _np_int if case.get("idx_type") == "np" else None
    ms = case.get("msamp")
    if ms:
        mds_obj = msamp_dataset(ms)
        main = make_msamp(ms, mds_obj, log)
    else:
        mds_obj = _DS(0, case["mds"])
        main = (_MainEager if case.get("eager") else _Main)(case["main"], case["N"], mds_obj, log, wrap)
        if case.get("efflen") is not None:
            # the package's rank-aware samplers expose the GLOBAL epoch size as `effective_length` (len() is the per-rank share)
            main.effective_length = case["efflen"]
    used = case.get("used_main")
    if used:
        # the main sampler object has a history: another epoch was announced and partly consumed before it is handed over
        try:
            main.set_epoch(used[0])
            it = iter(main)
            for _ in range(used[1]):
                next(it)
        except Exception:
            pass
        del log[:]
    alias = case.get("alias") or [None] * len(case["cfgs"])
    dss = [mds_obj]
    sides = [None]
    cfgs = []
    for i, (e, u, s, b, ln, dsl) in enumerate(case["cfgs"]):
        a = alias[i]
        if a is not None and a[1] == "s":
            side = sides[a[0]]            # the very same sampler object as an earlier config
            ds = dss[a[0]]
        else:
            ds = dss[a[0]] if a is not None else _DS(i + 1, dsl)     # maybe the same dataset object as an earlier user
            side = _Side(case["side"][i], ln, ds, wrap)
        dss.append(ds)
        sides.append(side)
        cfgs.append(InterleavedSamplerConfig(
            sampler=side, every_n_epochs=e, every_n_updates=u, every_n_samples=s, batch_size=b, collator=_Coll(i + 1)))
    kw = {}
    kw[{"e": "epochs", "u": "updates", "s": "samples"}[case["bk"]]] = case["bv"]
    if case["sk"] != "n":
        kw[{"e": "start_epoch", "u": "start_update", "s": "start_sample"}[case["sk"]]] = case["sv"]
    out = _Built()
    pre = case.get("pre")
    if pre:
        def other():
            """another InterleavedSampler (other geometry) that is given the SAME config objects"""
            if pre.get("share_main"):
                pmain = main
            else:
                pmain = _Main(pre["main"], pre["N"], _DS(0, pre["N"]), [])
            sel = pre.get("sel", "same")
            pc = cfgs if sel == "same" else (list(reversed(cfgs)) if sel == "rev" else cfgs[:1])
            pkw = {{"e": "epochs", "u": "updates", "s": "samples"}[pre["bk"]]: pre["bv"]}
            return InterleavedSampler(main_sampler=pmain, batch_size=pre["B"], configs=pc, drop_last=pre["dl"],
                                      main_collator=_Coll(0), drop_last_batch_size=pre["dlbs"], **pkw)

        mode = pre["mode"]
        if mode in ("ctor", "iter", "lockstep"):
            try:
                p = other()
                if mode == "iter":
                    _consume(iter(p))
                elif mode == "lockstep":
                    out.itp = iter(p)
            except Exception:
                pass
            del log[:]
        else:
            def post():
                try:
                    p = other()
                    if pre.get("post_iter"):
                        _consume(iter(p))
                except Exception:
                    pass
            out.post = post
    out.s = InterleavedSampler(main_sampler=main, batch_size=case["B"], configs=cfgs, drop_last=case["dl"],
                               main_collator=_Coll(0), drop_last_batch_size=case["dlbs"], **kw)
    return out


def _pass(s, log, itp=None):
    """one pass over the sampler into `log`; returns 'ok' | 'assert' | 'nonterm' | 'error:<type>'"""
    try:
        for full, idx in s:
            log.append([1 if full else 0, int(idx)])
            if len(log) > MAX_EVENTS:
                return "nonterm"
            if itp is not None:
                try:
                    next(itp)
                except Exception:
                    itp = None
    except AssertionError:
        return "assert"
    except _OutOfTable:
        return "nonterm"
    except Exception as e:
        return f"error:{type(e).__name__}"
    return "ok"


def _get(dsx, i):
    """(dataset index, tag of the data source, sample) the concat dataset resolves a global index to"""
    try:
        d, it = dsx[i]
        return [int(d), int(it[0]), int(it[1])]
    except Exception as e:
        return [-1, -1, type(e).__name__]


def run_real(case):
    """same answer layout as the Lean driver's il.run"""
    import copy
    import pickle
    log = []
    try:
        built = build_real(case, log)
    except AssertionError:
        return {"ctor": "assert"}
    except NotImplementedError:
        return {"ctor": "notimpl"}
    except Exception as e:
        return {"ctor": f"error:{type(e).__name__}", "_detail": str(e)[:200]}
    s = built.s
    out = {"ctor": "ok", "start": [s.start_epoch, s.start_update, s.start_sample]}
    st = _pass(s, log, built.itp)
    if st != "ok":
        out["iter"] = st
        return out
    out["iter"] = "ok"
    out["evs"] = list(log)
    # the stream is a function of the configuration: iterating the SAME object again (as a second DataLoader pass does)
    # must give the same stream; then the batch sampler of that same object is consumed
    first = list(log)
    del log[:]
    if built.post is not None:
        built.post()      # a later user of the same config objects appears between the two passes
        del log[:]
    if _pass(s, log) != "ok" and len(log) <= MAX_EVENTS:
        log.append("error")
    out["repeat_ok"] = (log == first)
    out["_evs_again"] = list(log)
    del log[:]
    if case.get("copy_leg"):
        # a deep copy of the used sampler has the same configuration, hence the same stream (the copy keeps reporting to `log`)
        try:
            s3 = copy.deepcopy(s, {id(log): log})
        except Exception:
            s3 = None
        if s3 is not None:
            del log[:]
            if _pass(s3, log) != "ok" and len(log) <= MAX_EVENTS:
                log.append("error")
            out["_evs_copy"] = list(log)
            del log[:]
    s2 = s
    batches = []
    rest = []
    try:
        for b in s2.batch_sampler:
            batches.append([int(i) for i in b])
            if len(batches) > MAX_EVENTS:
                break
    except AssertionError:
        rest = ["assert"]
    except _OutOfTable:
        rest = ["nonterm"]
    out["batches"] = batches
    out["rest"] = rest
    dsx, colx = s2.dataset, s2.collator
    if case.get("pk_leg"):
        # what a worker process of the DataLoader receives: pickled copies of the dataset and the collator
        try:
            dsx, colx = pickle.loads(pickle.dumps((dsx, colx)))
        except Exception:
            dsx, colx = s2.dataset, s2.collator
    resolved = []
    tags = []
    colls = []
    for b in batches:
        got = [_get(dsx, i) for i in b]
        resolved.append([[d, smp] for d, _, smp in got])
        tags.append([t for _, t, _ in got])
        try:
            tag, data = colx([dsx[i] for i in b])
            colls.append(tag)
        except AssertionError:
            colls.append(-1)
        except Exception:
            colls.append(-2)
    out["resolved"] = resolved
    out["colls"] = colls      # which dataset's collator collated each batch (-1: the collator's assertion failed)
    # negative indices into the concat dataset: -1 .. -(total+2)
    total = len(dsx)
    negs = []
    for k in range(total + 2):
        try:
            d, it = dsx[-(k + 1)]
            negs.append([d, it[1]])
        except ValueError:
            negs.append("ValueError")
        except Exception as e:
            negs.append(type(e).__name__)
    out["neg"] = negs
    # DataLoader level (a sample of the cases): the loader built by get_data_loader yields exactly these batches, each collated
    # by the collator of the dataset it was drawn from (judged by the oracle)
    if case.get("dl_leg"):
        try:
            nw = 2 if case["dl_leg"] == 2 else 0
            out["_dl_got"] = [[tag, [[int(x[0]), int(x[1])] for x in data]] for tag, data in s2.get_data_loader(num_workers=nw)]
        except Exception as e:
            out["_dl_got"] = f"{type(e).__name__}: {e}"
    out["_colls"] = colls
    out["_tags"] = tags
    return out


# ----------------------------------------------------------------------------------------------
# property oracles (independent of the Lean model; written from the property statements)
# ----------------------------------------------------------------------------------------------
def geometry(case):
    N, B = case["N"], case["B"]
    if case["dl"]:
        d = case["dlbs"] or B
        spe = N // d * d
    else:
        spe = N
    upe = -(-spe // B)
    return spe, upe


def expected_stream(case, e0):
    """the stream the properties C04+C05 promise for a run that starts at epoch boundary e0 (uninterrupted counters)"""
    spe, upe = geometry(case)
    B = case["B"]
    offs = [case["mds"]]
    for c in case["cfgs"]:
        offs.append(offs[-1] + c[5])
    evs = []
    if case["bv"] == 0:
        for i, (e, u, s, b, ln, dsl) in enumerate(case["cfgs"]):
            bs = b or B
            xs = case["side"][i]
            for k, x in enumerate(xs):
                evs.append([1 if ((k + 1) % bs == 0 or k + 1 == len(xs)) else 0, offs[i] + x])
        return evs
    epoch, update, sample = e0, e0 * upe, e0 * spe
    while True:
        evs.append([2, epoch])
        xs = case["main"][epoch][:spe]
        chunks = [xs[i:i + B] for i in range(0, len(xs), B)]
        for ci, ch in enumerate(chunks):
            for k, x in enumerate(ch):
                evs.append([1 if k == len(ch) - 1 else 0, x])
            prev = sample
            update += 1
            sample += len(ch)
            epoch_end = ci == len(chunks) - 1
            if epoch_end:
                epoch += 1
            for i, (e, u, s, b, ln, dsl) in enumerate(case["cfgs"]):
                due = False
                if e is not None and epoch_end and epoch % e == 0:
                    due = True
                if u is not None and update % u == 0:
                    due = True
                if s is not None and prev // s < sample // s:   # a multiple of s lies in (prev, sample]
                    due = True
                if due:
                    bs = b or B
                    ys = case["side"][i]
                    for k, y in enumerate(ys):
                        evs.append([1 if ((k + 1) % bs == 0 or k + 1 == len(ys)) else 0, offs[i] + y])
            if ((case["bk"] == "e" and epoch >= case["bv"]) or (case["bk"] == "u" and update >= case["bv"])
                    or (case["bk"] == "s" and sample >= case["bv"])):
                return evs
            if len(evs) > MAX_EVENTS:
                return evs


def cut_batches(evs):
    out, cur = [], []
    for f, i in evs:
        if f == 2:
            continue
        cur.append(i)
        if f == 1:
            out.append(cur)
            cur = []
    return out, cur


def in_domain(case):
    """the domain the properties quantify over (everything else is compared but never judged)"""
    N, B = case["N"], case["B"]
    if not (1 <= B <= N):
        return False
    if case["dlbs"] is not None and not (case["dl"] and case["dlbs"] % B == 0 and B <= case["dlbs"] <= N):
        return False
    return True


def start_epoch_of(case):
    """checkpoint as an epoch number if it lies on an epoch boundary, else None"""
    spe, upe = geometry(case)
    k, v = case["sk"], case.get("sv", 0)
    if k == "n":
        return 0
    if k == "e":
        return v
    if k == "u":
        return v // upe if v % upe == 0 else None
    if k == "s":
        return v // spe if v % spe == 0 else None


def strictly_before_budget(case, e0):
    spe, upe = geometry(case)
    if case["bk"] == "e":
        return e0 < case["bv"]
    if case["bk"] == "u":
        return e0 * upe < case["bv"]
    return e0 * spe < case["bv"]


def legs_of(case):
    """the histories / compositions a case carries (for messages, histogram and signature)"""
    legs = []
    if case.get("msamp"):
        legs.append(f"main={case['msamp']['kind']}:rank{case['msamp']['r']}of{case['msamp']['w']}")
    if case.get("efflen") is not None:
        legs.append("main-has-effective_length")
    if case.get("used_main"):
        legs.append("used-main")
    if any(a is not None for a in case.get("alias") or []):
        legs.append("shared-" + "".join(sorted({("dataset" if a[1] == "d" else "sampler") for a in case["alias"] if a is not None})))
    if case.get("pre"):
        legs.append(f"configs-shared-with-{case['pre']['mode']}-sampler" + ("+main" if case["pre"].get("share_main") else ""))
    if case.get("idx_type") == "np":
        legs.append("np-int64-indices")
    return legs


def slots_of(case):
    """per user (0 = main sampler, i = config i-1): first global index of its own range, and the tag of the data source object
    it draws from (a dataset object shared with an earlier user carries that user's tag)"""
    offs = [0, case["mds"]]
    for c in case["cfgs"]:
        offs.append(offs[-1] + c[5])
    alias = case.get("alias") or [None] * len(case["cfgs"])
    root = [0]
    for i, a in enumerate(alias):
        root.append(root[a[0]] if a is not None else i + 1)
    return offs, root


def slot_of(offs, i):
    for d in range(len(offs) - 1):
        if offs[d] <= i < offs[d + 1]:
            return d
    return None


def oracle(case, real, which):
    """returns a Failure or None. `which` in C04, C05, C06"""
    if not in_domain(case):
        return None
    tag = (f"N={case['N']} B={case['B']} dl={case['dl']} dlbs={case['dlbs']} {case['bk']}={case['bv']} "
           f"start={case['sk']}{case.get('sv','')}" + "".join(f" [{l}]" for l in legs_of(case)))
    if str(real.get("ctor")).startswith("error") and which in ("C04", "C05"):
        return Failure("interleaved:constructor-crash", f"the constructor fails with {real.get('ctor')} ({real.get('_detail')}) for {tag}", case,
                       "accepted, AssertionError or NotImplementedError", real.get("ctor"))
    if real.get("ctor") != "ok":
        return None  # rejection is an acceptable answer
    e0 = start_epoch_of(case)
    zero = case["bv"] == 0
    if e0 is None:
        return None
    if not zero and not strictly_before_budget(case, e0):
        return None
    if zero and case["sk"] != "n":
        return None
    if real.get("iter") != "ok":
        if which == "C04":
            return Failure("interleaved:does-not-end", f"iteration does not end normally ({real.get('iter')}) for {tag}", case,
                           "a finite stream", real.get("iter"))
        return None
    exp = expected_stream(case, e0)
    mds = case["mds"]
    again = real.get("_evs_again")
    copied = real.get("_evs_copy")
    if which == "C04" and real.get("repeat_ok") is False and again is not None and "error" not in again:
        # the second pass over the SAME object: judged against the same expected stream, main-sampler part only
        got2 = [e for e in again if e[0] == 2 or e[1] < mds]
        exp_main = [e for e in exp if e[0] == 2 or e[1] < mds]
        if got2 != exp_main:
            return Failure("interleaved:reiteration", f"iterating the same sampler object a second time gives a different main stream for {tag}", case,
                           exp_main, got2)
    if which == "C04" and again is not None and "error" in again:
        return Failure("interleaved:reiteration", f"iterating the same sampler object a second time fails for {tag}", case,
                       "same stream on every pass", "second pass raises")
    if which == "C04":
        got_main = [e for e in real["evs"] if e[0] == 2 or e[1] < mds]
        exp_main = [e for e in exp if e[0] == 2 or e[1] < mds]
        if got_main != exp_main:
            return Failure("interleaved:main-stream", f"main stream / set_epoch / flags / stopping point differ for {tag}", case,
                           exp_main, got_main)
        if real["rest"]:
            return Failure("interleaved:boundary", f"stream does not end on a batch boundary for {tag}", case, [], real["rest"])
        eb, _ = cut_batches(exp_main)
        gb = [b for b in real["batches"] if b and b[0] < mds]
        if gb != eb:
            return Failure("interleaved:batches", f"main batches differ for {tag}", case, eb, gb)
        if copied is not None:
            got3 = [e for e in copied if e == "error" or e[0] == 2 or e[1] < mds]
            if got3 != exp_main:
                return Failure("interleaved:copy", f"a deep copy of the used sampler object gives a different main stream for {tag}", case,
                               exp_main, got3)
        return None
    if which == "C05":
        offs, root = slots_of(case)
        if real["evs"] != exp:
            # only report when the side part differs (main part is C04's business)
            got_side = _side_view(real["evs"], mds)
            exp_side = _side_view(exp, mds)
            if got_side != exp_side:
                return Failure("interleaved:side-passes", f"side passes differ from the due-schedule for {tag} cfgs={case['cfgs']}", case,
                               exp_side, got_side)
        if again is not None and "error" not in again and again != exp:
            got_side = _side_view(again, mds)
            exp_side = _side_view(exp, mds)
            if got_side != exp_side:
                return Failure("interleaved:side-passes-reiteration", f"second pass over the same sampler object: side passes differ from the "
                               f"due-schedule for {tag} cfgs={case['cfgs']}", case, exp_side, got_side)
        if copied is not None and copied != exp:
            got_side = _side_view([e for e in copied if e != "error"], mds) + (["error"] if "error" in copied else [])
            exp_side = _side_view(exp, mds)
            if got_side != exp_side:
                return Failure("interleaved:side-passes-copy", f"a deep copy of the used sampler object: side passes differ from the "
                               f"due-schedule for {tag} cfgs={case['cfgs']}", case, exp_side, got_side)
        # no batch mixes users; every index resolves to the dataset and sample it was drawn for and is collated by that user's collator
        for b, res, tags, coll in zip(real["batches"], real["resolved"], real["_tags"], real["_colls"]):
            owners = [slot_of(offs, i) for i in b]
            if len(set(owners)) != 1:
                return Failure("interleaved:mixed-batch", f"a batch mixes datasets for {tag}", case, None, [b, owners])
            d0 = owners[0]
            if d0 is None:
                return Failure("interleaved:resolve", f"batch {b} lies outside every index range for {tag}", case, None, b)
            for i, (d, smp), t in zip(b, res, tags):
                if not (d == d0 and smp == i - offs[d0] and t == root[d0]):
                    return Failure("interleaved:resolve", f"index {i} (range of user {d0}, data source {root[d0]}, sample {i - offs[d0]}) resolved to "
                                   f"dataset {d}, data source {t}, sample {smp} for {tag}", case, [d0, root[d0], i - offs[d0]], [d, t, smp])
            if coll != d0:
                return Failure("interleaved:collator", f"batch of user {d0} collated by collator {coll} for {tag}", case, d0, coll)
        got = real.get("_dl_got")
        if got is not None:
            want = []
            for b in real["batches"]:
                d0 = slot_of(offs, b[0])
                want.append([d0, [[root[d0], i - offs[d0]] for i in b]] if d0 is not None else [None, b])
            if got != want:
                return Failure("interleaved:dataloader", f"the DataLoader built by get_data_loader (num_workers={2 if case.get('dl_leg') == 2 else 0}) "
                               f"does not yield the batch sampler's batches collated by their own collator for {tag}", case, want, got)
        return None
    if which == "C06":
        if case["sk"] == "n":
            return None
        un = dict(case, sk="n", sv=0)
        for k in ("dl_leg", "copy_leg", "pk_leg"):
            un.pop(k, None)
        r0 = run_real(un)
        if r0.get("iter") != "ok":
            return None
        evs0 = r0["evs"]
        try:
            pos = evs0.index([2, e0])
        except ValueError:
            return None
        suffix = evs0[pos:]
        if real["evs"] != suffix:
            return Failure("interleaved:resume", f"resumed stream is not the suffix of the uninterrupted run for {tag} cfgs={case['cfgs']}",
                           case, suffix, real["evs"])
        if again is not None and "error" not in again and again != suffix:
            return Failure("interleaved:resume-reiteration", f"second pass over the same resumed sampler object is not the suffix of the "
                           f"uninterrupted run for {tag} cfgs={case['cfgs']}", case, suffix, again)
        if copied is not None and copied != suffix:
            return Failure("interleaved:resume-copy", f"a deep copy of the used resumed sampler object does not give the suffix of the "
                           f"uninterrupted run for {tag} cfgs={case['cfgs']}", case, suffix, copied)
        return None


def _side_view(evs, mds):
    """stream with main indices abstracted to update markers: side passes and the updates they follow"""
    out = []
    for f, i in evs:
        if f == 2:
            continue
        if i < mds:
            if f == 1:
                out.append("U")
        else:
            out.append([f, i])
    return out


# ----------------------------------------------------------------------------------------------
# case generation
# ----------------------------------------------------------------------------------------------
CFG_KINDS = [ks for r in (1, 2, 3) for ks in itertools.combinations("eus", r)]


def gen_msamp(rng, big):
    """a main sampler shipped by the package (or torch's DistributedSampler), used as rank r of world_size w like in multi-GPU
    training; returns (spec, N, mds, table) or None when the drawn sampler is outside the quantifier (empty / does not yield
    len(sampler) indices) or cannot be built"""
    for _ in range(4):
        kind = rng.choice(["kd_dist", "kd_dist", "torch_dist", "kd_weighted", "kd_weighted", "kd_cb", "kd_semi", "kd_seq"])
        w = rng.choice([1, 2, 2, 3])
        if kind == "kd_seq":
            w = 1
        r = rng.randrange(w)
        n = rng.randint(max(w, 2), 24 if big else 11)
        ms = {"kind": kind, "w": w, "r": r, "seed": rng.randint(0, 5)}
        if kind in ("kd_dist", "torch_dist"):
            ms.update(n=n, shuffle=rng.random() < 0.7, sdl=rng.random() < 0.4)
            if kind == "kd_dist":
                ms["rep"] = 2 if (ms["shuffle"] and rng.random() < 0.25) else 1
        elif kind == "kd_weighted":
            ms.update(n=n, weights=[rng.randint(1, 8) / 4 for _ in range(n)], size=rng.choice([None, None, rng.randint(w, n)]))
        elif kind == "kd_cb":
            ncls = rng.randint(2, 3)
            classes = list(range(ncls)) + [rng.randrange(ncls) for _ in range(max(n - ncls, 0))]
            rng.shuffle(classes)
            ms.update(classes=classes, shuffle=rng.random() < 0.7, spc=rng.choice([None, None, rng.randint(1, 4)]))
        elif kind == "kd_semi":
            classes = [-1, 0] + [rng.choice([-1, -1, 0, 1]) for _ in range(max(n - 2, 0))]
            rng.shuffle(classes)
            ms.update(classes=classes, nl=rng.randint(1, 2), nu=rng.randint(1, 2), mode=rng.choice(["labeled", "unlabeled", "all"]))
        else:
            ms.update(n=n)
        try:
            N, mds, table = materialise_msamp(ms)
        except Exception:
            continue
        if N < 1 or any(len(row) != N for row in table) or any(not 0 <= i < mds for row in table for i in row):
            continue
        return ms, N, mds, table
    return None


def gen_pre(rng, case):
    """another InterleavedSampler with its own geometry / budget that is handed the same config objects"""
    N = rng.randint(1, 9)
    B = rng.randint(1, N)
    dl = rng.random() < 0.6
    dlbs = rng.choice([k * B for k in range(1, N // B + 1)]) if (dl and rng.random() < 0.2) else None
    bk = rng.choice("eus")
    bv = {"e": rng.randint(0, 2), "u": rng.randint(0, 5), "s": rng.randint(0, 12)}[bk]
    pre = {"N": N, "B": B, "dl": dl, "dlbs": dlbs, "bk": bk, "bv": bv, "mode": rng.choice(["ctor", "ctor", "iter", "lockstep", "post"]),
           "sel": rng.choice(["same", "same", "same", "rev", "first"]), "main": [rng.sample(range(N), N) for _ in range(6)]}
    if pre["mode"] == "post":
        pre["post_iter"] = rng.random() < 0.5
    if pre["mode"] != "lockstep" and rng.random() < 0.2 and B <= case["N"]:
        # both samplers are built over the same main sampler object
        pre["share_main"] = True
        pre["dlbs"] = None
    return pre


def gen_case(rng, big=False, force_start=None):
    real_main = gen_msamp(rng, big) if rng.random() < 0.2 else None
    if real_main:
        msamp, N, mds0, table = real_main
    else:
        N = rng.randint(1, 24 if big else 9)
    B = rng.randint(1, N)
    if rng.random() < 0.05:
        B = rng.choice([0, N + 1])
    dl = rng.random() < 0.6
    dlbs = None
    if rng.random() < 0.3:
        ks = [k * B for k in range(1, N // B + 1)] if B else [0]
        dlbs = rng.choice(ks) if ks else None
        if rng.random() < 0.1:
            dlbs = rng.choice([B + 1, N + B, 0])
        if dlbs is not None and rng.random() < 0.9:
            dl = True
    mds = mds0 if real_main else N + rng.choice([0, 0, 1, 3])
    case = {"op": "il.run", "N": N, "mds": mds, "B": B, "dl": dl, "dlbs": dlbs}
    spe, upe = (1, 1)
    if 1 <= B <= N and (dlbs is None or (dl and dlbs >= B and dlbs % B == 0 and dlbs <= N)):
        spe, upe = geometry(case)
    bk = rng.choice("eus")
    if bk == "e":
        bv = rng.randint(0, 4)
    elif bk == "u":
        bv = rng.randint(0, 3 * upe + 1)
    else:
        bv = rng.randint(0, 3 * spe + 2)
    case["bk"], case["bv"] = bk, bv
    ncfg = rng.choice([0, 1, 1, 2, 2, 3])
    cfgs, side, alias = [], [], []
    for ci in range(ncfg):
        kinds = rng.choice(CFG_KINDS)
        ivs = [1, 2, 3, 5, 7] + ([B, spe, spe + 1] if B else [])
        e = rng.choice([1, 2, 3]) if "e" in kinds else None
        u = rng.choice(ivs) if "u" in kinds else None
        s = rng.choice(ivs + [2 * B + 1]) if "s" in kinds else None
        if rng.random() < 0.02:
            e, u, s = rng.choice([(None, None, None), (0, None, None), (None, 0, None)])
        b = rng.choice([None, None, 1, 2, 4])
        a = None
        if rng.random() < 0.25:
            # composition: this config draws from the same dataset object (or is even given the same sampler object) as an earlier
            # user of this InterleavedSampler -- e.g. evaluating on the train set while training, one test set with two collators
            j = rng.randrange(ci + 1)
            a = [j, "s" if (j > 0 and rng.random() < 0.3) else "d"]
        if a is not None and a[1] == "s":
            ln, dsl = cfgs[a[0] - 1][4], cfgs[a[0] - 1][5]
            idxs = list(side[a[0] - 1])
        elif a is not None:
            dsl = mds if a[0] == 0 else cfgs[a[0] - 1][5]
            ln = rng.choice([k for k in (1, 2, 3, 5) if k <= dsl])
            idxs = rng.sample(range(dsl), ln)
        else:
            ln = rng.choice([1, 2, 3, 5])
            dsl = ln + rng.choice([0, 0, 2])
            idxs = rng.sample(range(dsl), ln)
        cfgs.append([e, u, s, b, ln, dsl])
        side.append(idxs)
        alias.append(a)
    case["cfgs"], case["side"] = cfgs, side
    if any(a is not None for a in alias):
        case["alias"] = alias
    # start checkpoint
    r = rng.random() if force_start is None else force_start
    if r < 0.45 or bv == 0:
        case["sk"], case["sv"] = "n", 0
        if bv == 0 and rng.random() < 0.1:
            case["sk"], case["sv"] = "e", 1
    else:
        k = rng.choice("eeus")
        maxe = {"e": max(bv - 1, 0), "u": max((bv - 1) // upe, 0), "s": max((bv - 1) // spe, 0)}[bk]
        e0 = rng.randint(0, maxe)
        if rng.random() < 0.08:
            e0 = maxe + rng.randint(1, 2)   # at / after the budget: out of the claim, still compared
        if k == "e":
            case["sk"], case["sv"] = "e", e0
        elif k == "u":
            case["sk"], case["sv"] = "u", e0 * upe + (rng.randint(1, max(upe - 1, 1)) if rng.random() < 0.15 else 0)
        else:
            case["sk"], case["sv"] = "s", e0 * spe + (rng.choice([1, B, B + 1]) if rng.random() < 0.15 else 0)
    if rng.random() < 0.15:
        case["dl_leg"] = True
    elif rng.random() < 0.012:
        case["dl_leg"] = 2          # the same through two worker processes
    case["fuel"] = FUEL
    if real_main:
        case["msamp"] = msamp
        case["main"] = table
        case["eager"] = False
    else:
        case["main"] = [rng.sample(range(mds), N) for _ in range(N_EPOCHS)]
        case["eager"] = rng.random() < 0.5
        if rng.random() < 0.25:
            w = rng.choice([2, 3])
            case["efflen"] = N * w + rng.randrange(w)
        if rng.random() < 0.1:
            case["idx_type"] = "np"
    # histories
    if rng.random() < 0.15:
        case["used_main"] = [rng.randint(0, 5), rng.randint(0, N)]
    if rng.random() < 0.3:
        case["pre"] = gen_pre(rng, case)
    if rng.random() < 0.2:
        case["copy_leg"] = True
    if rng.random() < 0.3:
        case["pk_leg"] = True
    return case


def exhaustive_cases():
    """small-geometry exhaustive sweep: every (N<=5, B, drop mode, dlbs, budget kind/value, one config kind-combo)"""
    for N in range(1, 6):
        for B in range(1, N + 1):
            for dl in (True, False):
                dlbss = [None] + ([k * B for k in range(1, N // B + 1)] if dl else [])
                for dlbs in dlbss:
                    base = {"op": "il.run", "N": N, "mds": N, "B": B, "dl": dl, "dlbs": dlbs}
                    spe, upe = geometry(base)
                    for bk, bvs in (("e", range(0, 3)), ("u", range(0, 2 * upe + 2)), ("s", range(0, 2 * spe + 2))):
                        for bv in bvs:
                            for kinds in CFG_KINDS:
                                for iv in (1, 2, 3):
                                    cfg = [iv if "e" in kinds else None, iv if "u" in kinds else None,
                                           (iv + 1) if "s" in kinds else None, None, 2, 2]
                                    c = dict(base, bk=bk, bv=bv, cfgs=[cfg], side=[[1, 0]], sk="n", sv=0,
                                             main=[list(range(N))[::(1 if e % 2 == 0 else -1)] for e in range(12)], fuel=FUEL,
                                             eager=(N + B + bv + iv) % 2 == 0)
                                    yield c


def signature(case, real):
    """what makes a case distinct/non-trivial: geometry class x config kinds x start kind x outcome"""
    kinds = tuple("".join(k for k, v in zip("eus", c[:3]) if v is not None) for c in case["cfgs"])
    N, B = case["N"], case["B"]
    legs = tuple(l.split(":")[0] for l in legs_of(case))
    return (case["dl"], case["dlbs"] is not None, (N % B == 0) if B else None, case["bk"], min(case["bv"], 3), kinds,
            case["sk"], real.get("ctor"), real.get("iter"), min(len(real.get("evs", [])), 40), legs)


def strip_private(d):
    return {k: v for k, v in d.items() if not k.startswith("_")}


class InterleavedCheck(PropertyCheck):
    which = "C04"
    props_modules = []
    extra_build = ["KDVerif.Driver.Interleaved"]
    driver_main = "mains/Interleaved.lean"
    anchored = ["kappadata/samplers/interleaved_sampler.py"]
    assumptions = [
        "main sampler iteration yields len(sampler) indices and is a function of the epoch passed to set_epoch (oracle `main`)",
        "interleaved samplers yield len(sampler) indices per pass (oracle `side`)",
        "torch DataLoader consumes the batch sampler strictly in order",
    ]
    trusted_extra = [
        "modelled by hand: InterleavedSampler.__init__ (asserts, checkpoint inference), __iter__, _training_loop, _eval_loop, "
        "_InterleavedBatchSampler.__iter__, _InterleavedConcatDataset.__getitem__ (bisect), _InterleavedCollator dispatch",
        "not modelled: DataLoader/worker processes, pickling of helper classes, samplers themselves (oracles; for main samplers of the package "
        "the oracle table is the iteration of a fresh reference instance of the same sampler)",
        "histories (config / sampler / dataset objects shared between InterleavedSampler instances, copies) are invisible to the model: the "
        "model answer is a function of the configuration only, the real objects carry the history",
    ]

    def view(self, case, ans):
        """the part of an answer this property's theorems speak about"""
        return ans

    def cases(self):
        n_rand = 1500 if self.tier == "quick" else 30000
        corpus = []
        cdir = (__import__("pathlib").Path(__file__).resolve().parents[2] / "corpus" / "interleaved")
        if cdir.exists():
            for p in sorted(cdir.glob("*.json")):
                corpus.append(json.loads(p.read_text()))
        out = list(corpus)
        ex = list(exhaustive_cases())
        if self.tier == "quick":
            self.rng.shuffle(ex)
            ex = ex[:1500]
        out += ex
        for i in range(n_rand):
            out.append(gen_case(self.rng, big=(i % 5 == 0)))
        return out, len(corpus), len(ex)

    def correspond(self):
        res = CorrResult()
        cases, ncorp, nex = self.cases()
        res.rule = (f"{ncorp} corpus + {nex} cases of the exhaustive small-geometry sweep (N<=5, all B, drop modes, dlbs, budgets, config kind combos"
                    f"{'; sampled' if self.tier == 'quick' else '; complete'}) + seeded random geometries N<=24 with 0-3 configs and start checkpoints, "
                    "a share of them with histories / compositions (main sampler = a sampler of the package or torch as rank r of w, main sampler "
                    "exposing effective_length != len, used main sampler object, dataset / sampler objects shared between users of one "
                    "InterleavedSampler, config objects (and main sampler) shared with a second InterleavedSampler of another geometry built before / "
                    "iterated before / alive at the same time / built later, deep copy of the used sampler, pickled dataset + collator, numpy int64 "
                    "indices, DataLoader with 0 and 2 workers); "
                    "distinct = (drop mode, dlbs?, N%B==0, budget kind/value class, config kind tuple, start kind, outcome, stream length)")
        res.exhaustive = self.tier == "thorough"
        answers = self.driver.run(cases)
        for case, model in zip(cases, answers):
            real = run_real(case)
            res.cases += 1
            res.nontrivial.add(signature(case, real))
            res.bump(f"ctor={real.get('ctor')}")
            res.bump(f"iter={real.get('iter')}")
            res.bump(f"start={case['sk']}")
            res.bump(f"budget={case['bk']}")
            res.bump(f"ncfg={len(case['cfgs'])}")
            for leg in legs_of(case):
                res.bump("leg=" + leg.split(":")[0])
            for k in ("copy_leg", "pk_leg", "dl_leg"):
                if case.get(k):
                    res.bump(f"leg={k}{case[k] if case[k] is not True else ''}")
            if self.view(case, strip_private(real)) != self.view(case, model):
                if len(res.disagreements) < 50:
                    res.disagreements.append(Disagreement(case, self.view(case, model), self.view(case, strip_private(real))))
            f = oracle(case, real, self.which)
            if f is not None and len(res.failures) < 50:
                if not any(g.key == f.key for g in res.failures) or len(res.failures) < 5:
                    res.failures.append(f)
            if len(res.samples) < 3 and real.get("iter") == "ok" and case["cfgs"]:
                res.samples.append({"case": {k: case[k] for k in ("N", "B", "dl", "dlbs", "bk", "bv", "cfgs", "sk", "sv")},
                                    "events": real["evs"][:30]})
        res.failures.sort(key=lambda f: len(json.dumps(f.input)))
        return res

    def replay_input(self, inp):
        return oracle(inp, run_real(inp), self.which)

    def search(self, budget_s, hints):
        import time
        t0 = time.time()
        out = []
        for h in hints:
            f = oracle(h, run_real(h), self.which)
            if f:
                out.append(f)
        rng = random.Random(self.seed + 77)
        while not out and time.time() - t0 < budget_s:
            c = gen_case(rng, big=rng.random() < 0.3)
            f = oracle(c, run_real(c), self.which)
            if f:
                out.append(f)
        return out


class C04(InterleavedCheck):
    pid = "C04"
    claimed = True
    which = "C04"
    design_ref = "DESIGN.md 3 (C04/C05/C06)"
    level_text = ("Lean theorems (KDVerif.Props.C04): for all accepted geometries, budgets, config sets, oracles and checkpoints before the budget the "
                  "code-mirroring per-sample loop terminates and equals the per-update stream (batches of B, short last batch, drop_last remainder, "
                  "budget test after every update). Model tied to the code by differential correspondence each run.")
    level_note = ("trusted: Lean kernel + standard axioms; the correspondence harness; samplers are oracles yielding len(sampler) indices; "
                  "exact stopping point proved for all three budget kinds (updates_budget_exact, epochs_budget_exact, samples_budget_exact) and batch sizes stream-wide (only_an_epochs_last_batch_is_short)")
    props_modules = ["KDVerif.Props.C04"]

    def view(self, case, ans):
        # C04 speaks about the main-sampler part of the stream only
        if "evs" not in ans:
            return ans
        mds = case["mds"]
        rep = ans.get("repeat_ok")
        if ans.get("_evs_again") is not None and "error" not in ans["_evs_again"]:
            # second pass over the same object: C04 looks at its main-sampler part only (the side part is C05's business)
            rep = [e for e in ans["_evs_again"] if e[0] == 2 or e[1] < mds] == [e for e in ans["evs"] if e[0] == 2 or e[1] < mds]
        return {"ctor": ans["ctor"], "start": ans["start"], "iter": ans["iter"], "rest": ans["rest"], "repeat_ok": rep, "neg0": (ans.get("neg") or [None])[0],
                "main_evs": [e for e in ans["evs"] if e[0] == 2 or e[1] < mds],
                "main_batches": [b for b in ans["batches"] if b and b[0] < mds],
                "n_batches_cut_ok": all(all((i < mds) == (b[0] < mds) for i in b) for b in ans["batches"])}


class C05(InterleavedCheck):
    pid = "C05"
    claimed = True
    which = "C05"
    design_ref = "DESIGN.md 3 (C04/C05/C06)"
    level_text = ("Lean theorems (KDVerif.Props.C05): due-decision = disjunction of reached/crossed intervals (all kind combinations), passes are whole, "
                  "in order, shifted into the config's range and end on a batch boundary, shifted indices resolve to (dataset, sample), zero budget = one pass "
                  "per config; stream structure inherited from the refinement theorem of C04. Correspondence each run incl. collator dispatch on the real objects.")
    level_note = ("trusted: Lean kernel + standard axioms; correspondence harness; 'no batch mixes datasets' is proved per pass (ends on a boundary) and checked "
                  "on every real batch by the oracle, the whole-stream composition lemma is partial")
    props_modules = ["KDVerif.Props.C05"]


class C06(InterleavedCheck):
    pid = "C06"
    claimed = True
    which = "C06"
    design_ref = "DESIGN.md 3 (C04/C05/C06)"
    level_text = ("Lean theorem resume_is_suffix (KDVerif.Props.C06): for every accepted epoch-boundary checkpoint strictly before the budget the resumed stream "
                  "is a suffix of the uninterrupted one (all geometries/budgets/configs/oracles); start_update/start_sample reduce to start_epoch. "
                  "Correspondence + direct suffix oracle on the real sampler each run.")
    level_note = ("trusted: Lean kernel + standard axioms; correspondence harness; side samplers are functions of (config, update number) in the model "
                  "(stateless samplers in the correspondence)")
    props_modules = ["KDVerif.Props.C06"]

    def cases(self):
        cases, a, b = super().cases()
        # resume-heavy: make sure most random cases carry a checkpoint
        extra = [gen_case(self.rng, big=(i % 4 == 0), force_start=0.9) for i in range(1000 if self.tier == "quick" else 20000)]
        return cases + extra, a, b
