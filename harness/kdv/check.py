import importlib
import pkgutil
import sys

from .common import PropertyCheck, main_for


def registry():
    """every PropertyCheck subclass with a real pid found in harness/kdv/*.py (auto-discovery)"""
    import kdv
    reg = {}
    for m in pkgutil.iter_modules(kdv.__path__):
        if m.name in ("check", "common", "manifest", "replay", "gen_all"):
            continue
        try:
            mod = importlib.import_module(f"kdv.{m.name}")
        except Exception as e:  # a broken module must not take the other checks down
            print(f"[registry] cannot import kdv.{m.name}: {type(e).__name__}: {e}", file=sys.stderr)
            continue
        for v in vars(mod).values():
            if isinstance(v, type) and issubclass(v, PropertyCheck) and v is not PropertyCheck:
                if v.pid != "C00" and v.__module__ == mod.__name__:
                    reg[v.pid] = v
    return reg


if __name__ == "__main__":
    sys.exit(main_for(registry()))
