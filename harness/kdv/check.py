import sys
from .common import main_for


def registry():
    from . import interleaved
    reg = {"C04": interleaved.C04, "C05": interleaved.C05, "C06": interleaved.C06}
    return reg


if __name__ == "__main__":
    sys.exit(main_for(registry()))
