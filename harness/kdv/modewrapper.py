"""C01 — ModeWrapper: synthetic stacks of real KDDataset/KDWrapper classes, correspondence with the Lean model,
independent oracle of the property statement."""
import itertools
import json
import random

from .common import CorrResult, Disagreement, Failure, PropertyCheck

ALPHABET = ["index", "x", "class", "y", "ctx.a", "ctx.b"]
LOADABLE = ["x", "class", "y"]
FUSED_CHOICES = [[], [["x", "class"]], [["x", "class", "y"]], [["class", "x"]], [["x", "class"], ["y"]], [["y", "x"]]]


class Counter:
    def __init__(self):
        self.n = 0

    def next(self):
        n = self.n
        self.n += 1
        return n


def build_stack(spec, counter):
    """spec: {base: [names], records: {loader: key}, layers: [{fused: [[..]], impl: [names incl. fused names]}], len: n, rpc: bool}"""
    from kappadata.datasets.kd_dataset import KDDataset
    from kappadata.datasets.kd_wrapper import KDWrapper
    records = spec["records"]

    def make_loader(name, parts=None):
        def loader(self, idx, ctx=None):
            c = counter.next()
            if parts is None:
                v = ("t", name, idx, c)
                out = v
            else:
                out = tuple(("t", p, idx, c) for p in parts)
                v = ("t", name, idx, c)
            if ctx is not None and name in records:
                ctx[records[name]] = v
            return out
        return loader

    ns = {"__len__": lambda self: spec["len"]}
    for n in spec["base"]:
        ns[f"getitem_{n}"] = make_loader(n)
    if spec.get("rpc"):
        ns["requires_propagate_ctx"] = property(lambda self: True)
    Base = type("SynthBase", (KDDataset,), ns)
    ds = Base()
    for li, layer in enumerate(spec["layers"]):
        lns = {}
        fused = [list(f) for f in layer["fused"]]
        if fused:
            lns["fused_operations"] = property(lambda self, fused=fused: super(type(self), self).fused_operations + fused)
        for n in layer["impl"]:
            parts = next((f for f in fused_all(spec, li) if "".join(f) == n), None)
            lns[f"getitem_{n}"] = make_loader(n, parts)
        W = type(f"SynthWrapper{li}", (KDWrapper,), lns)
        ds = W(dataset=ds)
    return ds


def fused_all(spec, upto):
    out = []
    for layer in spec["layers"][:upto + 1]:
        out += [list(f) for f in layer["fused"]]
    return out


def model_stack(spec):
    fused = fused_all(spec, len(spec["layers"]) - 1) if spec["layers"] else []
    reach = set(spec["base"])
    for layer in spec["layers"]:
        reach |= set(layer["impl"])
    on_type = set(spec["layers"][-1]["impl"]) if spec["layers"] else set(spec["base"])
    return {"fused": fused, "onType": sorted(on_type), "reachable": sorted(reach),
            "records": [[k, v] for k, v in sorted(spec["records"].items())], "len": spec["len"], "rpc": bool(spec.get("rpc"))}


def canon_val(v):
    if isinstance(v, tuple) and v and v[0] == "t" and len(v) == 4 and isinstance(v[1], str):
        return ["t", v[1], int(v[2]), int(v[3])]
    if isinstance(v, tuple):
        return ["T"] + [canon_val(e) for e in v]
    if isinstance(v, int):
        return ["i", int(v)]
    if v is None:
        return None
    return repr(v)


def canon_out(o, n_items, return_ctx):
    if isinstance(o, list):
        return [canon_out(e, n_items, return_ctx) for e in o]
    ctx = None
    if return_ctx:
        o, ctx = o
    if n_items == 1:
        body = {"b": canon_val(o)}
    else:
        body = {"t": [canon_val(e) for e in o]}
    if return_ctx:
        return {"o": body, "ctx": sorted([[k, canon_val(v)] for k, v in (ctx or {}).items()])}
    return body


def safe_canon(o, n_items, return_ctx):
    """canon_out of something the code under test returned: a sample of the wrong shape is an outcome, not a harness error"""
    try:
        return canon_out(o, n_items, return_ctx)
    except Exception:
        return {"malformed": repr(o)[:200]}


def to_py_index(f):
    if isinstance(f, list):
        return [to_py_index(e) for e in f]
    if isinstance(f, dict):
        return slice(*f["s"])
    return f


def run_real(case):
    from kappadata.wrappers.mode_wrapper import ModeWrapper
    counter = Counter()
    ds = build_stack(case["spec"], counter)
    try:
        mw = ModeWrapper(ds, mode=case["mode"], return_ctx=case["return_ctx"])
    except AssertionError as e:
        msg = str(e)
        if "has no method" in msg:
            name = msg.split("getitem_")[-1]
            fusedmode = len(model_stack(case["spec"])["fused"]) > 0
            return {"ctor": "assert-type" if fusedmode else "assert-attr", "name": name}
        return {"ctor": "assert-dup"}
    plan = []
    if mw.fused_items:
        for name, idxs in zip(mw.fused_items, mw.fused_to_idxs):
            plan.append({"name": name, "idxs": idxs})
    else:
        plan = [{"name": it, "idxs": i} for i, it in enumerate(mw.items)]
    outs = []
    n_items = len(mw.items)
    for f in case["forms"]:
        try:
            o = mw[to_py_index(f)]
            outs.append(safe_canon(o, n_items, case["return_ctx"]))
        except KeyError:
            outs.append("KeyError")
        except IndexError:
            outs.append("IndexError")
        except Exception as e:  # anything else the code under test raises is an outcome too (never a harness exception)
            outs.append(f"Error:{type(e).__name__}")
    # iteration protocol after the forms (the instrumentation counter keeps running, as in the model's `iterAll`)
    try:
        it = [safe_canon(o, n_items, case["return_ctx"]) for o in mw]
    except KeyError:
        it = "KeyError"
    except Exception as e:
        it = f"Error:{type(e).__name__}"
    out = {"ctor": "ok", "plan": plan, "propagate": bool(mw.propagate_ctx), "outs": outs, "len": len(mw), "iter": it, "_mw": mw, "_counter": counter, "_ds": ds}
    return out


# ----------------------------------------------------------------------------------------------
# independent oracle (property statement only)
# ----------------------------------------------------------------------------------------------
def in_domain(case):
    """ctx.<k> after its recorder; recorders exist"""
    spec = case["spec"]
    items = case["mode"].split(" ")
    rec_keys = {v: k for k, v in spec["records"].items()}
    fused = model_stack(spec)["fused"]
    for p, it in enumerate(items):
        if it.startswith("ctx."):
            key = it[4:]
            if key not in rec_keys:
                return False
            recorder = rec_keys[key]
            # recorder is a loader name: a single item, or a fused name whose members must all be in the mode before p
            earlier = items[:p]
            if recorder in earlier and not any(recorder in f for f in fused):
                continue
            grp = next((f for f in fused if "".join(f) == recorder), None)
            if grp is not None and all(m in earlier for m in grp) and all(items.count(m) == 1 for m in grp):
                continue
            return False
    return True


def expected_positions(case, i_norm):
    """per position: predicate description"""
    items = case["mode"].split(" ")
    return items


def oracle_one(case, real, f, out, root=None):
    """check one int form; `root` (optional list): the wrapper sits on a view of the stack whose sample k is the stack's sample root[k]
    (then loaders must have been asked for root[i] while 'index' is still i)"""
    spec = case["spec"]
    items = case["mode"].split(" ")
    n = spec["len"] if root is None else len(root)
    if not isinstance(f, int) or not (-n <= f < n):
        return None
    i = f + n if f < 0 else f
    ri = i if root is None else root[i]
    if isinstance(out, str):
        return f"mw[{f}] raised {out}"
    if not isinstance(out, dict) or "malformed" in out:
        return f"mw[{f}] is not a sample of the promised shape: {out}"
    body = out["o"] if case["return_ctx"] else out
    if len(items) == 1:
        if "b" not in body:
            return f"mw[{f}]: one item must be returned bare"
        vals = [body["b"]]
    else:
        if "t" not in body or len(body["t"]) != len(items):
            return f"mw[{f}]: {len(items)} items must be returned as a tuple of that length"
        vals = body["t"]
    fused = model_stack(spec)["fused"]
    rec_keys = {v: k for k, v in spec["records"].items()}
    for p, (it, v) in enumerate(zip(items, vals)):
        if it == "index":
            if v != ["i", i]:
                return f"mw[{f}] position {p} ('index') is {v}, expected {i}"
        elif it.startswith("ctx."):
            rec = rec_keys[it[4:]]
            if not (isinstance(v, list) and v[0] == "t" and v[1] == rec and v[2] == ri):
                return f"mw[{f}] position {p} ('{it}') is {v}, expected what loader {rec} recorded for sample {ri}"
        else:
            if not (isinstance(v, list) and len(v) == 4 and v[0] == "t" and v[1] == it and v[2] == ri):
                return f"mw[{f}] position {p} ('{it}') is {v}, expected loader {it} of sample {ri}"
    # jointly loaded items: one joint call (same call number) when every member occurs exactly once
    for grp in fused:
        if all(items.count(m) == 1 for m in grp):
            calls = {vals[items.index(m)][3] for m in grp}
            # joint loading only applies if the group was fused by the constructor (first member's turn finds all present: always true here)
            if len(calls) != 1:
                return f"mw[{f}]: jointly loaded items {grp} come from different loader calls {sorted(calls)}"
    if case["return_ctx"]:
        for k, v in out["ctx"]:
            if isinstance(v, list) and v and v[0] == "t" and v[2] != ri:
                return f"mw[{f}]: returned ctx carries entry {k}={v} of another sample"
    return None


def oracle(case, real):
    if real.get("ctor") != "ok" or not in_domain(case):
        return None
    spec = case["spec"]
    n = spec["len"]
    tag = f"mode='{case['mode']}' fused={model_stack(spec)['fused']} return_ctx={case['return_ctx']} len={n}"
    by_int = {}
    for f, out in zip(case["forms"], real["outs"]):
        if isinstance(f, int):
            msg = oracle_one(case, real, f, out)
            if msg:
                return Failure("modewrapper:positions", f"{msg} ({tag})", case, None, out)
    # sequence semantics: compare slices / lists / negatives against per-int requests *modulo call numbers*
    mw = real["_mw"]

    def strip(o):
        if isinstance(o, list) and o and o[0] == "t" and len(o) == 4:
            return o[:3]
        if isinstance(o, list):
            return [strip(e) for e in o]
        if isinstance(o, dict):
            return {k: strip(v) for k, v in o.items()}
        return o

    n_items = len(case["mode"].split(" "))

    def one(i):
        try:
            return strip(safe_canon(mw[i], n_items, case["return_ctx"]))
        except Exception as e:
            return f"Error:{type(e).__name__}"
    for f, out in zip(case["forms"], real["outs"]):
        if isinstance(f, dict):
            exp = [one(i) for i in range(n)[slice(*f["s"])]]
            if strip(out) != exp:
                return Failure("modewrapper:slice", f"mw[slice{tuple(f['s'])}] != [mw[i] for i in range(len)[slice]] ({tag})", case, exp, strip(out))
        elif isinstance(f, list) and all(isinstance(e, int) and -n <= e < n for e in f):
            exp = [one(i) for i in f]
            if strip(out) != exp:
                return Failure("modewrapper:list", f"mw[{f}] != [mw[i] for i in {f}] ({tag})", case, exp, strip(out))
        elif isinstance(f, int) and -n <= f < 0:
            if strip(out) != one(f + n):
                return Failure("modewrapper:negative", f"mw[{f}] != mw[{f + n}] ({tag})", case, one(f + n), strip(out))
    if len(mw) != n:
        return Failure("modewrapper:len", f"len(mw)={len(mw)} != {n}", case, n, len(mw))
    try:
        it = [strip(safe_canon(o, n_items, case["return_ctx"])) for o in itertools.islice(mw, n + 1)]
    except Exception as e:
        it = f"Error:{type(e).__name__}"
    if it != [one(i) for i in range(n)]:
        return Failure("modewrapper:iter", f"list(iter(mw)) != [mw[i] for i in range(len)] ({tag})", case, None, None)
    return run_history(case, real)


# ----------------------------------------------------------------------------------------------
# access histories ("all orders of preceding accesses"): a small program of public-protocol accesses (iter / next / [] / len /
# list / zip / nested loops / `in`) over several mode-wrapped datasets that are alive at the same time:
#   a = the case's ModeWrapper, already used by the forms and one full pass
#   b = a second ModeWrapper (other mode / return_ctx) over the SAME stack object
#   s = the case's mode over a KDSubset view of the same stack (composition with another wrapper of the package)
#   c = copy.deepcopy / copy.copy of the used `a`, taken in the middle of the history
# Every delivered sample is judged by the property statement alone (oracle_one at the position Python sequence semantics prescribes:
# every iter(ds) walks 0..len-1 on its own, whatever else happens to the same or to other objects in between).
# ----------------------------------------------------------------------------------------------
HISTORY_KEY = "modewrapper:history"


def _plain_forms(rng, n):
    """index forms whose expected content is given by Python sequence semantics alone (in range; int, negative, slice, flat list)"""
    out = []
    if n > 0:
        out.append(rng.randrange(-n, n))
        out.append([rng.randrange(-n, n) for _ in range(rng.randint(0, 3))])
    out.append({"s": [rng.choice([None, -3, -1, 0, 1, 2]), rng.choice([None, -3, -1, 0, 1, 2, 4]), rng.choice([None, 1, 2, -1, -2])]})
    return rng.choice(out)


def gen_history(rng, case):
    spec = case["spec"]
    n = spec["len"]
    h = {"ops": []}
    names = ["a"]
    # a second configuration over the same stack (kept only if it is inside the property's domain)
    if rng.random() < 0.6:
        served = set(model_stack(spec)["onType"] if model_stack(spec)["fused"] else model_stack(spec)["reachable"])
        alphabet = [it for it in ALPHABET if it not in LOADABLE or it in served or rng.random() < 0.1]
        for _ in range(6):
            mode2 = " ".join(rng.choice(alphabet) for _ in range(rng.randint(1, 3)))
            if in_domain({"spec": spec, "mode": mode2}):
                h["b"] = {"mode": mode2, "return_ctx": rng.random() < 0.5}
                names.append("b")
                break
    # composition: the same mode over a subset view of the stack (the constructor rejects views of stacks with joint loaders)
    if n > 0 and not model_stack(spec)["fused"] and rng.random() < 0.5:
        h["s"] = [rng.randrange(n) for _ in range(rng.randint(0, 4))]
        names.append("s")
    ops = h["ops"]
    iters = []  # wrapper name per iterator id

    def length(w):
        return len(h["s"]) if w == "s" else n

    def open_iter(w):
        iters.append(w)
        ops.append(["iter", w])
        return len(iters) - 1

    def other_pass(w):
        kind = rng.choice(["zip", "list", "nested", "in", "iter-next", "iter-drain", "get"])
        if kind == "iter-next":
            k = open_iter(w)
            for _ in range(rng.randint(1, 2)):
                ops.append(["next", k])
        elif kind == "iter-drain":
            ops.append(["drain", open_iter(w)])
        elif kind == "get":
            ops.append(["get", w, _plain_forms(rng, length(w))])
        else:
            ops.append([kind, w])

    if rng.random() < 0.6:
        # scenario: an iterator is opened and advanced, other accesses happen before it is exhausted, then it is continued
        w = rng.choice(names)
        k = open_iter(w)
        for _ in range(rng.randint(0, max(0, length(w) - 1))):
            ops.append(["next", k])
        for _ in range(rng.randint(1, 2)):
            other_pass(w if rng.random() < 0.8 else rng.choice(names))
        if rng.random() < 0.5:
            ops.append(["next", k])
        if rng.random() < 0.7:
            ops.append(["drain", k])
            if rng.random() < 0.3:
                ops.append(["next", k])
    copied = False
    for _ in range(rng.randint(2, 8)):
        r = rng.random()
        w = rng.choice(names)
        if r < 0.18:
            open_iter(w)
        elif r < 0.55 and iters:
            ops.append(["next", rng.randrange(len(iters))])
        elif r < 0.62 and iters:
            ops.append(["drain", rng.randrange(len(iters))])
        elif r < 0.72:
            ops.append(["get", w, _plain_forms(rng, length(w))])
        elif r < 0.78:
            ops.append(["len", w])
        elif r < 0.84 and not copied:
            copied = True
            ops.append(["copy", rng.choice(["deep", "shallow"])])
            names.append("c")
        else:
            ops.append([rng.choice(["zip", "list", "nested", "in"]), w])
    return h


class _Outside(Exception):
    """the code under test raised where the property (inside its domain) promises a value"""


def run_history(case, real):
    """interpret case['history'] on the used wrapper of `real`; returns a Failure or None. Never lets an exception of the code under test escape."""
    import copy
    h = case.get("history")
    if not h or real.get("ctor") != "ok" or not in_domain(case):
        return None
    from kappadata.wrappers.mode_wrapper import ModeWrapper
    spec = case["spec"]
    n = spec["len"]
    tag = f"mode='{case['mode']}' fused={model_stack(spec)['fused']} return_ctx={case['return_ctx']} len={n}"
    # name -> (object, judging case, root map)
    ws = {"a": (real["_mw"], case, None)}
    if "b" in h:
        cb = {"spec": spec, "mode": h["b"]["mode"], "return_ctx": bool(h["b"]["return_ctx"])}
        if in_domain(cb):
            try:
                ws["b"] = (ModeWrapper(real["_ds"], mode=cb["mode"], return_ctx=cb["return_ctx"]), cb, None)
            except Exception:
                pass  # rejected by the constructor: an outcome of the constructor, compared elsewhere
    if "s" in h and not model_stack(spec)["fused"] and all(isinstance(i, int) and 0 <= i < n for i in h["s"]):
        try:
            from kappadata.datasets.kd_subset import KDSubset
            ws["s"] = (ModeWrapper(KDSubset(real["_ds"], indices=list(h["s"])), mode=case["mode"], return_ctx=case["return_ctx"]), case, list(h["s"]))
        except Exception:
            pass

    def describe(w):
        obj, c, root = ws[w]
        d = {"a": "the case's wrapper", "b": f"second wrapper mode='{c['mode']}' return_ctx={c['return_ctx']} over the same stack",
             "s": f"the case's mode over KDSubset(stack, {root})", "c": "copy of the used wrapper"}[w]
        return f"{w} ({d})"

    def size(w):
        return n if ws[w][2] is None else len(ws[w][2])

    def judge(w, i, sample):
        """None or a message: `sample` delivered by wrapper w must be sample i"""
        obj, c, root = ws[w]
        try:
            out = canon_out(sample, len(c["mode"].split(" ")), c["return_ctx"])
        except Exception:
            return f"sample {i} has the wrong shape: {sample!r}"
        if isinstance(out, list):
            return f"sample {i} is a list: {sample!r}"
        try:
            return oracle_one(c, None, i, out, root)
        except Exception as e:  # malformed values inside the sample
            return f"sample {i} is malformed ({type(e).__name__}): {sample!r}"

    def judge_seq(w, idxs, samples, what):
        if len(samples) != len(idxs):
            return f"{what} delivered {len(samples)} samples, expected {len(idxs)} (samples {list(idxs)})"
        for i, smp in zip(idxs, samples):
            msg = judge(w, i, smp)
            if msg:
                return f"{what}: expected sample {i}: {msg}"
        return None

    def guarded(fn):
        try:
            return fn()
        except StopIteration:
            raise
        except Exception as e:
            raise _Outside(f"raised {type(e).__name__}: {e}")

    iters = []   # [iterator object or None, wrapper name, samples delivered so far]
    trail = []
    for no, op in enumerate(h["ops"]):
        kind = op[0]
        trail.append(op)
        msg = None
        try:
            if kind == "iter":
                w = op[1]
                iters.append([guarded(lambda: iter(ws[w][0])) if w in ws else None, w, 0])
            elif kind in ("next", "drain"):
                k = op[1]
                if not (isinstance(k, int) and 0 <= k < len(iters)) or iters[k][0] is None:
                    continue
                it, w, pos = iters[k]
                m = size(w)
                if kind == "next":
                    try:
                        smp = guarded(lambda: next(it))
                    except StopIteration:
                        if pos < m:
                            msg = f"iterator #{k} over {describe(w)} ended after {pos} of {m} samples"
                    else:
                        if pos >= m:
                            msg = f"iterator #{k} over {describe(w)} delivered a sample after its {m} samples: {smp!r}"
                        else:
                            iters[k][2] = pos + 1
                            msg = judge(w, pos, smp)
                            if msg:
                                msg = f"iterator #{k} over {describe(w)}, {pos} samples delivered before, must deliver sample {pos}: {msg}"
                else:
                    rest = guarded(lambda: list(itertools.islice(it, m + 1)))
                    iters[k][2] = max(pos, m)
                    msg = judge_seq(w, list(range(min(pos, m), m)), rest, f"rest of iterator #{k} over {describe(w)} ({pos} samples delivered before)")
            elif kind == "copy":
                try:
                    ws["c"] = ((copy.deepcopy if op[1] == "deep" else copy.copy)(ws["a"][0]), case, None)
                except Exception:
                    pass  # copying is not part of the property: no copy, nothing to judge
            else:
                w = op[1]
                if w not in ws:
                    continue
                obj, m = ws[w][0], size(w)
                if kind == "len":
                    got = guarded(lambda: len(obj))
                    if got != m:
                        msg = f"len of {describe(w)} is {got}, expected {m}"
                elif kind == "list":
                    msg = judge_seq(w, list(range(m)), guarded(lambda: list(itertools.islice(obj, m + 1))), f"list({describe(w)})")
                elif kind == "in":
                    if guarded(lambda: object() in obj) is not False:
                        msg = f"`object() in {describe(w)}` is not False"
                elif kind == "zip":
                    pairs = guarded(lambda: list(itertools.islice(zip(obj, obj), m + 1)))
                    msg = judge_seq(w, list(range(m)), [p[0] for p in pairs], f"first components of zip(ds, ds), ds = {describe(w)},") \
                        or judge_seq(w, list(range(m)), [p[1] for p in pairs], f"second components of zip(ds, ds), ds = {describe(w)},")
                elif kind == "nested":
                    pairs = guarded(lambda: [(x, y) for x in itertools.islice(obj, m + 1) for y in itertools.islice(obj, m + 1)])
                    msg = judge_seq(w, [i for i in range(m) for _ in range(m)], [p[0] for p in pairs], f"outer samples of `for x in ds for y in ds`, ds = {describe(w)},") \
                        or judge_seq(w, [j for _ in range(m) for j in range(m)], [p[1] for p in pairs], f"inner samples of `for x in ds for y in ds`, ds = {describe(w)},")
                elif kind == "get":
                    f = op[2]
                    got = guarded(lambda: obj[to_py_index(f)])
                    if isinstance(f, int):
                        if -m <= f < m:
                            msg = judge(w, f + m if f < 0 else f, got)
                    else:
                        if isinstance(f, dict):
                            idxs = list(range(m)[slice(*f["s"])])
                        elif isinstance(f, list) and all(isinstance(e, int) and -m <= e < m for e in f):
                            idxs = [e + m if e < 0 else e for e in f]
                        else:
                            continue
                        msg = f"ds[{f}] is not a list: {got!r}" if not isinstance(got, list) else judge_seq(w, idxs, got, f"ds[{f}]")
                    if msg:
                        msg = f"ds = {describe(w)}: {msg}"
        except _Outside as e:
            msg = f"{op} {e}"
        if msg:
            return Failure(HISTORY_KEY, f"after the case's forms and one full pass, history step {no} {op} (steps so far: {trail}): {msg} ({tag})",
                           dict(case, history=dict(h, ops=list(trail))), None, None)
    return None


# ----------------------------------------------------------------------------------------------
# generation
# ----------------------------------------------------------------------------------------------
def gen_spec(rng, fused=None):
    base = [n for n in LOADABLE if rng.random() < 0.8] or ["x"]
    fused = rng.choice(FUSED_CHOICES) if fused is None else fused
    layers = []
    if fused or rng.random() < 0.4:
        names = set()
        for f in fused:
            names |= set(f) - {"index"}
            names.add("".join(f))
        impl = sorted(n for n in names if rng.random() < 0.9)
        layers.append({"fused": fused, "impl": impl})
        if rng.random() < 0.25:
            # an outer plain wrapper: implements everything again (accepted) or nothing (rejected when fused)
            layers.append({"fused": [], "impl": impl if rng.random() < 0.6 else []})
    loaders = list(base)
    for l in layers:
        loaders += l["impl"]
    records = {}
    for key in ("a", "b"):
        if loaders and rng.random() < 0.7:
            records[rng.choice(loaders)] = key
    records = {k: v for k, v in records.items()}
    # one key per loader, one loader per key
    seen = set()
    records = {k: v for k, v in records.items() if not (v in seen or seen.add(v))}
    return {"base": base, "records": records, "layers": layers, "len": rng.randint(0, 4), "rpc": rng.random() < 0.15}


def gen_forms(rng, n):
    forms = list(range(-n - 1, n + 1))
    rng.shuffle(forms)
    forms = forms[:6]
    for _ in range(3):
        forms.append({"s": [rng.choice([None, -4, -2, -1, 0, 1, 2, 4]), rng.choice([None, -4, -2, -1, 0, 1, 2, 4]),
                            rng.choice([None, 1, 2, 3, -1, -2, -3])]})
    if n > 0:
        forms.append([rng.randrange(-n, n) for _ in range(rng.randint(0, 4))])
        forms.append([rng.randrange(-n, n), [rng.randrange(-n, n)], {"s": [None, None, -1]}])
    return forms


def gen_case(rng, maxlen=4):
    spec = gen_spec(rng)
    k = rng.randint(1, maxlen)
    mode = " ".join(rng.choice(ALPHABET) for _ in range(k))
    return {"op": "mw.run", "stack": model_stack(spec), "spec": spec, "mode": mode, "return_ctx": rng.random() < 0.5,
            "forms": gen_forms(rng, spec["len"])}


def exhaustive_modes(rng, sample=None):
    """all modes of length <= 3 over the alphabet x every fused declaration, full implementation"""
    cases = []
    for k in (1, 2, 3):
        for combo in itertools.product(ALPHABET, repeat=k):
            for fused in FUSED_CHOICES:
                names = set()
                for f in fused:
                    names |= set(f) - {"index"}
                    names.add("".join(f))
                spec = {"base": list(LOADABLE), "records": {"x": "a", ("".join(fused[0]) if fused else "class"): "b"},
                        "layers": [{"fused": fused, "impl": sorted(names)}] if fused else [], "len": 2, "rpc": False}
                cases.append({"op": "mw.run", "stack": model_stack(spec), "spec": spec, "mode": " ".join(combo),
                              "return_ctx": (len(cases) % 2 == 0), "forms": [0, -1, 1, {"s": [None, None, -1]}, [1, 0]]})
    if sample is not None and sample < len(cases):
        rng.shuffle(cases)
        cases = cases[:sample]
    return cases


def strip_private(d):
    return {k: v for k, v in d.items() if not k.startswith("_")}


class C01(PropertyCheck):
    pid = "C01"
    claimed = True
    props_modules = ["KDVerif.Props.C01"]
    extra_build = ["KDVerif.Driver.ModeWrapper"]
    driver_main = "mains/ModeWrapper.lean"
    design_ref = "DESIGN.md 3 (C01)"
    anchored = ["kappadata/wrappers/mode_wrapper.py", "kappadata/wrappers/torch_wrapper.py", "kappadata/datasets/kd_dataset.py",
                "kappadata/datasets/kd_wrapper.py"]
    assumptions = ["per-item loaders are arbitrary functions of (index, per-sample ctx): represented by symbolic tags (loader, index, call#)",
                   "attribute resolution (hasattr on the type / through __getattr__ delegation) is supplied by the harness from the real objects"]
    trusted_extra = ["modelled by hand: ModeWrapper.__init__ (planner, assertions), __getitem__ (index forms, un-fusing, packaging, ctx), static helpers; "
                     "not modelled: what loaders compute"]
    level_text = ("Lean theorems (KDVerif.Props.C01) about the planner and __getitem__ model for all modes/fused declarations: every mode position is written, "
                  "the last writer of a position is the loader of that position's item (joint loader component in mode order for fused groups, one call), "
                  "end-to-end getitem_positions for every constructor-accepted wrapper, "
                  "packaging/ctx/negative/slice/list laws. Model tied to the real ModeWrapper over synthetic stacks of real KDDataset/KDWrapper classes by "
                  "differential correspondence (exhaustive modes up to length 3 x fused declarations + random), independent positional oracle.")
    level_note = "loaders are symbolic; __getattr__-based resolution is sampled through the harness's hasattr probes"

    def cases(self):
        ex = exhaustive_modes(self.rng, 1200 if self.tier == "quick" else None)
        n = 1500 if self.tier == "quick" else 20000
        rnd = [gen_case(self.rng, maxlen=4 if i % 4 else 8) for i in range(n)]
        # access histories come from their own stream (the stream of stacks/modes/forms stays what it was)
        hrng = random.Random(self.seed * 7919 + 101)
        for c in ex + rnd:
            c["history"] = gen_history(hrng, c)
        return ex + rnd, len(ex)

    def correspond(self):
        res = CorrResult()
        cases, nex = self.cases()
        res.rule = (f"{nex} cases of the exhaustive sweep (all modes of length<=3 over {ALPHABET} x {len(FUSED_CHOICES)} fused declarations"
                    f"{'; sampled' if self.tier == 'quick' else '; complete'}) + seeded random stacks/modes up to length 8 with int/negative/slice/list/nested index forms; "
                    "every accepted in-domain case continues with an access history on the used wrapper (several live iterators over one object advanced in "
                    "interleaved order, zip(ds, ds), nested loops, `in`, list, [] and len in between; a second wrapper with another mode over the same stack, "
                    "the mode over a KDSubset view of the stack, a deep/shallow copy of the used wrapper), each delivered sample judged by the positional oracle; "
                    "distinct = (mode, fused declaration, return_ctx, ctor outcome)")
        res.exhaustive = self.tier == "thorough"
        reqs = [{k: v for k, v in c.items() if k not in ("spec", "history")} for c in cases]
        answers = self.driver.run(reqs)
        for case, model in zip(cases, answers):
            real = run_real(case)
            res.cases += 1
            res.nontrivial.add((case["mode"], json.dumps(case["stack"]["fused"]), case["return_ctx"], real.get("ctor")))
            res.bump(f"ctor={real.get('ctor')}")
            res.bump(f"nitems={len(case['mode'].split(' '))}")
            res.bump(f"fused={len(case['stack']['fused'])}")
            if strip_private(real) != model:
                if len(res.disagreements) < 30:
                    res.disagreements.append(Disagreement({k: v for k, v in case.items() if k != "stack"}, model, strip_private(real)))
            f = oracle(case, real)
            if real.get("ctor") == "ok" and in_domain(case):
                hist = case.get("history") or {"ops": []}
                res.bump("history=" + "".join(sorted(k for k in ("b", "s") if k in hist)) + ("c" if any(o[0] == "copy" for o in hist["ops"]) else ""))
                live = {}
                for o in hist["ops"]:
                    if o[0] == "iter":
                        live[len(live)] = o[1]
                    elif o[0] in ("zip", "nested", "list", "in") and o[1] in live.values():
                        res.bump("history:pass-while-iterator-open")
                        break
            if f is not None and (len(res.failures) < 5 or not any(g.key == f.key for g in res.failures)):
                res.failures.append(f)
            if len(res.samples) < 3 and real.get("ctor") == "ok" and case["stack"]["fused"] and len(case["mode"].split(" ")) > 1:
                res.samples.append({"mode": case["mode"], "fused": case["stack"]["fused"], "plan": real["plan"], "mw[0]": real["outs"][:1]})
        # static helpers
        sreqs = []
        for mode in ["x", "x class", "index x class", "class x class", "ctx.a x"]:
            for item in ["x", "class", "index", "y"]:
                sreqs.append({"op": "mw.static", "mode": mode, "item": item, "n": len(mode.split(" "))})
        sans = self.driver.run(sreqs)
        from kappadata.wrappers.mode_wrapper import ModeWrapper
        for rq, ans in zip(sreqs, sans):
            res.cases += 1
            res.bump("static")
            mode, item, n = rq["mode"], rq["item"], rq["n"]
            batch = tuple(range(n))
            real = {"has": ModeWrapper.has_item(mode=mode, item=item), "add": ModeWrapper.add_item(mode=mode, item=item)}
            try:
                real["idx"] = ModeWrapper.get_item_index(mode=mode, item=item)
                real["get"] = ModeWrapper.get_item(mode=mode, item=item, batch=batch if n > 1 else batch)
                real["set"] = list(ModeWrapper.set_item(mode=mode, item=item, batch=batch, value=99))
            except ValueError:
                real["idx"] = real["get"] = real["set"] = None
            if real != ans:
                res.disagreements.append(Disagreement(rq, ans, real, "static helper"))
        # TorchWrapper: item k of a tuple-returning torch dataset is component index(mode, k) of that dataset's sample
        self.torch_wrapper_leg(res)
        # Python slice semantics of the model vs CPython, exhaustive small scope
        vals = [None] + list(range(-6, 7))
        steps = [None, 1, 2, 3, -1, -2, -3]
        sl = []
        for n in range(0, 5):
            for a in vals:
                for b in vals:
                    for st in steps:
                        sl.append({"op": "mw.slice", "n": n, "s": [a, b, st]})
        if self.tier == "quick":
            self.rng.shuffle(sl)
            sl = sl[:1500]
        for rq, ans in zip(sl, self.driver.run(sl)):
            res.cases += 1
            res.bump("slice")
            real = list(range(rq["n"])[slice(*rq["s"])])
            if real != ans:
                res.disagreements.append(Disagreement(rq, ans, real, "slice semantics"))
        res.failures.sort(key=lambda f: len(json.dumps(f.input, default=str)))
        return res

    def torch_wrapper_leg(self, res):
        from torch.utils.data import Dataset
        from kappadata.wrappers.mode_wrapper import ModeWrapper
        from kappadata.wrappers.torch_wrapper import TorchWrapper

        class Tup(Dataset):
            def __init__(self, width, n):
                self.width, self.n = width, n

            def __len__(self):
                return self.n

            def __getitem__(self, i):
                return tuple(("v", c, i) for c in range(self.width))

        names = ["x", "class", "y", "z"]
        reqs, metas = [], []
        for width in (1, 2, 3, 4):
            inner_mode = " ".join(names[:width])
            for k in range(3 if self.tier == "quick" else 12):
                want = [self.rng.choice(names[:width] + ["index"]) for _ in range(self.rng.randint(1, 4))]
                n = self.rng.randint(1, 4)
                tw = TorchWrapper(Tup(width, n), mode=inner_mode)
                mw = ModeWrapper(tw, mode=" ".join(want), return_ctx=False)
                for i in range(-n, n):
                    got = mw[i]
                    got = [got] if len(want) == 1 else list(got)
                    ii = i + n if i < 0 else i
                    exp = [ii if w == "index" else ("v", inner_mode.split(" ").index(w), ii) for w in want]
                    res.cases += 1
                    res.bump("torchwrapper")
                    res.nontrivial.add(("tw", inner_mode, tuple(want), i))
                    if got != exp and not any(f.key == "torchwrapper:item" for f in res.failures):
                        res.failures.append(Failure("torchwrapper:item", f"TorchWrapper(mode='{inner_mode}') under mode '{' '.join(want)}' at {i}: "
                                                    "item is not component index(mode, item) of the dataset's sample",
                                                    {"inner_mode": inner_mode, "mode": want, "idx": i}, exp, got))
                    for w in want:
                        if w != "index":
                            reqs.append({"op": "mw.static", "mode": inner_mode, "item": w, "n": width})
                            metas.append((inner_mode, w, width))
        for (inner_mode, w, width), ans in zip(metas, self.driver.run(reqs)):
            if ans["get"] != inner_mode.split(" ").index(w):
                res.disagreements.append(Disagreement({"inner_mode": inner_mode, "item": w}, ans["get"], inner_mode.split(" ").index(w), "TorchWrapper component index"))
        # an item that is not in the wrapper's mode is rejected (assertion), not silently mis-addressed
        try:
            TorchWrapper(Tup(2, 2), mode="x class").getitem_y(0)
            res.failures.append(Failure("torchwrapper:reject", "TorchWrapper serves an item that is not in its mode", {"mode": "x class", "item": "y"}, "AssertionError", "value"))
        except AssertionError:
            pass

    def search(self, budget_s, hints):
        import time
        t0 = time.time()
        out = []
        for h in hints:
            if "spec" in h:
                f = oracle(h, run_real(h))
                if f:
                    out.append(f)
        rng = random.Random(self.seed + 5)
        while not out and time.time() - t0 < budget_s:
            c = gen_case(rng, maxlen=6)
            c["history"] = gen_history(rng, c)
            f = oracle(c, run_real(c))
            if f:
                out.append(f)
        return out

    def replay_input(self, inp):
        return oracle(inp, run_real(inp))
