"""C01 — ModeWrapper: synthetic stacks of real KDDataset/KDWrapper classes, correspondence with the Lean model,
independent oracle of the property statement."""
import itertools
import json
import random

from .common import CorrResult, Disagreement, Failure, PropertyCheck

ALPHABET = ["index", "x", "class", "y", "ctx.a", "ctx.b"]
LOADABLE = ["x", "class", "y"]
FUSED_CHOICES = [[], [["x", "class"]], [["x", "class", "y"]], [["class", "x"]], [["x", "class"], ["y"]], [["y", "x"]]]


class Counter:
    def __init__(self):
        self.n = 0

    def next(self):
        n = self.n
        self.n += 1
        return n


def build_stack(spec, counter):
    """spec: {base: [names], records: {loader: key}, layers: [{fused: [[..]], impl: [names incl. fused names]}], len: n, rpc: bool}"""
    from kappadata.datasets.kd_dataset import KDDataset
    from kappadata.datasets.kd_wrapper import KDWrapper
    records = spec["records"]

    def make_loader(name, parts=None):
        def loader(self, idx, ctx=None):
            c = counter.next()
            if parts is None:
                v = ("t", name, idx, c)
                out = v
            else:
                out = tuple(("t", p, idx, c) for p in parts)
                v = ("t", name, idx, c)
            if ctx is not None and name in records:
                ctx[records[name]] = v
            return out
        return loader

    ns = {"__len__": lambda self: spec["len"]}
    for n in spec["base"]:
        ns[f"getitem_{n}"] = make_loader(n)
    if spec.get("rpc"):
        ns["requires_propagate_ctx"] = property(lambda self: True)
    Base = type("SynthBase", (KDDataset,), ns)
    ds = Base()
    for li, layer in enumerate(spec["layers"]):
        lns = {}
        fused = [list(f) for f in layer["fused"]]
        if fused:
            lns["fused_operations"] = property(lambda self, fused=fused: super(type(self), self).fused_operations + fused)
        for n in layer["impl"]:
            parts = next((f for f in fused_all(spec, li) if "".join(f) == n), None)
            lns[f"getitem_{n}"] = make_loader(n, parts)
        W = type(f"SynthWrapper{li}", (KDWrapper,), lns)
        ds = W(dataset=ds)
    return ds


def fused_all(spec, upto):
    out = []
    for layer in spec["layers"][:upto + 1]:
        out += [list(f) for f in layer["fused"]]
    return out


def model_stack(spec):
    fused = fused_all(spec, len(spec["layers"]) - 1) if spec["layers"] else []
    reach = set(spec["base"])
    for layer in spec["layers"]:
        reach |= set(layer["impl"])
    on_type = set(spec["layers"][-1]["impl"]) if spec["layers"] else set(spec["base"])
    return {"fused": fused, "onType": sorted(on_type), "reachable": sorted(reach),
            "records": [[k, v] for k, v in sorted(spec["records"].items())], "len": spec["len"], "rpc": bool(spec.get("rpc"))}


def canon_val(v):
    if isinstance(v, tuple) and v and v[0] == "t" and len(v) == 4 and isinstance(v[1], str):
        return ["t", v[1], int(v[2]), int(v[3])]
    if isinstance(v, tuple):
        return ["T"] + [canon_val(e) for e in v]
    if isinstance(v, int):
        return ["i", int(v)]
    if v is None:
        return None
    return repr(v)


def canon_out(o, n_items, return_ctx):
    if isinstance(o, list):
        return [canon_out(e, n_items, return_ctx) for e in o]
    ctx = None
    if return_ctx:
        o, ctx = o
    if n_items == 1:
        body = {"b": canon_val(o)}
    else:
        body = {"t": [canon_val(e) for e in o]}
    if return_ctx:
        return {"o": body, "ctx": sorted([[k, canon_val(v)] for k, v in (ctx or {}).items()])}
    return body


def to_py_index(f):
    if isinstance(f, list):
        return [to_py_index(e) for e in f]
    if isinstance(f, dict):
        return slice(*f["s"])
    return f


def run_real(case):
    from kappadata.wrappers.mode_wrapper import ModeWrapper
    counter = Counter()
    ds = build_stack(case["spec"], counter)
    try:
        mw = ModeWrapper(ds, mode=case["mode"], return_ctx=case["return_ctx"])
    except AssertionError as e:
        msg = str(e)
        if "has no method" in msg:
            name = msg.split("getitem_")[-1]
            fusedmode = len(model_stack(case["spec"])["fused"]) > 0
            return {"ctor": "assert-type" if fusedmode else "assert-attr", "name": name}
        return {"ctor": "assert-dup"}
    plan = []
    if mw.fused_items:
        for name, idxs in zip(mw.fused_items, mw.fused_to_idxs):
            plan.append({"name": name, "idxs": idxs})
    else:
        plan = [{"name": it, "idxs": i} for i, it in enumerate(mw.items)]
    outs = []
    n_items = len(mw.items)
    for f in case["forms"]:
        try:
            o = mw[to_py_index(f)]
            outs.append(canon_out(o, n_items, case["return_ctx"]))
        except KeyError:
            outs.append("KeyError")
        except IndexError:
            outs.append("IndexError")
    # iteration protocol after the forms (the instrumentation counter keeps running, as in the model's `iterAll`)
    try:
        it = [canon_out(o, n_items, case["return_ctx"]) for o in mw]
    except KeyError:
        it = "KeyError"
    out = {"ctor": "ok", "plan": plan, "propagate": bool(mw.propagate_ctx), "outs": outs, "len": len(mw), "iter": it, "_mw": mw, "_counter": counter}
    return out


# ----------------------------------------------------------------------------------------------
# independent oracle (property statement only)
# ----------------------------------------------------------------------------------------------
def in_domain(case):
    """ctx.<k> after its recorder; recorders exist"""
    spec = case["spec"]
    items = case["mode"].split(" ")
    rec_keys = {v: k for k, v in spec["records"].items()}
    fused = model_stack(spec)["fused"]
    for p, it in enumerate(items):
        if it.startswith("ctx."):
            key = it[4:]
            if key not in rec_keys:
                return False
            recorder = rec_keys[key]
            # recorder is a loader name: a single item, or a fused name whose members must all be in the mode before p
            earlier = items[:p]
            if recorder in earlier and not any(recorder in f for f in fused):
                continue
            grp = next((f for f in fused if "".join(f) == recorder), None)
            if grp is not None and all(m in earlier for m in grp) and all(items.count(m) == 1 for m in grp):
                continue
            return False
    return True


def expected_positions(case, i_norm):
    """per position: predicate description"""
    items = case["mode"].split(" ")
    return items


def oracle_one(case, real, f, out):
    """check one int form"""
    spec = case["spec"]
    items = case["mode"].split(" ")
    n = spec["len"]
    if not isinstance(f, int) or not (-n <= f < n):
        return None
    i = f + n if f < 0 else f
    if out in ("KeyError", "IndexError"):
        return f"mw[{f}] raised {out}"
    body = out["o"] if case["return_ctx"] else out
    if len(items) == 1:
        if "b" not in body:
            return f"mw[{f}]: one item must be returned bare"
        vals = [body["b"]]
    else:
        if "t" not in body or len(body["t"]) != len(items):
            return f"mw[{f}]: {len(items)} items must be returned as a tuple of that length"
        vals = body["t"]
    fused = model_stack(spec)["fused"]
    rec_keys = {v: k for k, v in spec["records"].items()}
    for p, (it, v) in enumerate(zip(items, vals)):
        if it == "index":
            if v != ["i", i]:
                return f"mw[{f}] position {p} ('index') is {v}, expected {i}"
        elif it.startswith("ctx."):
            rec = rec_keys[it[4:]]
            if not (isinstance(v, list) and v[0] == "t" and v[1] == rec and v[2] == i):
                return f"mw[{f}] position {p} ('{it}') is {v}, expected what loader {rec} recorded for sample {i}"
        else:
            if not (isinstance(v, list) and v[0] == "t" and v[1] == it and v[2] == i):
                return f"mw[{f}] position {p} ('{it}') is {v}, expected loader {it} of sample {i}"
    # jointly loaded items: one joint call (same call number) when every member occurs exactly once
    for grp in fused:
        if all(items.count(m) == 1 for m in grp):
            calls = {vals[items.index(m)][3] for m in grp}
            # joint loading only applies if the group was fused by the constructor (first member's turn finds all present: always true here)
            if len(calls) != 1:
                return f"mw[{f}]: jointly loaded items {grp} come from different loader calls {sorted(calls)}"
    if case["return_ctx"]:
        for k, v in out["ctx"]:
            if isinstance(v, list) and v[0] == "t" and v[2] != i:
                return f"mw[{f}]: returned ctx carries entry {k}={v} of another sample"
        expect_keys = set()
    return None


def oracle(case, real):
    if real.get("ctor") != "ok" or not in_domain(case):
        return None
    spec = case["spec"]
    n = spec["len"]
    tag = f"mode='{case['mode']}' fused={model_stack(spec)['fused']} return_ctx={case['return_ctx']} len={n}"
    by_int = {}
    for f, out in zip(case["forms"], real["outs"]):
        if isinstance(f, int):
            msg = oracle_one(case, real, f, out)
            if msg:
                return Failure("modewrapper:positions", f"{msg} ({tag})", case, None, out)
    # sequence semantics: compare slices / lists / negatives against per-int requests *modulo call numbers*
    mw = real["_mw"]

    def strip(o):
        if isinstance(o, list) and o and o[0] == "t" and len(o) == 4:
            return o[:3]
        if isinstance(o, list):
            return [strip(e) for e in o]
        if isinstance(o, dict):
            return {k: strip(v) for k, v in o.items()}
        return o

    n_items = len(case["mode"].split(" "))

    def one(i):
        return strip(canon_out(mw[i], n_items, case["return_ctx"]))
    for f, out in zip(case["forms"], real["outs"]):
        if isinstance(f, dict):
            exp = [one(i) for i in range(n)[slice(*f["s"])]]
            if strip(out) != exp:
                return Failure("modewrapper:slice", f"mw[slice{tuple(f['s'])}] != [mw[i] for i in range(len)[slice]] ({tag})", case, exp, strip(out))
        elif isinstance(f, list) and all(isinstance(e, int) and -n <= e < n for e in f):
            exp = [one(i) for i in f]
            if strip(out) != exp:
                return Failure("modewrapper:list", f"mw[{f}] != [mw[i] for i in {f}] ({tag})", case, exp, strip(out))
        elif isinstance(f, int) and -n <= f < 0:
            if strip(out) != one(f + n):
                return Failure("modewrapper:negative", f"mw[{f}] != mw[{f + n}] ({tag})", case, one(f + n), strip(out))
    if len(mw) != n:
        return Failure("modewrapper:len", f"len(mw)={len(mw)} != {n}", case, n, len(mw))
    it = [strip(canon_out(o, n_items, case["return_ctx"])) for o in mw]
    if it != [one(i) for i in range(n)]:
        return Failure("modewrapper:iter", f"list(iter(mw)) != [mw[i] for i in range(len)] ({tag})", case, None, None)
    return None


# ----------------------------------------------------------------------------------------------
# generation
# ----------------------------------------------------------------------------------------------
def gen_spec(rng, fused=None):
    base = [n for n in LOADABLE if rng.random() < 0.8] or ["x"]
    fused = rng.choice(FUSED_CHOICES) if fused is None else fused
    layers = []
    if fused or rng.random() < 0.4:
        names = set()
        for f in fused:
            names |= set(f) - {"index"}
            names.add("".join(f))
        impl = sorted(n for n in names if rng.random() < 0.9)
        layers.append({"fused": fused, "impl": impl})
        if rng.random() < 0.25:
            # an outer plain wrapper: implements everything again (accepted) or nothing (rejected when fused)
            layers.append({"fused": [], "impl": impl if rng.random() < 0.6 else []})
    loaders = list(base)
    for l in layers:
        loaders += l["impl"]
    records = {}
    for key in ("a", "b"):
        if loaders and rng.random() < 0.7:
            records[rng.choice(loaders)] = key
    records = {k: v for k, v in records.items()}
    # one key per loader, one loader per key
    seen = set()
    records = {k: v for k, v in records.items() if not (v in seen or seen.add(v))}
    return {"base": base, "records": records, "layers": layers, "len": rng.randint(0, 4), "rpc": rng.random() < 0.15}


def gen_forms(rng, n):
    forms = list(range(-n - 1, n + 1))
    rng.shuffle(forms)
    forms = forms[:6]
    for _ in range(3):
        forms.append({"s": [rng.choice([None, -4, -2, -1, 0, 1, 2, 4]), rng.choice([None, -4, -2, -1, 0, 1, 2, 4]),
                            rng.choice([None, 1, 2, 3, -1, -2, -3])]})
    if n > 0:
        forms.append([rng.randrange(-n, n) for _ in range(rng.randint(0, 4))])
        forms.append([rng.randrange(-n, n), [rng.randrange(-n, n)], {"s": [None, None, -1]}])
    return forms


def gen_case(rng, maxlen=4):
    spec = gen_spec(rng)
    k = rng.randint(1, maxlen)
    mode = " ".join(rng.choice(ALPHABET) for _ in range(k))
    return {"op": "mw.run", "stack": model_stack(spec), "spec": spec, "mode": mode, "return_ctx": rng.random() < 0.5,
            "forms": gen_forms(rng, spec["len"])}


def exhaustive_modes(rng, sample=None):
    """all modes of length <= 3 over the alphabet x every fused declaration, full implementation"""
    cases = []
    for k in (1, 2, 3):
        for combo in itertools.product(ALPHABET, repeat=k):
            for fused in FUSED_CHOICES:
                names = set()
                for f in fused:
                    names |= set(f) - {"index"}
                    names.add("".join(f))
                spec = {"base": list(LOADABLE), "records": {"x": "a", ("".join(fused[0]) if fused else "class"): "b"},
                        "layers": [{"fused": fused, "impl": sorted(names)}] if fused else [], "len": 2, "rpc": False}
                cases.append({"op": "mw.run", "stack": model_stack(spec), "spec": spec, "mode": " ".join(combo),
                              "return_ctx": (len(cases) % 2 == 0), "forms": [0, -1, 1, {"s": [None, None, -1]}, [1, 0]]})
    if sample is not None and sample < len(cases):
        rng.shuffle(cases)
        cases = cases[:sample]
    return cases


def strip_private(d):
    return {k: v for k, v in d.items() if not k.startswith("_")}


class C01(PropertyCheck):
    pid = "C01"
    claimed = True
    props_modules = ["KDVerif.Props.C01"]
    extra_build = ["KDVerif.Driver.ModeWrapper"]
    driver_main = "mains/ModeWrapper.lean"
    design_ref = "DESIGN.md 3 (C01)"
    anchored = ["kappadata/wrappers/mode_wrapper.py", "kappadata/wrappers/torch_wrapper.py", "kappadata/datasets/kd_dataset.py",
                "kappadata/datasets/kd_wrapper.py"]
    assumptions = ["per-item loaders are arbitrary functions of (index, per-sample ctx): represented by symbolic tags (loader, index, call#)",
                   "attribute resolution (hasattr on the type / through __getattr__ delegation) is supplied by the harness from the real objects"]
    trusted_extra = ["modelled by hand: ModeWrapper.__init__ (planner, assertions), __getitem__ (index forms, un-fusing, packaging, ctx), static helpers; "
                     "not modelled: what loaders compute"]
    level_text = ("Lean theorems (KDVerif.Props.C01) about the planner and __getitem__ model for all modes/fused declarations: every mode position is written, "
                  "the last writer of a position is the loader of that position's item (joint loader component in mode order for fused groups, one call), "
                  "end-to-end getitem_positions for every constructor-accepted wrapper, "
                  "packaging/ctx/negative/slice/list laws. Model tied to the real ModeWrapper over synthetic stacks of real KDDataset/KDWrapper classes by "
                  "differential correspondence (exhaustive modes up to length 3 x fused declarations + random), independent positional oracle.")
    level_note = "loaders are symbolic; __getattr__-based resolution is sampled through the harness's hasattr probes"

    def cases(self):
        ex = exhaustive_modes(self.rng, 1200 if self.tier == "quick" else None)
        n = 1500 if self.tier == "quick" else 20000
        rnd = [gen_case(self.rng, maxlen=4 if i % 4 else 8) for i in range(n)]
        return ex + rnd, len(ex)

    def correspond(self):
        res = CorrResult()
        cases, nex = self.cases()
        res.rule = (f"{nex} cases of the exhaustive sweep (all modes of length<=3 over {ALPHABET} x {len(FUSED_CHOICES)} fused declarations"
                    f"{'; sampled' if self.tier == 'quick' else '; complete'}) + seeded random stacks/modes up to length 8 with int/negative/slice/list/nested index forms; "
                    "distinct = (mode, fused declaration, return_ctx, ctor outcome)")
        res.exhaustive = self.tier == "thorough"
        reqs = [{k: v for k, v in c.items() if k != "spec"} for c in cases]
        answers = self.driver.run(reqs)
        for case, model in zip(cases, answers):
            real = run_real(case)
            res.cases += 1
            res.nontrivial.add((case["mode"], json.dumps(case["stack"]["fused"]), case["return_ctx"], real.get("ctor")))
            res.bump(f"ctor={real.get('ctor')}")
            res.bump(f"nitems={len(case['mode'].split(' '))}")
            res.bump(f"fused={len(case['stack']['fused'])}")
            if strip_private(real) != model:
                if len(res.disagreements) < 30:
                    res.disagreements.append(Disagreement({k: v for k, v in case.items() if k != "stack"}, model, strip_private(real)))
            f = oracle(case, real)
            if f is not None and (len(res.failures) < 5 or not any(g.key == f.key for g in res.failures)):
                res.failures.append(f)
            if len(res.samples) < 3 and real.get("ctor") == "ok" and case["stack"]["fused"] and len(case["mode"].split(" ")) > 1:
                res.samples.append({"mode": case["mode"], "fused": case["stack"]["fused"], "plan": real["plan"], "mw[0]": real["outs"][:1]})
        # static helpers
        sreqs = []
        for mode in ["x", "x class", "index x class", "class x class", "ctx.a x"]:
            for item in ["x", "class", "index", "y"]:
                sreqs.append({"op": "mw.static", "mode": mode, "item": item, "n": len(mode.split(" "))})
        sans = self.driver.run(sreqs)
        from kappadata.wrappers.mode_wrapper import ModeWrapper
        for rq, ans in zip(sreqs, sans):
            res.cases += 1
            res.bump("static")
            mode, item, n = rq["mode"], rq["item"], rq["n"]
            batch = tuple(range(n))
            real = {"has": ModeWrapper.has_item(mode=mode, item=item), "add": ModeWrapper.add_item(mode=mode, item=item)}
            try:
                real["idx"] = ModeWrapper.get_item_index(mode=mode, item=item)
                real["get"] = ModeWrapper.get_item(mode=mode, item=item, batch=batch if n > 1 else batch)
                real["set"] = list(ModeWrapper.set_item(mode=mode, item=item, batch=batch, value=99))
            except ValueError:
                real["idx"] = real["get"] = real["set"] = None
            if real != ans:
                res.disagreements.append(Disagreement(rq, ans, real, "static helper"))
        # TorchWrapper: item k of a tuple-returning torch dataset is component index(mode, k) of that dataset's sample
        self.torch_wrapper_leg(res)
        # Python slice semantics of the model vs CPython, exhaustive small scope
        vals = [None] + list(range(-6, 7))
        steps = [None, 1, 2, 3, -1, -2, -3]
        sl = []
        for n in range(0, 5):
            for a in vals:
                for b in vals:
                    for st in steps:
                        sl.append({"op": "mw.slice", "n": n, "s": [a, b, st]})
        if self.tier == "quick":
            self.rng.shuffle(sl)
            sl = sl[:1500]
        for rq, ans in zip(sl, self.driver.run(sl)):
            res.cases += 1
            res.bump("slice")
            real = list(range(rq["n"])[slice(*rq["s"])])
            if real != ans:
                res.disagreements.append(Disagreement(rq, ans, real, "slice semantics"))
        res.failures.sort(key=lambda f: len(json.dumps(f.input, default=str)))
        return res

    def torch_wrapper_leg(self, res):
        from torch.utils.data import Dataset
        from kappadata.wrappers.mode_wrapper import ModeWrapper
        from kappadata.wrappers.torch_wrapper import TorchWrapper

        class Tup(Dataset):
            def __init__(self, width, n):
                self.width, self.n = width, n

            def __len__(self):
                return self.n

            def __getitem__(self, i):
                return tuple(("v", c, i) for c in range(self.width))

        names = ["x", "class", "y", "z"]
        reqs, metas = [], []
        for width in (1, 2, 3, 4):
            inner_mode = " ".join(names[:width])
            for k in range(3 if self.tier == "quick" else 12):
                want = [self.rng.choice(names[:width] + ["index"]) for _ in range(self.rng.randint(1, 4))]
                n = self.rng.randint(1, 4)
                tw = TorchWrapper(Tup(width, n), mode=inner_mode)
                mw = ModeWrapper(tw, mode=" ".join(want), return_ctx=False)
                for i in range(-n, n):
                    got = mw[i]
                    got = [got] if len(want) == 1 else list(got)
                    ii = i + n if i < 0 else i
                    exp = [ii if w == "index" else ("v", inner_mode.split(" ").index(w), ii) for w in want]
                    res.cases += 1
                    res.bump("torchwrapper")
                    res.nontrivial.add(("tw", inner_mode, tuple(want), i))
                    if got != exp and not any(f.key == "torchwrapper:item" for f in res.failures):
                        res.failures.append(Failure("torchwrapper:item", f"TorchWrapper(mode='{inner_mode}') under mode '{' '.join(want)}' at {i}: "
                                                    "item is not component index(mode, item) of the dataset's sample",
                                                    {"inner_mode": inner_mode, "mode": want, "idx": i}, exp, got))
                    for w in want:
                        if w != "index":
                            reqs.append({"op": "mw.static", "mode": inner_mode, "item": w, "n": width})
                            metas.append((inner_mode, w, width))
        for (inner_mode, w, width), ans in zip(metas, self.driver.run(reqs)):
            if ans["get"] != inner_mode.split(" ").index(w):
                res.disagreements.append(Disagreement({"inner_mode": inner_mode, "item": w}, ans["get"], inner_mode.split(" ").index(w), "TorchWrapper component index"))
        # an item that is not in the wrapper's mode is rejected (assertion), not silently mis-addressed
        try:
            TorchWrapper(Tup(2, 2), mode="x class").getitem_y(0)
            res.failures.append(Failure("torchwrapper:reject", "TorchWrapper serves an item that is not in its mode", {"mode": "x class", "item": "y"}, "AssertionError", "value"))
        except AssertionError:
            pass

    def search(self, budget_s, hints):
        import time
        t0 = time.time()
        out = []
        for h in hints:
            if "spec" in h:
                f = oracle(h, run_real(h))
                if f:
                    out.append(f)
        rng = random.Random(self.seed + 5)
        while not out and time.time() - t0 < budget_s:
            c = gen_case(rng, maxlen=6)
            f = oracle(c, run_real(c))
            if f:
                out.append(f)
        return out

    def replay_input(self, inp):
        return oracle(inp, run_real(inp))
