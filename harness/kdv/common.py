"""Shared machinery of the KappaData verification harness.

Everything that is common to all property checks lives here:
  * running the Lean side (lake build, axiom audit, forbidden-token scan, JSON-lines driver)
  * evidence / replay writers, known-findings handling
  * the generic decision procedure of DESIGN.md section 2.1
"""
import fcntl
import hashlib
import json
import os
import random
import re
import shutil
import subprocess
import sys
import tempfile
import time
import traceback
from dataclasses import dataclass, field
from pathlib import Path

VERIF = Path(__file__).resolve().parents[2]
LEAN_DIR = VERIF / "lean"
REPO = Path(os.environ.get("KDV_REPO", "/repo"))
EVIDENCE_DIR = VERIF / "evidence"
REPLAY_DIR = VERIF / "replays"
CORPUS_DIR = VERIF / "corpus"
KNOWN_FINDINGS = VERIF / "known_findings.json"
ALLOWED_AXIOMS = {"propext", "Classical.choice", "Quot.sound"}
FORBIDDEN = re.compile(r"sorry|admit|^\s*axiom\s|native_decide|bv_decide|implemented_by|unsafe\s|maxHeartbeats\s+0\b")

GLOBAL_TRUSTED_BASE = [
    "Lean 4.33.0 kernel; axioms limited to propext, Classical.choice, Quot.sound (audited per theorem on every run)",
    "no sorry/admit/native_decide/bv_decide/own axioms (source scan on every run)",
    "hand-written Lean model tied to /repo by the differential correspondence of this run (harness/kdv, Python, unverified)",
    "CPython 3.12 / numpy / torch semantics of the primitives named in assumptions",
]


class Infra(Exception):
    """infrastructure failure -> exit 2, never a violation"""


def seed_from_env():
    try:
        return int(os.environ.get("VERIF_SEED", "0"))
    except ValueError:
        return 0


def sha256_file(p):
    try:
        return hashlib.sha256(Path(p).read_bytes()).hexdigest()
    except OSError:
        return None


# ----------------------------------------------------------------------------------------------
# Lean side
# ----------------------------------------------------------------------------------------------
class _Lock:
    def __init__(self, name="lake"):
        self.path = LEAN_DIR / f".{name}.lock"

    def __enter__(self):
        self.f = open(self.path, "w")
        fcntl.flock(self.f, fcntl.LOCK_EX)
        return self

    def __exit__(self, *a):
        fcntl.flock(self.f, fcntl.LOCK_UN)
        self.f.close()


def lake_build(targets, timeout=3000):
    """returns (ok, output)"""
    with _Lock():
        p = subprocess.run(["lake", "build", *targets], cwd=LEAN_DIR, capture_output=True, text=True, timeout=timeout)
    return p.returncode == 0, (p.stdout + p.stderr)


def strip_comments(src):
    # remove /- ... -/ (nested) and -- ... comments
    out = []
    i, depth, n = 0, 0, len(src)
    while i < n:
        if src.startswith("/-", i):
            depth += 1
            i += 2
        elif depth and src.startswith("-/", i):
            depth -= 1
            i += 2
        elif depth:
            if src[i] == "\n":
                out.append("\n")
            i += 1
        elif src.startswith("--", i):
            while i < n and src[i] != "\n":
                i += 1
        else:
            out.append(src[i])
            i += 1
    return "".join(out)


def module_path(mod):
    return LEAN_DIR / (mod.replace(".", "/") + ".lean")


def import_closure(mods):
    """transitive closure of KDVerif.* imports (source files of this project only)"""
    seen, todo = [], list(mods)
    while todo:
        m = todo.pop()
        if m in seen:
            continue
        p = module_path(m)
        if not p.exists():
            continue
        seen.append(m)
        for line in p.read_text().splitlines():
            mm = re.match(r"\s*import\s+(KDVerif[\w.]*)", line)
            if mm:
                todo.append(mm.group(1))
    return seen


def forbidden_scan(mods):
    hits = []
    for m in import_closure(mods):
        src = strip_comments(module_path(m).read_text())
        for ln, line in enumerate(src.splitlines(), 1):
            if FORBIDDEN.search(line):
                hits.append(f"{m}:{ln}: {line.strip()[:100]}")
    return hits


def theorems_of(mod):
    """fully-qualified names of the theorems declared in a Props module"""
    src = strip_comments(module_path(mod).read_text())
    ns = []
    names = []
    for line in src.splitlines():
        m = re.match(r"\s*namespace\s+([\w.]+)", line)
        if m:
            ns.append(m.group(1))
            continue
        m = re.match(r"\s*end\s+([\w.]+)\s*$", line)
        if m and ns and ns[-1] == m.group(1):
            ns.pop()
            continue
        m = re.match(r"\s*(?:private\s+|protected\s+)?theorem\s+([\w.']+)", line)
        if m:
            names.append(".".join(ns + [m.group(1)]))
    return names


def axiom_audit(props_mods, extra_theorems=()):
    """runs `#print axioms` on every theorem of the given Props modules.
    returns dict theorem -> list of axioms (or None when lean could not elaborate it)"""
    thms = []
    for m in props_mods:
        thms += theorems_of(m)
    thms += list(extra_theorems)
    if not thms:
        return {}
    audit = LEAN_DIR / ".lake" / f"audit_{os.getpid()}.lean"
    audit.parent.mkdir(exist_ok=True)
    lines = [f"import {m}" for m in props_mods]
    for t in thms:
        lines.append(f'#print axioms {t}')
    audit.write_text("\n".join(lines) + "\n")
    try:
        p = subprocess.run(["lake", "env", "lean", str(audit)], cwd=LEAN_DIR, capture_output=True, text=True, timeout=1200)
    finally:
        try:
            audit.unlink()
        except OSError:
            pass
    out = p.stdout + p.stderr
    res = {t: None for t in thms}
    # messages: "'name' depends on axioms: [a, b]" or "'name' does not depend on any axioms"
    for m in re.finditer(r"'([^']+)' depends on axioms:\s*\[([^\]]*)\]", out, flags=re.S):
        res[m.group(1)] = [a.strip() for a in m.group(2).replace("\n", " ").split(",") if a.strip()]
    for m in re.finditer(r"'([^']+)' does not depend on any axioms", out):
        res[m.group(1)] = []
    return res


class LeanDriver:
    """feeds JSON requests to `lake env lean --run mains/<Group>.lean` and returns the answers"""

    def __init__(self, main="mains/Interleaved.lean"):
        self.n_lines = 0
        self.main = main

    def run(self, requests, timeout=3000):
        if not requests:
            return []
        data = "\n".join(json.dumps(r, separators=(",", ":")) for r in requests) + "\n"
        p = subprocess.run(["lake", "env", "lean", "--run", self.main], cwd=LEAN_DIR, input=data,
                           capture_output=True, text=True, timeout=timeout)
        lines = [l for l in p.stdout.splitlines() if l.strip()]
        if p.returncode != 0 or len(lines) != len(requests):
            raise Infra(f"lean driver failed rc={p.returncode} got {len(lines)}/{len(requests)} answers: {p.stderr[-2000:]}")
        self.n_lines += len(requests)
        return [json.loads(l) for l in lines]


# ----------------------------------------------------------------------------------------------
# Results
# ----------------------------------------------------------------------------------------------
@dataclass
class Failure:
    """a concrete failing input of the property on the implementation"""
    key: str            # identifies the call site / input family (matched against known_findings.json)
    what: str           # one line
    input: dict         # replayable input
    expected: object = None
    actual: object = None


@dataclass
class Disagreement:
    """model and implementation differ on an input (not yet a violation)"""
    case: dict
    model: object
    impl: object
    note: str = ""


@dataclass
class CorrResult:
    cases: int = 0
    nontrivial: set = field(default_factory=set)
    histogram: dict = field(default_factory=dict)
    disagreements: list = field(default_factory=list)
    failures: list = field(default_factory=list)       # oracle failures found on correspondence inputs
    samples: list = field(default_factory=list)
    observations: list = field(default_factory=list)   # out-of-claim observations, never violations
    exhaustive: bool = False
    rule: str = ""

    def bump(self, key, n=1):
        self.histogram[key] = self.histogram.get(key, 0) + n


def load_known():
    if not KNOWN_FINDINGS.exists():
        return []
    return json.loads(KNOWN_FINDINGS.read_text()).get("findings", [])


def write_replay(prop, payload):
    REPLAY_DIR.mkdir(exist_ok=True)
    blob = json.dumps(payload, sort_keys=True, default=str)
    h = hashlib.sha256(blob.encode()).hexdigest()[:12]
    p = REPLAY_DIR / f"{prop}-{h}.json"
    p.write_text(json.dumps(payload, indent=1, sort_keys=True, default=str))
    return p.relative_to(VERIF)


def jsonable(x, depth=0):
    try:
        json.dumps(x)
        return x
    except TypeError:
        if isinstance(x, dict):
            return {str(k): jsonable(v, depth + 1) for k, v in x.items()}
        if isinstance(x, (list, tuple, set)):
            return [jsonable(v, depth + 1) for v in x]
        return repr(x)


# ----------------------------------------------------------------------------------------------
# generic check procedure
# ----------------------------------------------------------------------------------------------
_COV = {"cov": None, "dir": None}


def dump_child_coverage():
    """called by a forked child of the harness right before os._exit: hands the lines it executed back to the parent"""
    cov, d = _COV.get("cov"), _COV.get("dir")
    if cov is None or d is None:
        return
    try:
        cov.stop()
        data = cov.get_data()
        out = {f: sorted(data.lines(f) or []) for f in data.measured_files()}
        with open(os.path.join(d, f"{os.getpid()}.json"), "w") as fh:
            json.dump(out, fh)
    except Exception:
        pass


def _collect_child_coverage():
    d, side = _COV.get("dir"), {}
    if d and os.path.isdir(d):
        for n in os.listdir(d):
            try:
                for f, ls in json.load(open(os.path.join(d, n))).items():
                    side.setdefault(f, set()).update(ls)
            except Exception:
                pass
        shutil.rmtree(d, ignore_errors=True)
    _COV["dir"] = None
    return side


def function_body_lines(path):
    """line numbers that belong to the body of some function (not the def/decorator lines, not class/module level)"""
    import ast
    lines = set()
    try:
        tree = ast.parse(Path(path).read_text())
    except Exception:
        return lines
    for n in ast.walk(tree):
        if isinstance(n, (ast.FunctionDef, ast.AsyncFunctionDef)):
            for st in n.body:
                lines.update(range(st.lineno, (st.end_lineno or st.lineno) + 1))
    return lines


class PropertyCheck:
    """Subclass per property. Override the class attributes and `correspond`, `search`, `replay`."""
    pid = "C00"
    props_modules = []          # Lean modules holding the property theorems
    extra_build = []            # further lake targets (driver module of the group)
    driver_main = "mains/Interleaved.lean"   # lean file with `main` for the group's line protocol
    anchored = []               # repo files (relative) whose hashes go into the evidence
    assumptions = []
    trusted_extra = []
    technique = "Lean 4 proof over hand model + differential correspondence"
    claimed = False             # set True once the check is reviewed: only then it is listed in MANIFEST.checks
    level_text = ""
    level_note = ""
    design_ref = "DESIGN.md section 3"

    def __init__(self, tier, seed):
        self.tier = tier
        self.seed = seed
        self.rng = random.Random(f"{self.pid}:{seed}")
        self.driver = LeanDriver(self.driver_main)
        self.t0 = time.time()

    # ---- hooks -------------------------------------------------------------------------------
    def generate(self):
        """regenerate Gen/*.lean from /repo; return list of (name, changed) or []"""
        return []

    def correspond(self) -> CorrResult:
        raise NotImplementedError

    def search(self, budget_s, hints) -> list:
        """failing-input search on the implementation (independent oracle); returns [Failure]"""
        return []

    def replay_known(self, finding) -> bool:
        """re-run a known finding on the implementation; True if it still fails"""
        return False

    # ---- procedure ---------------------------------------------------------------------------
    def run(self):
        pid = self.pid
        broken = []      # names of obligations / correspondence cases that no longer check
        gen_info = self.generate()
        # 1. prove (property theorems) and build the driver (separately: a failing obligation must not
        #    prevent the correspondence / dynamic probe from running)
        drv_ok, drv_out = (True, "")
        if self.extra_build:
            drv_ok, drv_out = lake_build(list(self.extra_build))
            if not drv_ok:
                broken.append({"kind": "lake build (driver/model)", "detail": re.findall(r"error: ([^\n]*)", drv_out)[:10]})
        ok, out = lake_build(list(self.props_modules))
        build_err = None
        if not ok:
            build_err = out[-6000:]
            errs = re.findall(r"error: ([^\n]*)", out)
            broken.append({"kind": "lake build (theorems)", "detail": errs[:10]})
        thm_axioms = {}
        n_obl = 0
        n_dis = 0
        if ok:
            thm_axioms = axiom_audit(self.props_modules)
            n_obl = len(thm_axioms)
            for t, ax in thm_axioms.items():
                if ax is None:
                    broken.append({"kind": "theorem not found / not elaborated", "detail": t})
                elif not set(ax) <= ALLOWED_AXIOMS:
                    broken.append({"kind": "inadmissible axioms", "detail": f"{t}: {ax}"})
                else:
                    n_dis += 1
            hits = forbidden_scan(self.props_modules)
            if hits:
                broken.append({"kind": "forbidden token", "detail": hits[:10]})
            if self.tier == "thorough":
                # independent re-check of the compiled modules by the toolchain's kernel re-checker
                try:
                    pc = subprocess.run(["lake", "env", "leanchecker", *self.props_modules], cwd=LEAN_DIR, capture_output=True,
                                        text=True, timeout=3000)
                    self.leanchecker = {"rc": pc.returncode, "tail": (pc.stdout + pc.stderr)[-500:]}
                    if pc.returncode != 0:
                        broken.append({"kind": "leanchecker rejects a compiled module", "detail": self.leanchecker["tail"]})
                except FileNotFoundError:
                    self.leanchecker = {"rc": None, "tail": "leanchecker not found"}
        else:
            # count obligations from source so the evidence still says what was expected
            for m in self.props_modules:
                try:
                    n_obl += len(theorems_of(m))
                except OSError:
                    pass
        # 2. correspond
        corr = CorrResult()
        corr_err = None
        cov = None
        if drv_ok:
            try:
                import coverage as _coverage
                cov = _coverage.Coverage(include=[str(REPO / f) for f in self.anchored if "*" not in f], branch=True, data_file=None)
                cov.set_option("run:disable_warnings", ["no-data-collected"])
                cov.start()
                _COV["cov"], _COV["dir"] = cov, tempfile.mkdtemp(prefix="kdv_cov_")
            except Exception:
                cov = None
        if drv_ok:
            try:
                corr = self.correspond()
            except Infra:
                raise
            except Exception as e:  # harness crashed on changed code: treat as broken correspondence
                corr_err = traceback.format_exc()[-4000:]
                broken.append({"kind": "correspondence harness exception", "detail": f"{type(e).__name__}: {e}"})
        self.code_coverage = None
        if cov is not None:
            try:
                cov.stop()
                side = _collect_child_coverage()
                cc = {}
                for f in self.anchored:
                    if "*" in f:
                        continue
                    try:
                        _, stmts, _, missing, _ = cov.analysis2(str(REPO / f))
                        missing = [l for l in missing if l not in side.get(str(REPO / f), ())]
                        body = function_body_lines(REPO / f)
                        bstm = [l for l in stmts if l in body]
                        bmis = [l for l in missing if l in body]
                        cc[f] = {"statements": len(stmts), "executed": len(stmts) - len(missing),
                                 "function_body_statements": len(bstm), "function_body_executed": len(bstm) - len(bmis),
                                 "function_body_missing_lines": bmis[:40]}
                    except Exception as e:
                        cc[f] = {"error": str(e)[:80]}
                self.code_coverage = cc
                _COV["cov"] = None
            except Exception:
                pass
        for d in corr.disagreements[:20]:
            broken.append({"kind": "correspondence disagreement", "detail": jsonable(d.case), "model": jsonable(d.model),
                           "impl": jsonable(d.impl), "note": d.note})
        failures = list(corr.failures)
        # 3. search when something is broken
        searched = False
        if broken and not failures:
            searched = True
            try:
                failures += self.search(20 if self.tier == "quick" else 300, [d.case for d in corr.disagreements])
            except Infra:
                raise
            except Exception as e:
                broken.append({"kind": "search exception", "detail": f"{type(e).__name__}: {e}"})
        # 4. known findings
        known = [k for k in load_known() if k.get("property") == pid and k.get("status") == "known"]
        known_keys = {k["key"] for k in known}
        known_lines = []
        for k in known:
            try:
                still = self.replay_known(k)
            except Exception:
                still = True
            if still:
                known_lines.append(f"KNOWN-FINDING: property={pid} {k['what']}")
        new_failures = [f for f in failures if f.key not in known_keys]
        # a disagreement/broken obligation explained entirely by known findings is not a new violation
        unexplained = [b for b in broken if not self._explained_by_known(b, known_keys, failures)]
        violations = []
        for f in new_failures[:5]:
            path = write_replay(pid, {"property": pid, "kind": "counterexample", "key": f.key, "what": f.what,
                                      "input": jsonable(f.input), "expected": jsonable(f.expected), "actual": jsonable(f.actual),
                                      "how_to_run": f"bin/replay {pid} <this file>", "broken": jsonable(broken[:5])})
            violations.append(f"VIOLATION property={pid} replay={path}")
        if not new_failures and unexplained:
            path = write_replay(pid, {"property": pid, "kind": "unproved", "broken": jsonable(unexplained[:10]),
                                      "build_output_tail": build_err, "harness_trace": corr_err,
                                      "searched": searched,
                                      "note": "a proof obligation or the model/implementation correspondence no longer checks; "
                                              "the failing-input search found no concrete counterexample"})
            violations.append(f"VIOLATION property={pid} replay={path} no-failing-input-found")
        # 5. evidence
        wall = time.time() - self.t0
        ev = {
            "property_id": pid, "tier": self.tier, "seed": self.seed, "level": "proof",
            "coverage": {
                "obligations": max(n_obl, 1), "discharged": n_dis,
                "checker_cmd": f"cd lean && lake build {' '.join(self.props_modules)} && lake env lean <audit: #print axioms of every theorem in {' '.join(self.props_modules)}>",
                "trusted_base": GLOBAL_TRUSTED_BASE + list(self.trusted_extra),
                "theorems": {t: ax for t, ax in thm_axioms.items()},
                "generated": jsonable(gen_info),
                "evaluations": corr.cases, "distinct_nontrivial": len(corr.nontrivial),
                "rule": corr.rule, "samples": jsonable(corr.samples[:5]) or ["(no correspondence cases ran)"],
                "exhaustive": corr.exhaustive,
                "correspondence": {"cases": corr.cases, "histogram": corr.histogram,
                                   "disagreements": len(corr.disagreements), "driver_lines": self.driver.n_lines,
                                   "observations_out_of_claim": jsonable(corr.observations[:20])},
                "broken": jsonable(broken[:10]),
                "source_sha256": {f: sha256_file(REPO / f) for f in self.anchored},
                "known_findings_replayed": known_lines,
                "technique": self.technique,
                "leanchecker": getattr(self, "leanchecker", None),
                "anchored_code_executed_by_correspondence": getattr(self, "code_coverage", None),
                "anchored_code_executed_note": "statement coverage of the anchored repo files measured around the correspondence only; `function_body_*` "
                                               "counts only statements inside function bodies (module/class-level statements run at import time, before the "
                                               "measurement); forked children of the harness hand their executed lines back before they exit, code run in "
                                               "other child processes (DataLoader workers, strace legs) counts as missing",
            },
            "assumptions": list(self.assumptions),
            "wall_s": round(wall, 2),
            "violations": len(violations),
        }
        EVIDENCE_DIR.mkdir(exist_ok=True)
        (EVIDENCE_DIR / f"{pid}.json").write_text(json.dumps(ev, indent=1, default=str))
        for l in known_lines:
            print(l)
        for v in violations:
            print(v)
        print(f"[{pid}] tier={self.tier} seed={self.seed} obligations={n_obl} discharged={n_dis} "
              f"corr_cases={corr.cases} disagreements={len(corr.disagreements)} failures={len(failures)} "
              f"violations={len(violations)} wall={wall:.1f}s")
        return 1 if violations else 0

    def _explained_by_known(self, b, known_keys, failures):
        if b.get("kind") != "correspondence disagreement":
            return False
        # a disagreement is explained when the oracle failure on the same input is a known one
        return False


def main_for(cls_by_pid):
    if len(sys.argv) < 3:
        print("usage: check <Cxx> <quick|thorough>")
        return 2
    pid, tier = sys.argv[1], sys.argv[2]
    tier = os.environ.get("VERIF_TIER", tier)
    if tier not in ("quick", "thorough"):
        tier = "quick"
    cls = cls_by_pid.get(pid)
    if cls is None:
        print(f"no check for {pid}")
        return 2
    try:
        return cls(tier, seed_from_env()).run()
    except Infra as e:
        print(f"INFRASTRUCTURE: {e}", file=sys.stderr)
        return 2
    except subprocess.TimeoutExpired as e:
        print(f"INFRASTRUCTURE: timeout {e}", file=sys.stderr)
        return 2
