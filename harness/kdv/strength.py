"""C15 — strength scaling and scheduled transforms: exact correspondence on dyadic rationals + independent oracle."""
import copy
import json
import random
from fractions import Fraction as Fr

from .common import CorrResult, Disagreement, Failure, PropertyCheck


def fr(x):
    return Fr(x) if not isinstance(x, Fr) else x


def rat(x):
    f = fr(x)
    return [f.numerator, f.denominator]


def dy(rng, lo, hi, den=64):
    """dyadic rational in [lo, hi] as float (exact)"""
    a, b = int(lo * den), int(hi * den)
    return rng.randint(a, b) / den


# ----------------------------------------------------------------------------------------------
# real object -> model tree
# ----------------------------------------------------------------------------------------------
class Unmodelled(Exception):
    pass


def to_model(t):
    import kappadata.transforms as T
    from kappadata.transforms.base.kd_transform import KDTransform
    from kappadata.transforms.kd_random_rotation import KDRandomRotation
    if not isinstance(t, KDTransform):
        return {"k": "other"}
    if isinstance(t, T.KDColorJitter):
        def rg(name):
            if getattr(t, f"{name}_lb") is None:
                return None
            return [rat(getattr(t, f"og_{name}_lb")), rat(getattr(t, f"og_{name}_ub")), rat(getattr(t, f"{name}_lb")), rat(getattr(t, f"{name}_ub"))]
        return {"k": "jitter", "b": rg("brightness"), "c": rg("contrast"), "s": rg("saturation"), "h": rg("hue")}
    if isinstance(t, (T.KDGaussianBlurPIL, T.KDGaussianBlurTV)):
        return {"k": "blur", "v": [rat(t.sigma_lb), rat(t.og_sigma_ub), rat(t.sigma_ub)]}
    if isinstance(t, T.KDSolarize):
        if isinstance(t.og_threshold, int):
            return {"k": "solI", "og": t.og_threshold, "cur": int(t.threshold)}
        return {"k": "solF", "v": [rat(t.og_threshold), rat(t.threshold)]}
    if isinstance(t, T.KDRandomGrayscale):
        return {"k": "gray", "v": [rat(t.og_p), rat(t.p)]}
    if isinstance(t, KDRandomRotation):
        return {"k": "rot", "v": [rat(t.og_degree_lb), rat(t.og_degree_ub), rat(t.degree_lb), rat(t.degree_ub)]}
    if hasattr(t, "magnitude_sampler") and type(t)._scale_strength is not KDTransform._scale_strength:
        m = t.magnitude_sampler
        def z(v):
            return 0 if v == float("inf") or v != v else v
        return {"k": "mag", "v": [rat(m.og_magnitude), rat(z(m.og_magnitude_std)), rat(m.og_magnitude_min), rat(m.og_magnitude_max),
                                  rat(m.magnitude), rat(z(m.magnitude_std)), rat(m.magnitude_min), rat(m.magnitude_max)]}
    for attr in ("color_jitter", "gaussian_blur", "solarize", "threshold", "noise"):
        inner = vars(t).get(attr)
        if isinstance(inner, KDTransform) and type(t)._scale_strength is not KDTransform._scale_strength:
            return {"k": "wrap", "t": to_model(inner)}
    if isinstance(t, T.KDComposeTransform):
        return {"k": "compose", "ts": [to_model(c) for c in t.transforms]}
    if type(t).supports_scale_strength():
        raise Unmodelled(type(t).__name__)
    return {"k": "other"}


# ----------------------------------------------------------------------------------------------
# recipes with dyadic parameters
# ----------------------------------------------------------------------------------------------
def leaf_recipes(rng):
    import kappadata.transforms as T
    from kappadata.transforms.kd_random_rotation import KDRandomRotation
    R = []

    def jitter():
        t = T.KDColorJitter(brightness=0.4, contrast=0.4, saturation=0.2, hue=0.1)
        for name in ("brightness", "contrast", "saturation"):
            lb, ub = dy(rng, 0, 1), dy(rng, 1, 2)
            setattr(t, f"og_{name}_lb", lb); setattr(t, f"{name}_lb", lb)
            setattr(t, f"og_{name}_ub", ub); setattr(t, f"{name}_ub", ub)
        lb, ub = -dy(rng, 0, 0.5), dy(rng, 0, 0.5)
        t.og_hue_lb = t.hue_lb = lb
        t.og_hue_ub = t.hue_ub = ub
        return t

    def jitter_partial():
        t = T.KDColorJitter(brightness=0.5, contrast=0, saturation=0, hue=0)
        lb, ub = dy(rng, 0, 1), dy(rng, 1, 2)
        t.og_brightness_lb = t.brightness_lb = lb
        t.og_brightness_ub = t.brightness_ub = ub
        return t

    def blur(cls, **kw):
        t = cls(sigma=(0.5, 2.0), **kw)
        lb = dy(rng, 0, 1)
        ub = lb + dy(rng, 0, 2)
        t.sigma_lb = lb
        t.og_sigma_ub = t.sigma_ub = ub
        return t

    R.append(("jitter", jitter))
    R.append(("jitter-partial", jitter_partial))
    R.append(("blur-pil", lambda: blur(T.KDGaussianBlurPIL)))
    R.append(("blur-tv", lambda: blur(T.KDGaussianBlurTV, kernel_size=3)))
    R.append(("solarize-int", lambda: T.KDSolarize(threshold=rng.randint(0, 256))))
    R.append(("solarize-float", lambda: T.KDSolarize(threshold=dy(rng, 0, 1))))
    R.append(("grayscale", lambda: T.KDRandomGrayscale(p=dy(rng, 0, 1))))
    R.append(("rotation", lambda: KDRandomRotation(degrees=rng.randint(0, 180))))
    R.append(("threshold", lambda: T.KDThreshold(threshold=dy(rng, 0.25, 0.75), threshold_std=dy(rng, 0, 0.25),
                                                 threshold_min=0.0, threshold_max=1.0)))
    R.append(("gauss-noise", lambda: T.KDAdditiveGaussianNoise(std=0.5, magnitude=dy(rng, 0.5, 1), magnitude_std=dy(rng, 0.25, 0.5),
                                                                magnitude_min=dy(rng, 0, 0.5), magnitude_max=1.0)))
    R.append(("uniform-noise", lambda: T.KDAdditiveUniformNoise(magnitude=dy(rng, 0.5, 1))))
    R.append(("randaug", lambda: T.KDRandAugment(num_ops=2, magnitude=5, fill_color=[0, 0, 0], interpolation="bilinear", magnitude_std=1.25)))
    R.append(("rnd-jitter", lambda: T.KDRandomColorJitter(p=0.8, brightness=0.5, contrast=0.25, saturation=0.5, hue=0.25)))
    R.append(("rnd-blur-pil", lambda: T.KDRandomGaussianBlurPIL(p=0.5, sigma=(0.5, 2.0))))
    R.append(("rnd-blur-tv", lambda: T.KDRandomGaussianBlurTV(p=0.5, kernel_size=3, sigma=(0.5, 2.0))))
    R.append(("rnd-solarize", lambda: T.KDRandomSolarize(p=0.5, threshold=rng.randint(0, 256))))
    R.append(("rnd-threshold", lambda: T.KDRandomThreshold(p=0.5, threshold=0.5, threshold_std=0.25)))
    R.append(("rnd-noise", lambda: T.KDRandomAdditiveGaussianNoise(p=0.5, std=0.5, magnitude=0.75, magnitude_std=0.25)))
    R.append(("crop(no-strength)", lambda: T.KDRandomCrop(size=8)))
    return R


def gen_tree(rng, leaves, depth):
    import kappadata.transforms as T
    if depth == 0 or rng.random() < 0.4:
        label, thunk = rng.choice(leaves)
        return label, thunk()
    kids = [gen_tree(rng, leaves, depth - 1) for _ in range(rng.randint(1, 3))]
    return "compose[" + ",".join(k[0] for k in kids) + "]", T.KDComposeTransform([k[1] for k in kids])


def _subnodes(t):
    """all transforms strictly below `t` (members of compositions, wrapped transforms), outermost first"""
    out = []
    kids = []
    for attr in ("transforms",):
        v = getattr(t, attr, None)
        if isinstance(v, (list, tuple)):
            kids += list(v)
    v = getattr(t, "transform", None)
    if v is not None and hasattr(v, "scale_strength"):
        kids.append(v)
    for k in kids:
        out.append(k)
        out += _subnodes(k)
    return out


def strip_og_cur(m):
    """(og-part, current-part) views of a model tree for the oracle"""
    return m


def current_state(m):
    """the sampled-range state (current fields only)"""
    k = m["k"]
    if k == "jitter":
        return ["jitter"] + [None if m[x] is None else m[x][2:] for x in "bcsh"]
    if k == "blur":
        return ["blur", m["v"][0], m["v"][2]]
    if k == "solF":
        return ["solF", m["v"][1]]
    if k == "solI":
        return ["solI", m["cur"]]
    if k == "gray":
        return ["gray", m["v"][1]]
    if k == "rot":
        return ["rot"] + m["v"][2:]
    if k == "mag":
        return ["mag"] + m["v"][4:]
    if k == "wrap":
        return ["wrap", current_state(m["t"])]
    if k == "compose":
        return ["compose"] + [current_state(t) for t in m["ts"]]
    return ["other"]


def weakest_state(m):
    """what the property promises for factor 0"""
    k = m["k"]
    one, zero = [1, 1], [0, 1]
    if k == "jitter":
        return ["jitter"] + [None if m[x] is None else ([one, one] if x != "h" else [zero, zero]) for x in "bcsh"]
    if k == "blur":
        return ["blur", m["v"][0], m["v"][0]]
    if k == "solF":
        return ["solF", one]
    if k == "solI":
        return ["solI", 256]
    if k == "gray":
        return ["gray", zero]
    if k == "rot":
        return ["rot", zero, zero]
    if k == "mag":
        return ["mag", zero, zero, zero, zero]
    if k == "wrap":
        return ["wrap", weakest_state(m["t"])]
    if k == "compose":
        return ["compose"] + [weakest_state(t) for t in m["ts"]]
    return ["other"]


def leq_state(a, b, c):
    """every scalar of state b lies between the corresponding scalars of a and c (monotone interpolation)"""
    if isinstance(b, list) and len(b) == 2 and all(isinstance(x, int) for x in b) and isinstance(a, list) and len(a) == 2:
        fa, fb, fc = Fr(*a), Fr(*b), Fr(*c)
        return min(fa, fc) <= fb <= max(fa, fc)
    if isinstance(b, int) and not isinstance(b, bool):
        return min(a, c) <= b <= max(a, c)
    if isinstance(b, list):
        return len(a) == len(b) == len(c) and all(leq_state(x, y, z) for x, y, z in zip(a, b, c))
    return a == b == c


class C15(PropertyCheck):
    pid = "C15"
    claimed = True
    props_modules = ["KDVerif.Props.C15"]
    extra_build = ["KDVerif.Driver.Strength"]
    driver_main = "mains/Strength.lean"
    design_ref = "DESIGN.md 3 (C15)"
    anchored = ["kappadata/transforms/base/kd_transform.py", "kappadata/transforms/base/kd_scheduled_transform.py",
                "kappadata/transforms/base/kd_compose_transform.py", "kappadata/utils/magnitude_sampler.py",
                "kappadata/transforms/kd_color_jitter.py", "kappadata/transforms/kd_gaussian_blur_pil.py",
                "kappadata/transforms/kd_gaussian_blur_tv.py", "kappadata/transforms/kd_solarize.py",
                "kappadata/transforms/kd_random_grayscale.py", "kappadata/transforms/kd_random_rotation.py",
                "kappadata/transforms/kd_rand_augment.py"]
    assumptions = ["formulas are evaluated over exact rationals in the model; the correspondence uses dyadic parameters/factors so that the "
                   "float evaluation of the real code is exact",
                   "torchvision's parameter preprocessing yields 0 <= lb <= 1 <= ub (brightness/contrast/saturation), -0.5 <= hue_lb <= 0 <= hue_ub <= 0.5, "
                   "sigma_lb <= sigma_ub",
                   "the dataloader hands global batch b to worker b % num_workers in order, full batches only (property's stated domain)",
                   "the schedule object (kappaschedules) is a function of (batch index, number of batches)"]
    trusted_extra = ["modelled by hand: _scale_strength of KDColorJitter, KDGaussianBlurPIL/TV, KDSolarize, KDRandomGrayscale, KDRandomRotation, "
                     "MagnitudeSampler and the delegating wrappers / KDComposeTransform; KDScheduledTransform batch index arithmetic",
                     "not modelled: what the scaled transforms do to pixels; the schedule's values"]
    level_text = ("Lean theorems (KDVerif.Props.C15) for all parameter values: scale 1 = constructed ranges, scale 0 = weakest setting, both bounds monotone in the "
                  "factor and inside [identity, constructed], only the last factor counts through any nesting (scale_last_only over transform trees), and "
                  "scheduled_batch_index: worker b%W computes batch index b for every sample of global batch b, for all W, B. Exact correspondence with the real "
                  "_scale_strength on dyadic rationals over random trees and factor sequences; simulated workers for the scheduled transform.")
    level_note = "float rounding of the formulas for non-dyadic parameters is not covered by the theorems; partial final batches are outside the claim"

    # ---- scale correspondence + oracle -------------------------------------------------------
    def one_case(self, rng, leaves, depth):
        label, t = gen_tree(rng, leaves, depth)
        nf = rng.randint(1, 4)
        factors = [rng.choice([0, 1, rng.randint(0, 32) / 32]) for _ in range(nf)]
        return label, t, factors

    def correspond(self):
        res = CorrResult()
        res.rule = ("random transform trees (leaves = every class with strength support, dyadic parameters; composed up to depth 3) x factor sequences of length 1-4 "
                    "from {0, 1, k/32}: state after every factor compared exactly (rationals) with the Lean model; oracle: scale(1)=constructed, scale(0)=weakest, "
                    "monotone, last-factor-only; scheduled: simulated workers W in 1..5, B in 1..4; distinct = (tree shape, factors)")
        rng = self.rng
        leaves = leaf_recipes(rng)
        n = 250 if self.tier == "quick" else 4000
        reqs, metas = [], []
        for i in range(n):
            try:
                label, t, factors = self.one_case(rng, leaves, depth=0 if i < len(leaves) * 2 else rng.randint(1, 3))
                if i < len(leaves) * 2:
                    label, thunk = leaves[i % len(leaves)]
                    t = thunk()
                m0 = to_model(t)
            except Unmodelled as e:
                res.disagreements.append(Disagreement({"class": str(e)}, "no model", "supports_scale_strength", "class with strength support is not modelled"))
                continue
            reqs.append({"op": "st.scale", "t": m0, "factors": [rat(f) for f in factors]})
            metas.append((label, t, m0, factors))
        answers = self.driver.run(reqs)
        for (label, t, m0, factors), ans in zip(metas, answers):
            res.cases += 1
            res.bump("scale")
            res.bump(f"nfactors={len(factors)}")
            res.nontrivial.add((label, tuple(factors)))
            case = {"tree": label, "factors": [str(fr(f)) for f in factors], "model_in": m0}
            states = []
            asserted = False
            for f in factors:
                try:
                    t.scale_strength(f)
                    states.append(to_model(t))
                except AssertionError:
                    asserted = True
                    states.append("assert")
                    break
            model_states = ans if not isinstance(ans, dict) else [ans]
            if asserted:
                k = len(states) - 1
                if model_states[k] != "assert":
                    res.disagreements.append(Disagreement(case, model_states[k], "assert", "implementation asserts, model does not"))
                continue
            if states != model_states:
                k = next((i for i in range(len(states)) if states[i] != model_states[i]), 0)
                res.disagreements.append(Disagreement(dict(case, step=k), model_states[k], states[k], "state after scale_strength differs"))
            if len(res.samples) < 3 and m0["k"] == "compose":
                res.samples.append({"tree": label, "factors": [str(fr(f)) for f in factors], "state_after_last": states[-1]})
        # independent oracle on fresh instances
        for i in range(n):
            label, thunk = leaves[i % len(leaves)] if i < 3 * len(leaves) else (None, None)
            try:
                if thunk is None:
                    label, t = gen_tree(rng, leaves, rng.randint(1, 2))
                else:
                    t = thunk()
                f = self.oracle(label, t, rng)
            except Unmodelled:
                continue
            res.cases += 1
            res.bump("oracle")
            if f is not None and not any(g.key == f.key for g in res.failures):
                res.failures.append(f)
        self.scheduled(res)
        return res

    def oracle(self, label, t, rng):
        t0 = copy.deepcopy(t)
        constructed = current_state(to_model(t0))
        weakest = weakest_state(to_model(t0))
        f1, f2 = sorted([rng.randint(0, 32) / 32, rng.randint(0, 32) / 32])
        inp = {"tree": label, "f1": str(fr(f1)), "f2": str(fr(f2))}
        try:
            a = copy.deepcopy(t0); a.scale_strength(f1); a.scale_strength(1.0)
            if current_state(to_model(a)) != constructed:
                return Failure(f"strength:{label.split('[')[0]}:scale-one", f"{label}: scale_strength(1) after scale_strength({f1}) does not restore the constructed ranges",
                               inp, constructed, current_state(to_model(a)))
            b = copy.deepcopy(t0); b.scale_strength(0.0)
            if current_state(to_model(b)) != weakest:
                return Failure(f"strength:{label.split('[')[0]}:scale-zero", f"{label}: scale_strength(0) does not collapse every range to its weakest setting",
                               inp, weakest, current_state(to_model(b)))
            c1 = copy.deepcopy(t0); c1.scale_strength(f1)
            c2 = copy.deepcopy(t0); c2.scale_strength(f2)
            s1, s2 = current_state(to_model(c1)), current_state(to_model(c2))
            if not (leq_state(weakest, s1, s2) and leq_state(s1, s2, constructed)):
                return Failure(f"strength:{label.split('[')[0]}:monotone", f"{label}: bounds do not move monotonically between weakest and constructed for factors {f1} <= {f2}",
                               inp, [weakest, constructed], [s1, s2])
            d = copy.deepcopy(t0); d.scale_strength(f1); d.scale_strength(f2)
            if current_state(to_model(d)) != s2:
                return Failure(f"strength:{label.split('[')[0]}:compounding", f"{label}: scale({f1}) then scale({f2}) differs from scale({f2}) alone (compounding)",
                               inp, s2, current_state(to_model(d)))
            # history over several objects: the whole tree is scaled to f1, then parts of it are given another factor directly,
            # then the whole tree is scaled to f1 again -- the last factor given to the tree counts for every member
            e = copy.deepcopy(t0); e.scale_strength(f1)
            parts = _subnodes(e)
            if parts:
                for sub in parts[::2] or parts:
                    if getattr(sub, "supports_scale_strength", True) and hasattr(sub, "scale_strength"):
                        try:
                            sub.scale_strength(f2)
                        except (AssertionError, NotImplementedError):
                            pass
                e.scale_strength(f1)
                if current_state(to_model(e)) != s1:
                    return Failure(f"strength:{label.split('[')[0]}:history", f"{label}: tree scaled to {f1}, some members scaled to {f2} directly, tree scaled to "
                                   f"{f1} again: the members do not follow the last factor given to the tree", inp, s1, current_state(to_model(e)))
        except AssertionError as e:
            return Failure(f"strength:{label.split('[')[0]}:assert", f"{label}: scale_strength raises AssertionError for a valid factor", inp, "no assertion", str(e))
        return None

    # ---- scheduled transform ----------------------------------------------------------------
    def scheduled(self, res):
        import kappadata.transforms as T
        import torch
        rng = self.rng
        combos = [(W, B) for W in range(1, 6) for B in range(1, 5)]
        if self.tier == "quick":
            rng.shuffle(combos)
            combos = combos[:8]
        reqs, metas = [], []
        for W, B in combos:
            n_batches = rng.randint(W, 3 * W + 2)
            base = T.KDScheduledTransform(transform=T.KDColorJitter(0.4, 0.4, 0.2, 0.1))
            workers = []
            for r in range(W):
                w = copy.deepcopy(base)
                w._worker_init_fn(r, W, batch_size=B, updates=n_batches)
                workers.append(w)
            x = torch.rand(3, 4, 4)
            for b in range(n_batches):
                w = workers[b % W]
                for s in range(B):
                    counter = w.sample_counter
                    ctx = {}
                    w(x, ctx=ctx)
                    expected = w.schedule.get_value(b, n_batches)
                    got = ctx[w.ctx_key]
                    res.cases += 1
                    res.bump("scheduled")
                    res.nontrivial.add(("sched", W, B, b, s))
                    reqs.append({"op": "st.batchidx", "counter": counter, "B": B, "W": W, "rank": b % W})
                    metas.append((W, B, b, s, counter))
                    if got != expected and not any(f.key == "scheduled:strength" for f in res.failures):
                        res.failures.append(Failure("scheduled:strength", f"sample {s} of global batch {b} gets strength {got}, schedule({b})={expected} "
                                                    f"(num_workers={W}, batch_size={B})", {"W": W, "B": B, "b": b, "s": s}, expected, got))
        for (W, B, b, s, counter), ans in zip(metas, self.driver.run(reqs)):
            if ans != b:
                res.disagreements.append(Disagreement({"W": W, "B": B, "b": b, "s": s, "counter": counter}, ans, b, "model batch index differs from the global batch"))
        self.loader_model(res, combos)
        self.schedule_length(res)

    def loader_model(self, res, combos):
        """the STATEFUL model of the scheduled transform (Model/C15Spec: per-worker sample counter, wrapped transform re-scaled on every
        call, value written to ctx) against the real object in simulated workers: per call the reported strength (exact) and the
        state of the wrapped transform after the call (1e-9)"""
        import kappadata.transforms as T
        import torch

        def flat(m):
            out = []
            if isinstance(m, dict):
                for k in sorted(m):
                    out += flat(m[k])
            elif isinstance(m, list):
                if len(m) == 2 and all(isinstance(v, int) for v in m) and m[1] != 0:
                    out.append(m[0] / m[1])
                else:
                    for v in m:
                        out += flat(v)
            elif isinstance(m, (int, float)) and not isinstance(m, bool):
                out.append(float(m))
            elif m is not None:
                out.append(m)
            return out

        reqs, reals = [], []
        for W, B in combos:
            N = self.rng.randint(W, 2 * W + 3)
            base = T.KDScheduledTransform(transform=T.KDColorJitter(0.5, 0.5, 0.25, 0.125))
            workers = []
            for r in range(W):
                w = copy.deepcopy(base)
                w._worker_init_fn(r, W, batch_size=B, updates=N)
                workers.append(w)
            table = [rat(fr(workers[0].schedule.get_value(b, N))) for b in range(N)]
            x = torch.rand(3, 4, 4)
            real = []
            for b in range(N):
                w = workers[b % W]
                batch = []
                for s_ in range(B):
                    ctx = {}
                    w(x, ctx=ctx)
                    batch.append({"strength": rat(fr(ctx[w.ctx_key])), "applied": to_model(w.transform)})
                real.append(batch)
            reqs.append({"op": "st.loader", "W": W, "B": B, "N": N, "t": to_model(base.transform), "schedule": table})
            reals.append((W, B, N, real))
        for (W, B, N, real), ans in zip(reals, self.driver.run(reqs)):
            res.cases += 1
            res.bump("scheduled-stateful-model")
            case = {"W": W, "B": B, "N": N}
            if not isinstance(ans, list) or len(ans) != len(real):
                res.disagreements.append(Disagreement(case, str(ans)[:200], f"{len(real)} batches", "loader model: shape"))
                continue
            for b, (mb, rb) in enumerate(zip(ans, real)):
                bad = None
                if len(mb) != len(rb):
                    bad = "calls per batch"
                else:
                    for mo, ro in zip(mb, rb):
                        if mo["b"] != b:
                            bad = f"model batch index {mo['b']} for global batch {b}"
                        elif mo["strength"] != ro["strength"]:
                            bad = f"strength reported in ctx: model {mo['strength']} real {ro['strength']}"
                        else:
                            fm, frl = flat(mo["applied"]), flat(ro["applied"])
                            if len(fm) != len(frl) or any((abs(a - c) > 1e-9) if isinstance(a, float) and isinstance(c, float) else a != c
                                                          for a, c in zip(fm, frl)):
                                bad = "state of the wrapped transform after the call"
                        if bad:
                            break
                if bad:
                    res.disagreements.append(Disagreement(dict(case, b=b), mb, rb, "stateful scheduled-transform model: " + bad))
                    break

    # ---- the schedule's length n_batches ----------------------------------------------------
    @staticmethod
    def true_batches(kind, v, B, n=None, Wd=None, dl=None):
        """number of batches of the run, counted by enumerating them (independent of the formula in the code)"""
        if kind == "updates":
            return v
        if kind == "samples":
            k, got = 0, 0
            while got < v:
                got += B
                k += 1
            return k
        per_rank = n // Wd
        chunks = [min(B, per_rank - i) for i in range(0, per_rank, B)]
        if dl:
            chunks = [c for c in chunks if c == B]
        return v * len(chunks)

    def schedule_length(self, res):
        import kappadata.transforms as T
        import torch
        rng = self.rng
        cases = []
        for B in range(1, 6):
            for n in range(1, 26):
                for Wd in (1, 2, 3):
                    for dl in (True, False):
                        cases.append(("epochs", rng.randint(0, 3), B, n, Wd, dl))
            for v in range(0, 14):
                cases.append(("updates", v, B, None, None, None))
                cases.append(("samples", v, B, None, None, None))
        if self.tier == "quick":
            rng.shuffle(cases)
            # keep the divisible-boundary cells (per-rank length an exact multiple of the batch size, drop_last off) in every run
            keep = [c for c in cases if c[0] == "epochs" and not c[5] and (c[3] // c[4]) % c[2] == 0 and c[3] // c[4] > 0][:40]
            cases = keep + cases[:260]
        reqs, metas = [], []
        for kind, v, B, n, Wd, dl in cases:
            t = T.KDScheduledTransform(transform=T.KDColorJitter(0.4, 0.4, 0.2, 0.1))
            kw = {"batch_size": B}
            if kind == "epochs":
                kw.update(epochs=v, dataset_len=n, world_size=Wd, drop_last=dl)
            else:
                kw[kind] = v
            t._worker_init_fn(0, 1, **kw)
            expect = self.true_batches(kind, v, B, n, Wd, dl)
            res.cases += 1
            res.bump(f"n_batches:{kind}")
            res.nontrivial.add(("nb", kind, v, B, n, Wd, dl))
            rq = {"op": "st.nbatches", "kind": kind, "v": v, "B": B}
            if kind == "epochs":
                rq.update(n=n, W=Wd, dl=dl)
            reqs.append(rq)
            metas.append((kind, v, B, n, Wd, dl, t.n_batches))
            if t.n_batches != expect and not any(f.key == "scheduled:n-batches" for f in res.failures):
                inp = {"kind": kind, "value": v, "batch_size": B, "dataset_len": n, "world_size": Wd, "drop_last": dl}
                # the consequence the property names: the strength applied/reported for batch b is not schedule(b)
                x = torch.rand(3, 4, 4)
                ctx = {}
                if expect > 1:
                    t.sample_counter = B       # second global batch
                    t(x, ctx=ctx)
                    want = t.schedule.get_value(1, expect)
                    got = ctx.get(t.ctx_key)
                else:
                    want = got = None
                res.failures.append(Failure("scheduled:n-batches", f"schedule length n_batches={t.n_batches} but the run has {expect} batches "
                                            f"({inp}); strength of global batch 1: reported {got}, schedule(1 of {expect})={want}", inp, expect, t.n_batches))
        for (kind, v, B, n, Wd, dl, real), ans in zip(metas, self.driver.run(reqs)):
            if ans != real:
                res.disagreements.append(Disagreement({"kind": kind, "v": v, "B": B, "n": n, "W": Wd, "dl": dl}, ans, real, "n_batches differs from the model"))

    def search(self, budget_s, hints):
        import time
        t0 = time.time()
        rng = random.Random(self.seed + 3)
        leaves = leaf_recipes(rng)
        out = []
        while time.time() - t0 < budget_s and not out:
            for label, thunk in leaves:
                try:
                    f = self.oracle(label, thunk(), rng)
                except Unmodelled:
                    continue
                if f:
                    out.append(f)
                    break
        return out

    def replay_input(self, inp):
        if "batch_size" in inp and "kind" in inp:
            import kappadata.transforms as T
            t = T.KDScheduledTransform(transform=T.KDColorJitter(0.4, 0.4, 0.2, 0.1))
            kw = {"batch_size": inp["batch_size"]}
            if inp["kind"] == "epochs":
                kw.update(epochs=inp["value"], dataset_len=inp["dataset_len"], world_size=inp["world_size"], drop_last=inp["drop_last"])
            else:
                kw[inp["kind"]] = inp["value"]
            t._worker_init_fn(0, 1, **kw)
            expect = self.true_batches(inp["kind"], inp["value"], inp["batch_size"], inp.get("dataset_len"), inp.get("world_size"), inp.get("drop_last"))
            if t.n_batches != expect:
                return Failure("scheduled:n-batches", f"n_batches={t.n_batches}, the run has {expect} batches", inp, expect, t.n_batches)
            return None
        rng = random.Random(1)
        for label, thunk in leaf_recipes(rng):
            if label == inp.get("tree"):
                for _ in range(20):
                    f = self.oracle(label, thunk(), rng)
                    if f:
                        return f
        return None
